"""C01 -- chunked streaming == whole-signal computation, for every chunking (DESIGN 3/C01)."""
import itertools

import z3

from vlib import symex

from vlib.symex import (Ctx, SInt, _z, conc, decide, explore, Inconclusive, check_sat)
from checks import stft_common as sc
from checks import si_common as si

PID = 'C01'
LEVEL = 'model_checking'
FUNCTIONS = [
    'compute:ShortTimeFourierTransformFrameComputer.compute_chunk',
    'compute:ShortTimeFourierTransformFrameComputer.finalize',
    'compute:ShortTimeFourierTransformFrameComputer.compute_full',
    'compute:ShortIntegrationFrameComputer.compute_chunk',
    'compute:ShortIntegrationFrameComputer.finalize',
    'compute:ShortIntegrationFrameComputer.compute_full',
    'compute:ShortIntegrationFrameComputer._compute_preamble',
    'compute:ShortIntegrationFrameComputer._handle_skip',
    'compute:ShortIntegrationFrameComputer._fill_y_buf',
    'compute:ShortIntegrationFrameComputer._compute_frame',
    'compute:frame_by_frame_calculation',
]
EXPLANATION = (
    'Bounded symbolic execution (pysymex + z3) of the real compute_chunk/finalize/compute_full source on a signal '
    'x: Int->Real (uninterpreted), symbolic length N and symbolic chunk cuts; every feasible path ends in an '
    'EUF+LIA query asserting that the streamed frame list and the compute_full frame list differ; unsat on all '
    'paths = equal for all sample values and all (N, cuts) inside the bound. STFT additionally: one inductive '
    'step from an arbitrary state satisfying the streaming invariant (T unbounded). SI: overlap-save chain '
    'abstracted by an uninterpreted circular FIR.')
BOUNDS = {
    'quick': 'STFT: (L,S) in {(4,2),(5,2),(5,3),(6,3),(4,4),(5,5),(7,3)} x {causal, centered, centered+kaldi}, K=2 symbolic cuts (zero-length chunks '
             'allowed), N <= 2L+S+2; inductive step: chunk length <= L+S, T unbounded; frame_by_frame: symbolic chunk_size>=1, N<=L+S+2. '
             'SI: S=2, M in {3,4}, D in {6,8}, K=2, N <= 10, both styles.',
    'thorough': 'STFT: L<=9 grid, K=3 cuts, N <= 3L+S; inductive step chunk <= 2L; frame_by_frame_calculation every (N, chunk_size) with N <= 2L+S (L <= 6) or N <= L+S+2 (L >= 7); SI: S in {2,3}, M in {2,3,4}, D up to 9, K<=3, N<=14.',
}
OUTSIDE = ['floating-point round-off (terms compared over the reals / structurally)',
           'N beyond the bound in the bounded-history formulation (covered for STFT by the inductive step)',
           'correctness of the FFT itself (per-frame routine is C02; SI chain abstracted as circular FIR)',
           'frame_shift > frame_length (excluded by the property)']
ASSUMPTIONS = [
    'STFT _compute_frame is a function of the frame contents and per-instance constants only (checked in C02/C04: writes no instance state)',
    'SI: rfft/irfft chain == circular FIR of length max_support (uninterpreted F_i), |.| and log uninterpreted',
    'hand-built instances satisfy the representation invariant of the real constructor (conformance replays build real instances)',
    'np.pad(symmetric) modelled by NumPy\'s repeated-reflection rule (period 2n); validated in conformance',
]
CONFIG_TIME_LIMIT = {'quick': 900, 'thorough': 3400}

STYLES = [('causal', False), ('centered', False), ('centered', True)]


def configs(tier, seed):
    cfgs = []
    if tier == 'quick':
        grid = [(4, 2), (5, 2), (5, 3), (6, 3), (4, 4), (5, 5), (7, 3)]
        K = 2
    else:
        grid = [(L, S) for L in range(2, 10) for S in range(1, L + 1) if (L, S) in
                {(2, 1), (2, 2), (3, 1), (3, 2), (3, 3), (4, 1), (4, 2), (4, 3), (4, 4), (5, 2), (5, 3), (5, 4), (5, 5), (6, 2),
                 (6, 3), (6, 4), (6, 5), (7, 2), (7, 3), (7, 5), (7, 7), (8, 3), (8, 4), (9, 4)}]
        K = 3
    # kaldi_shift is documented to matter for centered frames only: causal + kaldi_shift at two grid points
    extra = [((L, S), ('causal', True)) for (L, S) in ((5, 2), (7, 3))]
    for (L, S), (style, kaldi) in list(itertools.product(grid, STYLES)) + extra:
        nmax = 2 * L + S + 2 if tier == 'quick' else min(3 * L + S, 26)
        cfgs.append(dict(kind='stft_hist', name='stft_hist L%d S%d %s%s K%d' % (L, S, style, '+kaldi' if kaldi else '', K),
                         L=L, S=S, style=style, kaldi=kaldi, K=K, NMAX=nmax))
        cfgs.append(dict(kind='stft_step', name='stft_step L%d S%d %s%s' % (L, S, style, '+kaldi' if kaldi else ''),
                         L=L, S=S, style=style, kaldi=kaldi, CMAX=(L + S if tier == 'quick' else 2 * L)))
        cfgs.append(dict(kind='stft_fbf', name='stft_fbf L%d S%d %s%s' % (L, S, style, '+kaldi' if kaldi else ''),
                         L=L, S=S, style=style, kaldi=kaldi, NMAX=L + S + 2 if tier == 'quick' else (2 * L + S if L <= 6 else L + S + 2)))
    cfgs.extend(si.c01_configs(tier))
    return cfgs


# ------------------------------------------------------------------ STFT bounded histories

def _model_ints(ctx, names):
    m = ctx.model()
    out = {}
    for n in names:
        v = m.eval(z3.Int(n), model_completion=True)
        out[n] = v.as_long()
    return out


def run_stft_hist(cfg):
    L, S, style, kaldi, K, NMAX = cfg['L'], cfg['S'], cfg['style'], cfg['kaldi'], cfg['K'], cfg['NMAX']
    ns = sc.load_compute()
    names = ['N'] + ['c%d' % i for i in range(K)]
    viol, samples = [], []
    ob = dis = 0
    reached = False

    def body():
        c = Ctx.cur
        N = z3.Int('N')
        cs = [z3.Int('c%d' % i) for i in range(K)]
        c.inputs = [N] + cs
        c.assume(N >= 0, N <= NMAX, *[ci >= 0 for ci in cs])
        c.assume(z3.Sum(cs) == N)
        o, fr1 = sc.mk_stft(ns, L, S, style, kaldi, 'A')
        off = z3.IntVal(0)
        try:
            for ci in cs:
                o.compute_chunk(sc.sig(off, SInt(ci)))
                off = off + ci
            o.finalize()
        except Exception as e:
            symex.guard(e)
            return ('exc', 'streaming: %s: %s' % (type(e).__name__, e))
        o2, fr2 = sc.mk_stft(ns, L, S, style, kaldi, 'B')
        try:
            o2.compute_full(sc.sig(z3.IntVal(0), SInt(N)))
        except Exception as e:
            symex.guard(e)
            return ('exc', 'compute_full: %s: %s' % (type(e).__name__, e))
        return ('ok', fr1, fr2)

    for ctx, res in explore(body):
        if res is None:
            continue
        ob += 1
        base = dict(kind='stft_hist', L=L, S=S, style=style, kaldi=kaldi)
        if res[0] == 'exc':
            w = dict(base, what='exception', detail=res[1], **_model_ints(ctx, names))
            viol.append(w)
            continue
        _, fr1, fr2 = res
        if len(fr1) != len(fr2):
            w = dict(base, what='count', streamed=len(fr1), full=len(fr2), **_model_ints(ctx, names))
            viol.append(w)
            continue
        if fr2:
            reached = True
        bad = [a != b for f1, f2 in zip(fr1, fr2) for a, b in zip(f1, f2) if not a.eq(b)]
        if bad:
            s = ctx.solver
            s.push()
            s.add(z3.Or(bad))
            r = check_sat(s)
            if r == 'sat':
                m = s.model()
                w = dict(base, what='value', frames=len(fr1))
                for n in names:
                    w[n] = m.eval(z3.Int(n), model_completion=True).as_long()
                viol.append(w)
                s.pop()
                continue
            s.pop()
            if r != 'unsat':
                raise Inconclusive('final query: %s' % r)
        dis += 1
        if len(samples) < 2 and fr2:
            mi = _model_ints(ctx, names)
            samples.append({'config': cfg['name'], 'path_witness': mi, 'frames': len(fr2),
                            'frame0': [str(t) for t in fr2[0]]})
    for w in viol:
        w['cuts'] = [w.pop('c%d' % i) for i in range(K)]
        w['class'] = '%s/%s/%s/L%dS%d/%s' % (w['kind'], w['style'] + ('+kaldi' if kaldi else ''), w['what'], L, S, _cls_hist(w))
    return dict(obligations=ob, discharged=dis, violations=viol, samples=samples, twin=reached)


def _cls_hist(w):
    L, S, N = w['L'], w['S'], w['N']
    if N < L // 2 + 1:
        return 'short'
    return 'long'


# ------------------------------------------------------------------ STFT: one inductive step

EMIT_THRESHOLD = [None]      # samples after which the first frame is emitted, as the implementation does it (probed)


def _emit_thr(L, S, style, kaldi):
    return EMIT_THRESHOLD[0] if EMIT_THRESHOLD[0] is not None else sc.first_len(L, S, style, kaldi)


def _state(ns, L, S, style, kaldi):
    """arbitrary pre-state satisfying the streaming invariant Inv(T).

    Inv(T): T samples consumed so far.  Either no frame has been emitted yet (first-frame phase: T < first_len and
    the buffer tail holds x[0:T]) or F >= 1 frames were emitted and the buffer holds the last L samples of the
    left-extended stream ext[.. pad_left+T), of which the last bl = pad_left + T - F*S are not yet consumed.
    Which cells of the buffer are *required* to hold stream samples is discovered from the code: the invariant only
    constrains the tail of length `keep`, the rest is junk; `keep` is bl when the implementation keeps just the
    remainder and L when it keeps a rolling history (both are checked: the weaker one that the step re-establishes
    and that suffices for finalize is used)."""
    c = Ctx.cur
    pl = sc.pad_left(L, S, style, kaldi)
    T = z3.Int('T')
    F = z3.Int('F')
    first = z3.Bool('first')
    bl = z3.Int('bl')
    o, frames = sc.mk_stft(ns, L, S, style, kaldi, 'S')
    ext = lambda i: sc.x(z3.If(i < pl, pl - 1 - i, i - pl))
    junk = z3.Function('junkS', sc.I, sc.R)
    c.assume(T >= 0, F >= 0)
    c.assume(z3.Implies(first, z3.And(F == 0, T < _emit_thr(L, S, style, kaldi), bl == T)))
    c.assume(z3.Implies(z3.Not(first), z3.And(F >= 1, bl == pl + T - F * S, bl >= L - S, bl < L, bl >= 0,
                                             pl + T >= L, T >= _emit_thr(L, S, style, kaldi))))
    isfirst = decide(first)
    o._first_frame = isfirst
    o._started = True
    o._buf_len = SInt(bl)
    return o, frames, T, F, bl, ext, pl, junk, isfirst


def run_stft_step(cfg):
    """Inductive step.  hist in {0,1}: does the invariant promise a full L-sample rolling history (needed by a
    finalize that reflects over history) or only the bl-sample remainder?  The check first tries the strong
    invariant (history); if the step does not re-establish it, it falls back to the weak one.  finalize is then
    checked from the invariant that holds."""
    L, S, style, kaldi, CMAX = cfg['L'], cfg['S'], cfg['style'], cfg['kaldi'], cfg['CMAX']
    ns = sc.load_compute()
    out = dict(obligations=0, discharged=0, violations=[], samples=[], notes=[])
    # when does the implementation emit its first frame?  Either as soon as the first frame can be formed (first_len) or
    # only once the signal is long enough for compute_full to emit anything (frame_length // 2 + 1): discovered by
    # probing which invariant the step re-establishes; finalize is then checked from that invariant
    fl0 = sc.first_len(L, S, style, kaldi)
    cands = [max(fl0, L // 2 + 1)] + ([fl0] if fl0 < L // 2 + 1 else [])
    strong = False
    for thr in cands:
        EMIT_THRESHOLD[0] = thr
        strong = _step(cfg, ns, True, out, probe=True)
        if strong or _step(cfg, ns, False, out, probe=True):
            break
    out['notes'].append('%s: first frame emitted after %d samples (first frame needs %d, compute_full needs %d)' % (cfg['name'], EMIT_THRESHOLD[0], fl0, L // 2 + 1))
    hist = bool(strong)
    out['notes'].append('%s: invariant used: %s' % (cfg['name'], 'rolling L-sample history' if hist else 'remainder only'))
    _step(cfg, ns, hist, out, probe=False)
    _final(cfg, ns, hist, out)
    out['twin'] = out.pop('_reached', False)
    return out


def _mk_state_buf(o, L, S, bl, T, F, ext, junk, isfirst, hist):
    if isfirst:
        o._buf = sc.SArr(L, lambda i: z3.If(i >= L - bl, sc.x(i - (L - bl)), junk(i)))
    elif hist:
        # last L samples of the extended stream: cell i holds ext[pl+T-L+i]; with bl = pl+T-F*S: = ext[F*S + i-(L-bl)]
        o._buf = sc.SArr(L, lambda i: ext(F * S + i - (L - bl)))
    else:
        o._buf = sc.SArr(L, lambda i: z3.If(i >= L - bl, ext(F * S + i - (L - bl)), junk(i)))


def _step(cfg, ns, hist, out, probe):
    L, S, style, kaldi, CMAX = cfg['L'], cfg['S'], cfg['style'], cfg['kaldi'], cfg['CMAX']
    fl1 = _emit_thr(L, S, style, kaldi)
    ok_all = True

    def body():
        c = Ctx.cur
        o, frames, T, F, bl, ext, pl, junk, isfirst = _state(ns, L, S, style, kaldi)
        _mk_state_buf(o, L, S, bl, T, F, ext, junk, isfirst, hist)
        cl = z3.Int('c')
        c.assume(cl >= 0, cl <= CMAX)
        try:
            o.compute_chunk(sc.sig(T, SInt(cl)))
        except Exception as e:
            symex.guard(e)
            return ('exc', '%s: %s' % (type(e).__name__, e))
        T2 = T + cl
        avail = pl + T2 - L
        F2 = z3.If(z3.And(T2 >= fl1, avail >= 0), avail / S + 1, 0)
        m = len(frames)
        bad = [F2 - F != m]
        for i, fr in enumerate(frames):
            for j in range(L):
                bad.append(fr[j] != ext((F + i) * S + j))
        nbl = _z(o._buf_len)
        bad.append(z3.If(F2 == 0, nbl != T2, nbl != pl + T2 - F2 * S))
        bad.append((F2 == 0) != z3.BoolVal(bool(o._first_frame)))
        bad.append(z3.BoolVal(not bool(o._started)))
        k = z3.Int('k')
        c.assume(k >= 0, k < L)
        cell = o._buf.get(k)
        want = z3.If(F2 == 0, sc.x(k - (L - nbl)), ext(F2 * S + k - (L - nbl)))
        if hist:
            bad.append(z3.And(z3.Or(F2 > 0, k >= L - nbl), cell != want))
        else:
            bad.append(z3.And(k >= L - nbl, cell != want))
        return ('ok', bad, m)

    for ctx, res in explore(body):
        if res is None:
            continue
        if not probe:
            out['obligations'] += 1
        if res[0] == 'exc':
            ok_all = False
            if not probe:
                m = ctx.model()
                out['violations'].append(dict(kind='stft_step', L=L, S=S, style=style, kaldi=kaldi, what='exception',
                                              detail=res[1], model=_ints(m), **{'class': 'stft_step/exc/%s' % cfg['name']}))
            continue
        _, bad, m = res
        s = ctx.solver
        s.push()
        s.add(z3.Or(bad))
        r = check_sat(s)
        if r == 'sat':
            ok_all = False
            if not probe:
                mm = s.model()
                out['violations'].append(dict(kind='stft_step', L=L, S=S, style=style, kaldi=kaldi, what='step',
                                              model=_ints(mm), **{'class': 'stft_step/step/%s' % cfg['name']}))
        elif r != 'unsat':
            s.pop()
            raise Inconclusive('step query %s' % r)
        else:
            if not probe:
                out['discharged'] += 1
                if m:
                    out['_reached'] = True
        s.pop()
        if probe and not ok_all:
            return False
    return ok_all


def _ints(m):
    return {str(d): (m[d].as_long() if z3.is_int_value(m[d]) else str(m[d])) for d in m.decls() if d.arity() == 0}


def _final(cfg, ns, hist, out):
    """finalize from Inv(N) must emit exactly the frames compute_full(N) has beyond those already emitted."""
    L, S, style, kaldi = cfg['L'], cfg['S'], cfg['style'], cfg['kaldi']
    pl = sc.pad_left(L, S, style, kaldi)

    def body():
        c = Ctx.cur
        o, frames, T, F, bl, ext0, pl_, junk, isfirst = _state(ns, L, S, style, kaldi)
        _mk_state_buf(o, L, S, bl, T, F, ext0, junk, isfirst, hist)
        # spec: compute_full on N = T samples: count and symmetric extension over the whole signal.
        # x beyond N is reflected: full_ext(i) = x(refl(i - pl)) with NumPy's period-2N rule.  To keep the period
        # symbolic-free we bound the reflection depth: pad_right < L <= pl + N whenever frames are emitted after the
        # first frame, and in first-frame phase N < L is concretised by the fork below.
        try:
            o.finalize()
        except Exception as e:
            symex.guard(e)
            return ('exc', '%s: %s' % (type(e).__name__, e))
        N = T
        nf_full = z3.If(N >= L // 2 + 1, (N + S // 2) / S, 0)
        m = len(frames)
        bad = [nf_full - F != m]
        if isfirst:
            Nc = SInt(N).__index__()   # N < first_len: small, fork
            e = sc.ext_spec(Nc, pl) if Nc > 0 else None
            for i, fr in enumerate(frames):
                for j in range(L):
                    bad.append(fr[j] != e(z3.IntVal(i * S + j)))
        else:
            # one right reflection suffices: index p = (F+i)S + j - pl < N + pad_right, pad_right < L <= pl + N
            def full_ext(i):
                p = i - pl
                return sc.x(z3.If(p < 0, -1 - p, z3.If(p >= N, 2 * N - 1 - p, p)))
            for i, fr in enumerate(frames):
                for j in range(L):
                    bad.append(fr[j] != full_ext((F + i) * S + j))
        bad.append(z3.BoolVal(bool(o._started)))
        bad.append(z3.BoolVal(not bool(o._first_frame)))
        bad.append(_z(o._buf_len) != 0)
        return ('ok', bad, m)

    for ctx, res in explore(body):
        if res is None:
            continue
        out['obligations'] += 1
        if res[0] == 'exc':
            m = ctx.model()
            out['violations'].append(dict(kind='stft_final', L=L, S=S, style=style, kaldi=kaldi, what='exception',
                                          detail=res[1], model=_ints(m), **{'class': 'stft_final/exc/%s' % cfg['name']}))
            continue
        _, bad, m = res
        s = ctx.solver
        s.push()
        s.add(z3.Or(bad))
        r = check_sat(s)
        if r == 'sat':
            mm = s.model()
            out['violations'].append(dict(kind='stft_final', L=L, S=S, style=style, kaldi=kaldi, what='finalize',
                                          model=_ints(mm), **{'class': 'stft_final/%s' % cfg['name']}))
        elif r != 'unsat':
            s.pop()
            raise Inconclusive('finalize query %s' % r)
        else:
            out['discharged'] += 1
            if m:
                out['_reached'] = True
        s.pop()


# ------------------------------------------------------------------ frame_by_frame_calculation

def run_stft_fbf(cfg):
    L, S, style, kaldi, NMAX = cfg['L'], cfg['S'], cfg['style'], cfg['kaldi'], cfg['NMAX']
    ns = sc.load_compute()
    viol, samples = [], []
    ob = dis = 0
    reached = False

    def body():
        c = Ctx.cur
        N = z3.Int('N')
        cs = z3.Int('chunk_size')
        c.inputs = [N, cs]
        c.assume(N >= 0, N <= NMAX, cs >= 1, cs <= NMAX + 1)
        o, fr1 = sc.mk_stft(ns, L, S, style, kaldi, 'A')
        try:
            # (N, chunk_size) are concretised by solver-driven forking (one class per pair): the loop of
            # frame_by_frame_calculation nests one view per iteration, which makes symbolic-length terms explode.
            # Sample values stay symbolic.
            Nc = SInt(N).__index__()
            ns['frame_by_frame_calculation'](o, sc.sig(z3.IntVal(0), Nc), SInt(cs).__index__())
        except Exception as e:
            symex.guard(e)
            return ('exc', 'frame_by_frame: %s: %s' % (type(e).__name__, e))
        o2, fr2 = sc.mk_stft(ns, L, S, style, kaldi, 'B')
        o2.compute_full(sc.sig(z3.IntVal(0), Nc))
        return ('ok', fr1, fr2)

    for ctx, res in explore(body):
        if res is None:
            continue
        ob += 1
        base = dict(kind='stft_fbf', L=L, S=S, style=style, kaldi=kaldi)
        mi = _model_ints(ctx, ['N', 'chunk_size'])
        if res[0] == 'exc':
            viol.append(dict(base, what='exception', detail=res[1], **mi))
            continue
        _, fr1, fr2 = res
        if len(fr1) != len(fr2):
            viol.append(dict(base, what='count', streamed=len(fr1), full=len(fr2), **mi))
            continue
        reached = reached or bool(fr2)
        bad = [a != b for f1, f2 in zip(fr1, fr2) for a, b in zip(f1, f2) if not a.eq(b)]
        if bad:
            s = ctx.solver
            s.push()
            s.add(z3.Or(bad))
            r = check_sat(s)
            if r == 'sat':
                m = s.model()
                viol.append(dict(base, what='value', N=m.eval(z3.Int('N'), True).as_long(),
                                 chunk_size=m.eval(z3.Int('chunk_size'), True).as_long()))
                s.pop()
                continue
            s.pop()
            if r != 'unsat':
                raise Inconclusive('fbf query %s' % r)
        dis += 1
    for w in viol:
        w['class'] = 'stft_fbf/%s/%s/%s' % (cfg['name'], w['what'], 'short' if w['N'] < L // 2 + 1 else 'long')
    return dict(obligations=ob, discharged=dis, violations=viol, samples=samples, twin=reached)


def run_config(cfg):
    k = cfg['kind']
    if k == 'stft_hist':
        return run_stft_hist(cfg)
    if k == 'stft_step':
        return run_stft_step(cfg)
    if k == 'stft_fbf':
        return run_stft_fbf(cfg)
    return si.run_c01(cfg)


# ------------------------------------------------------------------ replay on the real library

def replay(w):
    import numpy as np
    k = w['kind']
    if k.startswith('si'):
        return si.replay_c01(w)
    L, S, style, kaldi = w['L'], w['S'], w['style'], w['kaldi']
    rng = np.random.RandomState(12345)
    if k == 'stft_hist':
        cuts = w['cuts']
    elif k == 'stft_fbf':
        N, cs = w['N'], w['chunk_size']
        # the real frame_by_frame_calculation (its own slicing loop) against compute_full
        from pydrobert.speech.compute import frame_by_frame_calculation
        xs = rng.randn(N) + 0.1
        try:
            a = frame_by_frame_calculation(sc.real_stft(L, S, style, kaldi), xs, chunk_size=cs)
        except Exception as e:
            return {'reproduced': True, 'detail': 'frame_by_frame_calculation raised %s: %s (N=%d chunk_size=%d)' % (type(e).__name__, e, N, cs)}
        b = sc.real_stft(L, S, style, kaldi).compute_full(xs)
        if a.shape != b.shape:
            return {'reproduced': True, 'detail': 'L=%d S=%d %s kaldi=%s N=%d chunk_size=%d: frame_by_frame_calculation shape %s != compute_full shape %s' % (L, S, style, kaldi, N, cs, a.shape, b.shape)}
        d = float(np.abs(a - b).max()) if a.size else 0.0
        return {'reproduced': d > 1e-8, 'detail': 'L=%d S=%d %s kaldi=%s N=%d chunk_size=%d: max |frame_by_frame_calculation - compute_full| = %.3g (Hamming window)' % (L, S, style, kaldi, N, cs, d)}
    else:
        # inductive-step / finalize counterexamples are abstract states; confirm through concrete histories:
        # search all 2-cut histories up to a small N for a real difference of the same configuration.
        for N in range(0, 3 * L + S + 1):
            for c0 in range(0, N + 1):
                r = _replay_hist(L, S, style, kaldi, [c0, N - c0], rng)
                if r['reproduced']:
                    r['detail'] = 'abstract %s counterexample confirmed by concrete history: %s' % (k, r['detail'])
                    return r
        return {'reproduced': False, 'detail': 'no concrete 2-cut history up to N=%d reproduces' % (3 * L + S)}
    return _replay_hist(L, S, style, kaldi, cuts, rng)


def _replay_hist(L, S, style, kaldi, cuts, rng):
    import numpy as np
    N = sum(cuts)
    xs = rng.randn(N) + 0.1
    try:
        c = sc.real_stft(L, S, style, kaldi)
        if (c.frame_length, c.frame_shift) != (L, S):
            return {'reproduced': False, 'detail': 'could not build real computer with L=%d S=%d' % (L, S)}
        outs, o = [], 0
        for kk in cuts:
            outs.append(c.compute_chunk(xs[o:o + kk]))
            o += kk
        outs.append(c.finalize())
        a = np.concatenate(outs)
    except Exception as e:
        return {'reproduced': True, 'detail': 'streaming raised %s: %s (cuts=%s)' % (type(e).__name__, e, cuts)}
    b = sc.real_stft(L, S, style, kaldi).compute_full(xs)
    if a.shape != b.shape:
        return {'reproduced': True, 'detail': 'L=%d S=%d %s kaldi=%s cuts=%s: streamed shape %s != compute_full shape %s'
                % (L, S, style, kaldi, cuts, a.shape, b.shape)}
    d = float(np.abs(a - b).max()) if a.size else 0.0
    return {'reproduced': d > 1e-8, 'detail': 'L=%d S=%d %s kaldi=%s cuts=%s: max |streamed - full| = %.3g (Hamming window)'
            % (L, S, style, kaldi, cuts, d)}


def conformance(tier, seed, results):
    """push path witnesses (and the repo's own test lengths) through the real library: frame counts and the
    sample->frame mapping recorded from the real _compute_frame must equal the symbolic frames under the model."""
    import numpy as np
    n = 0
    for (L, S), (style, kaldi) in itertools.product([(5, 2), (6, 3), (4, 4)], STYLES):
        for N in (0, 1, 2, 3, 4, 5, 7, 11, 16, 23):
            xs = np.arange(1, N + 1, dtype=np.float64)
            c = sc.real_stft(L, S, style, kaldi)
            got = []
            c._compute_frame = lambda frame, coeffs, got=got: got.append(np.array(frame))
            c.compute_full(xs)
            # model: numpy symmetric padding
            pl = sc.pad_left(L, S, style, kaldi)
            nf = (N + S // 2) // S if N >= L // 2 + 1 else 0
            assert len(got) == nf, ('frame count', L, S, style, kaldi, N, len(got), nf)
            for kf, fr in enumerate(got):
                for j in range(L):
                    p = kf * S + j - pl
                    q = p % (2 * N)
                    q = 2 * N - 1 - q if q >= N else q
                    assert fr[j] == xs[q], ('frame content', L, S, style, kaldi, N, kf, j)
            n += 1
    n += si.conformance_c01(tier, seed)
    return n
