"""C02 -- STFT coefficients equal their documented definition (DESIGN 3/C02)."""
import itertools

import z3

from vlib import symex
from vlib.symex import (Ctx, SArr, SBool, SInt, SReal, _z, conc, decide, explore, slen, smax, smin, srange, rv,
                        Inconclusive, check_sat, ssqrt)
from checks import stft_common as sc

PID = 'C02'
LEVEL = 'model_checking'
FUNCTIONS = [
    'compute:ShortTimeFourierTransformFrameComputer._compute_frame',
    'compute:ShortTimeFourierTransformFrameComputer.compute_full',
    'compute:ShortTimeFourierTransformFrameComputer.__init__',
    'compute:_power', 'compute:_mag',
]
EXPLANATION = (
    'Symbolic execution of the real per-frame routine with the half spectrum replaced by an array whose element m '
    'IS the integer m and the truncated filter by an array whose element j IS j: for symbolic start bin and '
    'truncated length z3 decides that the recorded segments pair tap j exactly once with half-spectrum bin '
    'm((start+j) mod D) (the documented rebuilding recipe folded onto the half spectrum), for every D in the bound. '
    'compute_full is run on symbolic N and its recorded frames are compared with the documented frame count and '
    'symmetric-reflection coverage; the energy/log/power dataflow is decided as term equalities with symbolic flags.')
BOUNDS = {
    'quick': 'pairing: D in 2..17 and {32, 64} with the frame lengths the constructor yields (L = D; D - 1 under padding), any start bin 0<=start<D and 1<=len<=D (complex) / start+len<=D//2+1 (real); '
             'coverage: (L,S) grid as C01 plus causal+kaldi_shift at (5,2) (7,3) and frame shifts beyond the frame length (2,6) (3,7) (3,4), N <= 3L; dataflow: all flag combinations (symbolic booleans); '
             'constructor: frame_style in {None, centered, causal} with symbolic is_zero_phase and kaldi_shift',
    'thorough': 'pairing: D in 2..40 and {64,127,128,255,256,512}; coverage: L<=9 grid, N <= 4L',
}
OUTSIDE = ['numerical value of the FFT', 'window values (C20)', 'floating-point round-off',
           'default frame length clause is decided only as L >= ceil(2*rate/min bandwidth) (lemma: then every band of at least the minimum width contains an interior DFT bin)']
ASSUMPTIONS = [
    '|X[k] H[k]| does not depend on which of a conjugate pair of bins of a real signal is used, so only the pairing matters',
    'real banks: doubling equals the full-spectrum sum exactly when the taps at the self-conjugate bins 0 and D/2 are zero '
    '(triangles vanish at their outer vertices; vertices lie in [0, Nyquist]) -- assumed here, discharged in C06',
    'np.fft.rfft returns the D//2+1 bins 0..D//2 of the D-point DFT (NumPy contract)',
]
CONFIG_TIME_LIMIT = {'quick': 600, 'thorough': 3000}


def configs(tier, seed):
    cfgs = []
    Ds = list(range(2, 18)) + [32, 64] if tier == 'quick' else list(range(2, 41)) + [64, 127, 128, 255, 256, 512]
    for D in Ds:
        # frame lengths the constructor can produce for this DFT size: L = D, and for a power of two (padding) also a
        # shorter frame of the other parity
        Ls = [D] + ([D - 1] if D >= 4 and D & (D - 1) == 0 else [])
        for real in (False, True):
            for L in Ls:
                cfgs.append(dict(kind='walk', name='walk D%d%s %s' % (D, '' if L == D else ' L%d' % L, 'real' if real else 'complex'), D=D, L=L, real=real))
    grid = [(4, 2), (5, 2), (5, 3), (6, 3), (4, 4), (5, 5), (7, 3)] if tier == 'quick' else \
        [(2, 1), (2, 2), (3, 2), (3, 3), (4, 1), (4, 2), (4, 3), (4, 4), (5, 2), (5, 3), (5, 5), (6, 3), (6, 4), (7, 2), (7, 3), (7, 7), (8, 3), (9, 4)]
    # kaldi_shift is documented to matter for centered frames only: causal + kaldi_shift at two grid points
    extra = [((L, S), ('causal', True)) for (L, S) in ((5, 2), (7, 3))]
    # frame shifts beyond the frame length (C02 speaks about every configuration): frames no longer overlap, with
    # kaldi_shift the first frame starts inside the signal
    extra += [((L, S), sk) for (L, S) in ((2, 6), (3, 7), (3, 4)) for sk in (('causal', False), ('centered', False), ('centered', True))]
    for (L, S), (style, kaldi) in list(itertools.product(grid, [('causal', False), ('centered', False), ('centered', True)])) + extra:
        cfgs.append(dict(kind='cover', name='cover L%d S%d %s%s' % (L, S, style, '+kaldi' if kaldi else ''), L=L, S=S,
                         style=style, kaldi=kaldi, NMAX=(3 if tier == 'quick' else 4) * L))
    cfgs.append(dict(kind='flow', name='flow'))
    cfgs.append(dict(kind='deflen', name='deflen'))
    cfgs.append(dict(kind='ctor', name='ctor frame_style / kaldi_shift resolution'))
    return cfgs


class Cfg:
    USE_FFTPACK = False
    LOG_FLOOR_VALUE = 1e-5


# ------------------------------------------------------------------ S2: bin <-> tap pairing

def _ctor_fields(L, D, real):
    """fields the real constructor caches and a hand-built instance does not know about (taken from the real __init__ of a
    second, NumPy-backed load of compute.py run on a stub bank / window with this frame length and padding)"""
    import numpy
    from vlib import loader
    ns = loader.load_unit('compute', {'np': numpy}, name='compute_ctor_%d_%d' % (L, D))
    LFB, WF = ns['LinearFilterBank'], ns['WindowFunction']

    class StubBank(LFB):
        is_real = real
        is_analytic = False
        is_zero_phase = True
        num_filts = 1
        sampling_rate = 1000
        supports = ((-1, 1),)
        supports_hz = ((100.0, 300.0),)

        def get_impulse_response(s, i, w):
            raise AssertionError

        def get_frequency_response(s, i, w, half=False):
            raise AssertionError

        def get_truncated_response(s, i, w):
            return (0, numpy.ones(1, dtype=complex))

    class StubWin(WF):
        def get_impulse_response(s, width):
            return numpy.ones(width)
    c = ns['ShortTimeFourierTransformFrameComputer'](StubBank(), frame_length_ms=L, frame_shift_ms=1, frame_style='causal',
                                                    pad_to_nearest_power_of_two=(D != L), window_function=StubWin())
    if c._dft_size != D or c._frame_length != L:
        raise symex.Inconclusive('constructor gives frame length %s / DFT size %s for L=%d, D=%d' % (c._frame_length, c._dft_size, L, D))
    return dict(c.__dict__)


def run_walk(cfg):
    D, real = cfg['D'], cfg['real']
    L = cfg.get('L', D)
    half_len = D // 2 + 1

    class FFT:
        @staticmethod
        def rfft(xx, n=None):
            assert n == D
            return SArr(half_len, lambda i: i, 'c16')

    class NPx(sc.NP):
        complex128 = 'c16'
        fft = FFT

        @staticmethod
        def log(v):
            return v

    ns = sc.load_compute({'np': NPx, 'config': Cfg})
    extra_fields = _ctor_fields(L, D, real)
    viol, samples = [], []
    ob = dis = 0
    reached = False

    class Frame:
        def __mul__(s, w):
            return s

        def _slen(s):
            return L

    class Co:
        def __init__(s):
            s.vals = {}

        def __setitem__(s, k, v):
            s.vals[k] = v

        def _slen(s):
            return 1

    def body():
        c = Ctx.cur
        start, tl = z3.Int('start'), z3.Int('tl')
        if real:
            c.assume(start >= 0, tl >= 1, start + tl <= half_len)
        else:
            c.assume(start >= 0, start < D, tl >= 1, tl <= D)
        cls = ns['ShortTimeFourierTransformFrameComputer']
        o = cls.__new__(cls)
        o._frame_length = L
        o._dft_size = D
        o._log = False
        o._power = True
        o._real = real
        o._include_energy = False
        o._bank = sc._Bank(1)
        o._window = 1
        o._filt_start_idxs = [SInt(start)]
        o._truncated_filts = [SArr(SInt(tl), lambda j: j)]
        for k_, v_ in extra_fields.items():
            if k_ not in o.__dict__:
                o.__dict__[k_] = v_
        segs = []

        def nl(prod):
            segs.append(prod)
            return 0
        o._nonlin_op = nl
        try:
            o._compute_frame(Frame(), Co())
        except Exception as e:
            symex.guard(e)
            return ('exc', '%s: %s' % (type(e).__name__, e))
        return ('ok', start, tl, segs)

    for ctx, res in explore(body):
        if res is None:
            continue
        ob += 1
        base = dict(kind='walk', D=D, L=L, real=real)
        if res[0] == 'exc':
            m = ctx.model()
            viol.append(dict(base, what='exception', detail=res[1], start=m.eval(z3.Int('start'), True).as_long(),
                             tl=m.eval(z3.Int('tl'), True).as_long()))
            continue
        _, start, tl, segs = res
        reached = True
        s = ctx.solver
        tot = z3.Sum([_z(g.n) for g in segs]) if segs else z3.IntVal(0)
        t = z3.Int('t')
        bad = [tot != tl]
        pref = z3.IntVal(0)
        for g in segs:
            b, tap = g.get(t)
            k = (start + tap) % D
            mm = z3.If(k < half_len, k, D - k)
            bad.append(z3.And(t >= 0, t < _z(g.n), z3.Or(tap != pref + t, b != mm)))
            pref = pref + _z(g.n)
        s.push()
        s.add(z3.Or(bad))
        r = check_sat(s)
        if r == 'sat':
            m = s.model()
            viol.append(dict(base, what='pairing', start=m.eval(start, True).as_long(), tl=m.eval(tl, True).as_long(),
                             segments=len(segs)))
            s.pop()
        else:
            dis += 1
            s.pop()
            if len(samples) < 1:
                mm = ctx.model()
                samples.append({'config': cfg['name'], 'path_witness': {'start': mm.eval(start, True).as_long(), 'tl': mm.eval(tl, True).as_long()},
                                'segments': [str(z3.simplify(_z(g.n))) for g in segs]})
    for w in viol:
        w['class'] = 'walk/%s/%s/parity%d%d' % ('real' if real else 'complex', w['what'], half_len % 2, D % 2)
    return dict(obligations=ob, discharged=dis, violations=viol, samples=samples, twin=reached)


# ------------------------------------------------------------------ S1: frame count and coverage of compute_full

def run_cover(cfg):
    L, S, style, kaldi, NMAX = cfg['L'], cfg['S'], cfg['style'], cfg['kaldi'], cfg['NMAX']
    ns = sc.load_compute()
    pl = sc.pad_left(L, S, style, kaldi)
    viol, samples = [], []
    ob = dis = 0
    reached = False

    def body():
        c = Ctx.cur
        N = z3.Int('N')
        c.inputs = [N]
        c.assume(N >= 0, N <= NMAX)
        o, fr = sc.mk_stft(ns, L, S, style, kaldi, 'A')
        try:
            out = o.compute_full(sc.sig(z3.IntVal(0), SInt(N)))
        except Exception as e:
            symex.guard(e)
            return ('exc', '%s: %s' % (type(e).__name__, e))
        return ('ok', N, fr, out)

    for ctx, res in explore(body):
        if res is None:
            continue
        ob += 1
        base = dict(kind='cover', L=L, S=S, style=style, kaldi=kaldi)
        m = ctx.model()
        Nv = m.eval(z3.Int('N'), True).as_long()
        if res[0] == 'exc':
            viol.append(dict(base, what='exception', detail=res[1], N=Nv))
            continue
        _, N, fr, out = res
        s = ctx.solver
        want = z3.If(N >= L // 2 + 1, (N + S // 2) / S, 0)
        bad = [want != len(fr), _z(out.shape[0]) != len(fr), _z(out.shape[1]) != 1]
        if fr:
            reached = True
            # on this path N is determined or the frames were built after forking on N in np.pad
            Nc = SInt(N).__index__() if not z3.is_int_value(z3.simplify(N)) else z3.simplify(N).as_long()
            e = sc.ext_spec(Nc, pl)
            for k, f in enumerate(fr):
                for j in range(L):
                    bad.append(f[j] != e(z3.IntVal(k * S + j)))
        s.push()
        s.add(z3.Or(bad))
        r = check_sat(s)
        if r == 'sat':
            mm = s.model()
            viol.append(dict(base, what='coverage', N=mm.eval(z3.Int('N'), True).as_long(), frames=len(fr)))
        else:
            dis += 1
            if len(samples) < 1 and fr:
                samples.append({'config': cfg['name'], 'N': Nv, 'frames': len(fr), 'frame_last': [str(t) for t in fr[-1]]})
        s.pop()
    for w in viol:
        w['class'] = 'cover/%s/%s' % (cfg['name'], w['what'])
    return dict(obligations=ob, discharged=dis, violations=viol, samples=samples, twin=reached)


# ------------------------------------------------------------------ S3: energy / log / power dataflow, via the real constructor

R = z3.RealSort()
LOG = z3.Function('LOG', R, R)
INNER = z3.Real('inner_frame_frame')
SUMSQ = z3.Function('SUMSQ', z3.IntSort(), R)     # ||seg||_2 as a function of the segment id
SUMABS = z3.Function('SUMABS', z3.IntSort(), R)


class SegTok:
    """product half_spect[seg] * filt[seg]"""
    def __init__(s, sid):
        s.sid = sid


class _Lin:
    @staticmethod
    def norm(xx, ord=None):
        assert ord == 2 and isinstance(xx, SegTok)
        return ssqrt(SReal(SUMSQ(z3.IntVal(xx.sid))))


def run_flow(cfg):
    """real __init__ (stub bank/window subclasses of the real abstract classes) + real _compute_frame."""
    import math

    class FFT:
        @staticmethod
        def rfft(xx, n=None):
            return SpecTok()

    class SpecTok:
        dtype = 'c16'

        def _slen(s):
            return 5

        def __getitem__(s, k):
            return SpecSeg()

    class SpecSeg:
        def __mul__(s, o):
            SpecSeg.n += 1
            return SegTok(SpecSeg.n)
        n = 0

    class FrameTok:
        def __mul__(s, w):
            return s

        def _slen(s):
            return 8

    class NPx(sc.NP):
        complex128 = 'c16'
        fft = FFT
        linalg = _Lin

        @staticmethod
        def log(v):
            return SReal(LOG(rv(v)))

        @staticmethod
        def inner(a, b):
            assert isinstance(a, FrameTok) and a is b
            return SReal(INNER)

        @staticmethod
        def sum(v):
            return v

        @staticmethod
        def abs(v):
            assert isinstance(v, SegTok)
            return SReal(SUMABS(z3.IntVal(v.sid)))

        @staticmethod
        def ceil(v):
            return math.ceil(v)

        @staticmethod
        def log2(v):
            return math.log2(v)

        @staticmethod
        def empty(shape, dtype=None):
            return ('buf', shape)

    ns = sc.load_compute({'np': NPx, 'config': Cfg})
    LFB = ns['LinearFilterBank']
    WF = ns['WindowFunction']

    class StubBank(LFB):
        is_real = None
        is_analytic = False
        is_zero_phase = True
        num_filts = 2
        sampling_rate = 1000
        supports = ((-3, 3), (-2, 2))
        supports_hz = ((100.0, 300.0), (250.0, 450.0))

        def get_impulse_response(s, i, w):
            raise AssertionError

        def get_frequency_response(s, i, w, half=False):
            raise AssertionError

        def get_truncated_response(s, i, w):
            return (1, [7, 7])   # start bin 1, two taps (list: len() is builtin)

    class StubWin(WF):
        def get_impulse_response(s, width):
            return ('window', width)

    viol, samples = [], []
    ob = dis = 0

    class Co:
        def __init__(s, n):
            s.v = [None] * n
            s.off = 0

        def __getitem__(s, k):
            if isinstance(k, slice):
                c2 = Co(0)
                c2.v = s.v
                c2.off = s.off + (k.start or 0)
                return c2
            return s.v[s.off + k]

        def __setitem__(s, k, v):
            s.v[s.off + k] = v

        def _slen(s):
            return len(s.v) - s.off

    def body():
        c = Ctx.cur
        ul, up, ie, real = z3.Bool('use_log'), z3.Bool('use_power'), z3.Bool('include_energy'), z3.Bool('is_real')
        c.assume(INNER >= 0)
        SpecSeg.n = 0
        StubBank.is_real = SBool(real)
        bank = StubBank()
        comp = ns['ShortTimeFourierTransformFrameComputer'](
            bank, frame_length_ms=8, frame_shift_ms=3, frame_style='causal', include_energy=SBool(ie),
            pad_to_nearest_power_of_two=False, window_function=StubWin(), use_log=SBool(ul), use_power=SBool(up))
        assert comp.frame_length == 8 and comp.frame_shift == 3 and comp._dft_size == 8
        nco = comp.num_coeffs
        co = Co(nco)
        comp._compute_frame(FrameTok(), co)
        return (ul, up, ie, real, nco, co.v)

    for ctx, res in explore(body):
        if res is None:
            continue
        ob += 1
        ul, up, ie, real, nco, vals = res
        s = ctx.solver
        fl = rv(Cfg.LOG_FLOOR_VALUE)

        def fin(v):   # log floor iff use_log
            return z3.If(ul, LOG(z3.If(v >= fl, v, fl)), v)
        bad = [nco != z3.If(ie, 3, 2)]
        e = INNER / 8
        e = z3.If(up, e, symex.SQRT(e))
        want = []
        m = ctx.model()
        has_e = z3.is_true(m.eval(ie, True))
        if has_e:
            want.append(fin(e))
        for f in range(2):
            sid = f + 1
            v = z3.If(up, SUMSQ(z3.IntVal(sid)), SUMABS(z3.IntVal(sid)))
            v = z3.If(real, 2 * v, v)
            want.append(fin(v))
        if len(vals) != len(want) or any(v is None for v in vals):
            bad.append(z3.BoolVal(True))
        else:
            for a, b in zip(vals, want):
                bad.append(rv(a) != b)
        # SQRT axioms for the terms in play (norm**2 == sum of squares)
        for sid in (1, 2):
            q = SUMSQ(z3.IntVal(sid))
            s.add(q >= 0, symex.SQRT(q) * symex.SQRT(q) == q, symex.SQRT(q) >= 0)
        s.push()
        s.add(z3.Or(bad))
        r = check_sat(s)
        flags = {k: z3.is_true(m.eval(v, True)) for k, v in (('use_log', ul), ('use_power', up), ('include_energy', ie), ('is_real', real))}
        if r == 'sat':
            viol.append(dict(kind='flow', what='dataflow', **flags, **{'class': 'flow/dataflow'}))
        else:
            dis += 1
            if len(samples) < 1:
                samples.append({'config': 'flow', 'flags': flags, 'coeffs': [str(z3.simplify(rv(v))) for v in vals]})
        s.pop()
    return dict(obligations=ob, discharged=dis, violations=viol, samples=samples, twin=ob > 0)


# ------------------------------------------------------------------ S4: default frame length

def run_deflen(cfg):
    """default frame length (frame_length_ms=None) >= ceil(2*rate/narrowest band): real __init__ run up to the
    window request with symbolic supports; obligation L * minbw >= 2 * rate and L >= longest temporal support."""
    import math

    class Stop(Exception):
        pass

    class NPx(sc.NP):
        @staticmethod
        def ceil(v):
            return symex.sceil(v) if symex.is_sym(v) else math.ceil(v)

        @staticmethod
        def empty(shape, dtype=None):
            return ('buf', shape)
    ns = sc.load_compute({'np': NPx, 'config': Cfg, 'int': symex.sint})
    LFB = ns['LinearFilterBank']
    WF = ns['WindowFunction']
    got = {}

    class StubWin(WF):
        def get_impulse_response(s, width):
            got['L'] = width
            raise Stop()

    viol = []
    ob = dis = 0
    for rate in (8000, 16000, 11025):
        def body():
            c = Ctx.cur
            lo = [z3.Real('lo%d' % i) for i in range(2)]
            bw = [z3.Real('bw%d' % i) for i in range(2)]
            sl = [z3.Int('sl%d' % i) for i in range(2)]
            sr = [z3.Int('sr%d' % i) for i in range(2)]
            for i in range(2):
                c.assume(bw[i] >= 1, bw[i] <= rate, lo[i] >= -rate, lo[i] <= rate, sl[i] <= 0, sr[i] >= 1, sr[i] - sl[i] <= 100000)

            class StubBank(LFB):
                is_real = False
                is_analytic = False
                is_zero_phase = True
                num_filts = 2
                sampling_rate = rate
                supports = tuple((SInt(sl[i]), SInt(sr[i])) for i in range(2))
                supports_hz = tuple((SReal(lo[i]), SReal(lo[i] + bw[i])) for i in range(2))

                def get_impulse_response(s, i, w):
                    raise AssertionError

                def get_frequency_response(s, i, w, half=False):
                    raise AssertionError

                def get_truncated_response(s, i, w):
                    raise AssertionError
            try:
                ns['ShortTimeFourierTransformFrameComputer'](StubBank(), window_function=StubWin())
            except Stop:
                pass
            return bw, sl, sr, got['L']
        for ctx, res in explore(body):
            if res is None:
                continue
            ob += 1
            bw, sl, sr, Lr = res
            Lz = _z(Lr)
            s = ctx.solver
            bad = []
            for i in range(2):
                bad.append(z3.ToReal(Lz) * bw[i] < 2 * rate)
                bad.append(Lz < sr[i] - sl[i])
            s.push()
            s.add(z3.Or(bad))
            r = check_sat(s)
            if r == 'sat':
                viol.append(dict(kind='deflen', what='default frame length', rate=rate, model=str(s.model())[:300],
                                 **{'class': 'deflen'}))
            else:
                dis += 1
            s.pop()
    return dict(obligations=ob, discharged=dis, violations=viol, samples=[{'config': 'deflen', 'rates': [8000, 16000, 11025]}], twin=ob > 0)


def run_ctor(cfg):
    """the frame bounds obligations ('cover') start from the fields _frame_style / _kaldi_shift; this closes the gap to the
    constructor ARGUMENTS: real __init__ (run up to the window request) with symbolic bank.is_zero_phase and kaldi_shift,
    every frame_style argument; the fields must be the documented resolution (None -> centered iff zero phase)."""
    import math

    class Stop(Exception):
        pass

    class NPx(sc.NP):
        @staticmethod
        def ceil(v):
            return symex.sceil(v) if symex.is_sym(v) else math.ceil(v)

        @staticmethod
        def empty(shape, dtype=None):
            return ('buf', shape)
    ns = sc.load_compute({'np': NPx, 'config': Cfg, 'int': symex.sint})
    LFB = ns['LinearFilterBank']
    WF = ns['WindowFunction']
    cls = ns['ShortTimeFourierTransformFrameComputer']

    class StubWin(WF):
        def get_impulse_response(s, width):
            raise Stop()

    viol = []
    ob = dis = 0
    for style_arg in (None, 'centered', 'causal'):
        def body():
            zp = z3.Bool('is_zero_phase')
            ks = z3.Bool('kaldi_shift')

            class StubBank(LFB):
                is_real = False
                is_analytic = False
                is_zero_phase = symex.SBool(zp)
                num_filts = 2
                sampling_rate = 1000
                supports = ((0, 4), (0, 5))
                supports_hz = ((10, 100), (50, 200))

                def get_impulse_response(s, i, w):
                    raise AssertionError

                def get_frequency_response(s, i, w, half=False):
                    raise AssertionError

                def get_truncated_response(s, i, w):
                    raise AssertionError
            o = cls.__new__(cls)
            try:
                cls.__init__(o, StubBank(), frame_length_ms=8, frame_shift_ms=3, frame_style=style_arg, window_function=StubWin(), kaldi_shift=symex.SBool(ks))
            except Stop:
                pass
            return zp, ks, o.__dict__.get('_frame_style'), o.__dict__.get('_kaldi_shift')
        for ctx, res in explore(body):
            if res is None:
                continue
            ob += 1
            zp, ks, fs, fk = res
            s = ctx.solver
            bad = []
            for eff, cond in (('centered', z3.BoolVal(style_arg == 'centered') if style_arg is not None else zp),
                              ('causal', z3.BoolVal(style_arg == 'causal') if style_arg is not None else z3.Not(zp))):
                bad.append(z3.And(cond, z3.BoolVal(not (isinstance(fs, str) and fs == eff))))
            fkz = fk.z if isinstance(fk, symex.SBool) else z3.BoolVal(bool(fk))
            eff_centered = z3.BoolVal(style_arg == 'centered') if style_arg is not None else zp
            bad.append(z3.And(eff_centered, fkz != ks))        # for causal frames the flag is documented to be irrelevant
            s.push()
            s.add(z3.Or(bad))
            r = check_sat(s)
            if r == 'sat':
                m = s.model()
                viol.append(dict(kind='ctor', what='constructor resolution of frame_style / kaldi_shift', style_arg=style_arg,
                                 zero_phase=z3.is_true(m.eval(zp, True)), kaldi=z3.is_true(m.eval(ks, True)),
                                 fields='_frame_style=%r _kaldi_shift=%s' % (fs, fk if not isinstance(fk, symex.SBool) else z3.simplify(fk.z)),
                                 **{'class': 'ctor/%s' % style_arg}))
            elif r == 'unsat':
                dis += 1
            else:
                raise symex.Inconclusive('solver: %s' % r)
            s.pop()
    return dict(obligations=ob, discharged=dis, violations=viol, samples=[{'config': 'ctor', 'frame_style arguments': [None, 'centered', 'causal']}], twin=ob > 0)


def run_config(cfg):
    return {'walk': run_walk, 'cover': run_cover, 'flow': run_flow, 'deflen': run_deflen, 'ctor': run_ctor}[cfg['kind']](cfg)


# ------------------------------------------------------------------ replay

def _synthetic_bank(D, start, taps, real, rate=1000):
    import numpy as np
    from pydrobert.speech.filters import LinearFilterBank

    class Bank(LinearFilterBank):
        is_real = real
        is_analytic = not real
        is_zero_phase = True
        num_filts = 1
        sampling_rate = rate
        supports = ((-2, 2),)
        supports_hz = ((0.0, rate / 2.0),)

        def get_impulse_response(self, i, w):
            raise NotImplementedError

        def get_frequency_response(self, i, w, half=False):
            raise NotImplementedError

        def get_truncated_response(self, i, w):
            assert w == D
            return start, np.asarray(taps, dtype=np.float64)
    return Bank()


def brute_force(frame, window, D, start, taps, real, power):
    """sum over the FULL D-point spectrum of |DFT(window*frame) * H|^p, H rebuilt by the documented recipe"""
    import numpy as np
    X = np.fft.fft(frame * window, n=D)
    H = np.zeros(D, dtype=np.complex128)
    taps = np.asarray(taps, dtype=np.complex128)
    if real:
        H[start:start + len(taps)] = taps
        for j, t in enumerate(taps):
            k = start + j
            if k != 0 and (D - k) != k:
                H[D - k] = np.conj(t)
    else:
        for j, t in enumerate(taps):
            H[(start + j) % D] = t
    v = np.abs(X * H)
    return float((v ** 2).sum() if power else v.sum())


def replay(w):
    import numpy as np
    from pydrobert.speech.compute import STFTFrameComputer
    k = w['kind']
    if k == 'walk':
        D, real, start, tl = w['D'], w['real'], w['start'], w['tl']
        L = w.get('L', D)
        rng = np.random.RandomState(5)
        taps = rng.rand(tl) + 0.5
        if real:
            # property precondition for real banks: zero taps at the self-conjugate bins
            for j in range(tl):
                if start + j == 0 or 2 * (start + j) == D:
                    taps[j] = 0.0
        bank = _synthetic_bank(D, start, taps, real)
        worst = 0.0
        try:
            c = STFTFrameComputer(bank, frame_length_ms=L + 0.5, frame_shift_ms=1.5, frame_style='causal',
                                  pad_to_nearest_power_of_two=(L != D), window_function='hamming', use_log=False, use_power=True)
            if c._dft_size != D or c.frame_length != L:
                return {'reproduced': False, 'detail': 'dft size %d != %d' % (c._dft_size, D)}
            xs = rng.randn(L)
            got = c.compute_full(xs)
            want = brute_force(xs, c._window, D, start, taps, real, True)
        except Exception as e:
            return {'reproduced': True, 'detail': 'real computer raised %s: %s (D=%d start=%d len=%d)' % (type(e).__name__, e, D, start, tl)}
        worst = abs(got[0, 0] - want) / max(1e-12, abs(want))
        return {'reproduced': worst > 1e-9, 'detail': 'D=%d (frame length %d) %s start=%d len=%d: coefficient %.6g vs full-spectrum definition %.6g (rel diff %.3g)'
                % (D, L, 'real' if real else 'complex', start, tl, got[0, 0], want, worst)}
    if k == 'cover':
        L, S, style, kaldi, N = w['L'], w['S'], w['style'], w['kaldi'], w['N']
        xs = np.arange(1, N + 1, dtype=np.float64)
        c = sc.real_stft(L, S, style, kaldi)
        got = []
        c._compute_frame = lambda frame, coeffs: got.append(np.array(frame))
        try:
            c.compute_full(xs)
        except Exception as e:
            return {'reproduced': True, 'detail': 'compute_full raised %s: %s' % (type(e).__name__, e)}
        pl = sc.pad_left(L, S, style, kaldi)
        nf = (N + S // 2) // S if N >= L // 2 + 1 else 0
        if len(got) != nf:
            return {'reproduced': True, 'detail': 'frame count %d != documented %d (L=%d S=%d N=%d)' % (len(got), nf, L, S, N)}
        for kf, fr in enumerate(got):
            for j in range(L):
                p = kf * S + j - pl
                q = p % (2 * N)
                q = 2 * N - 1 - q if q >= N else q
                if fr[j] != xs[q]:
                    return {'reproduced': True, 'detail': 'frame %d sample %d is x[%d], documented x[%d]' % (kf, j, int(fr[j]) - 1, q)}
        return {'reproduced': False, 'detail': 'real compute_full matches'}
    if k == 'flow':
        flags = {f: w[f] for f in ('use_log', 'use_power', 'include_energy', 'is_real')}
        rng = np.random.RandomState(3)
        D = 8
        start, taps = 1, np.array([0.7, 0.4])
        bank = _synthetic_bank(D, start, taps, flags['is_real'])
        c = STFTFrameComputer(bank, frame_length_ms=D + 0.5, frame_shift_ms=3.5, frame_style='causal', include_energy=flags['include_energy'],
                              pad_to_nearest_power_of_two=False, window_function='hamming', use_log=flags['use_log'], use_power=flags['use_power'])
        base = rng.randn(D)
        worst = (0.0, None)
        for scale in (1.0, 1e-2, 1e-3, 1e-4, 0.0):     # loud, faint (around the log floor) and silent frames
            xs = base * scale
            got = c.compute_full(xs)[0]
            want = []
            if flags['include_energy']:
                e = float(np.inner(xs, xs) / D)
                e = e if flags['use_power'] else e ** 0.5
                want.append(np.log(max(e, 1e-5)) if flags['use_log'] else e)
            v = brute_force(xs, c._window, D, start, taps, flags['is_real'], flags['use_power'])
            want.append(np.log(max(v, 1e-5)) if flags['use_log'] else v)
            d = float(np.abs(np.array(want) - got).max()) if len(want) == len(got) else float('inf')
            if d > worst[0]:
                worst = (d, 'scale %g flags %s: got %s want %s' % (scale, flags, got, want))
        return {'reproduced': worst[0] > 1e-9, 'detail': worst[1] or 'matches at all signal levels'}
    if k == 'ctor':
        from pydrobert.speech.filters import TriangularOverlappingFilterBank, ComplexGammatoneFilterBank
        zp, ks, style_arg = w['zero_phase'], w['kaldi'], w['style_arg']
        bank = (TriangularOverlappingFilterBank if zp else ComplexGammatoneFilterBank)('mel', num_filts=3, sampling_rate=1000, low_hz=20)
        if bool(bank.is_zero_phase) != zp:
            return {'reproduced': False, 'detail': 'no real bank with is_zero_phase=%s at hand' % zp}
        eff = style_arg or ('centered' if zp else 'causal')
        for L, S in ((8, 3), (6, 2), (7, 4)):
            for N in (L // 2 + 1, L, 2 * L + 1):
                c = STFTFrameComputer(bank, frame_length_ms=L, frame_shift_ms=S, frame_style=style_arg, kaldi_shift=ks, pad_to_nearest_power_of_two=False, window_function='hamming')
                xs = np.arange(1, N + 1, dtype=np.float64)
                got = []
                c._compute_frame = lambda frame, coeffs: got.append(np.array(frame))
                try:
                    c.compute_full(xs)
                except Exception as e:
                    return {'reproduced': True, 'detail': 'compute_full raised %s: %s' % (type(e).__name__, e)}
                pl = sc.pad_left(L, S, eff, ks)
                nf = (N + S // 2) // S
                if len(got) != nf:
                    return {'reproduced': True, 'detail': 'frame_style=%r on a %szero-phase bank, kaldi_shift=%s: frame count %d != documented %d (L=%d S=%d N=%d)' % (style_arg, '' if zp else 'non-', ks, len(got), nf, L, S, N)}
                for kf, fr in enumerate(got):
                    for j in range(L):
                        p = kf * S + j - pl
                        q = p % (2 * N)
                        q = 2 * N - 1 - q if q >= N else q
                        if fr[j] != xs[q]:
                            return {'reproduced': True, 'detail': 'frame_style=%r on a %szero-phase bank, kaldi_shift=%s (L=%d S=%d N=%d): frame %d sample %d is x[%d], documented (%s frames) x[%d]'
                                    % (style_arg, '' if zp else 'non-', ks, L, S, N, kf, j, int(fr[j]) - 1, eff, q)}
        return {'reproduced': False, 'detail': 'real constructor + compute_full give the documented frames'}
    return {'reproduced': False, 'detail': 'no concrete replay for %s' % k}


def _symbolic_pairs(D, real, start_v, tl_v):
    """run the symbolic walk harness with start/tl fixed; return the list of (bin, tap) pairs it records"""
    half_len = D // 2 + 1
    L = D

    class FFT:
        @staticmethod
        def rfft(xx, n=None):
            return SArr(half_len, lambda i: i, 'c16')

    class NPx(sc.NP):
        complex128 = 'c16'
        fft = FFT
    ns = sc.load_compute({'np': NPx, 'config': Cfg})

    class Frame:
        def __mul__(s, w):
            return s

        def _slen(s):
            return L

    class Co:
        def __setitem__(s, k, v):
            pass

        def _slen(s):
            return 1
    out = []

    def body():
        cls = ns['ShortTimeFourierTransformFrameComputer']
        o = cls.__new__(cls)
        o._frame_length = L
        o._dft_size = D
        o._log = False
        o._power = True
        o._real = real
        o._include_energy = False
        o._bank = sc._Bank(1)
        o._window = 1
        o._filt_start_idxs = [start_v]
        o._truncated_filts = [SArr(tl_v, lambda j: j)]
        pairs = []

        def nl(prod):
            n = prod.n if isinstance(prod.n, int) else SInt(_z(prod.n)).__index__()
            for t in range(n):
                b, tap = prod.get(z3.IntVal(t))
                pairs.append((z3.simplify(b).as_long(), z3.simplify(tap).as_long()))
            return 0
        o._nonlin_op = nl
        o._compute_frame(Frame(), Co())
        return pairs
    for ctx, res in explore(body):
        out.append(res)
    assert len(out) == 1
    return out[0]


def _real_pairs(D, real, start, tl):
    """the (bin, tap) pairs the REAL _compute_frame multiplies, observed through marker values"""
    import numpy as np
    from pydrobert.speech.compute import STFTFrameComputer
    taps = np.arange(1, tl + 1, dtype=np.float64) * 1000.0     # tap j <-> 1000*(j+1)
    bank = _synthetic_bank(D, start, taps, real)
    c = STFTFrameComputer(bank, frame_length_ms=D + 0.5, frame_shift_ms=1.5, frame_style='causal', pad_to_nearest_power_of_two=False,
                          window_function='hamming', use_log=False, use_power=False)
    pairs = []

    def nl(prod):
        for v in np.abs(prod):
            pairs.append(int(round(float(v))))   # (bin+1) * 1000*(tap+1)
        return 0.0
    c._nonlin_op = nl
    import pydrobert.speech.compute as C
    orig = np.fft.rfft
    marker = (np.arange(D // 2 + 1) + 1).astype(np.complex128)
    try:
        np.fft.rfft = lambda xx, n=None: marker.copy()
        c._compute_frame(np.ones(D), np.zeros(1))
    finally:
        np.fft.rfft = orig
    return pairs


def conformance(tier, seed, results):
    """validate the pairing ENCODING (not the property): for concrete (D, start, len) the products the real
    _compute_frame forms -- observed through marker spectra (bin m -> m+1) and marker taps (tap j -> 1000(j+1)) --
    must be exactly the (bin, tap) pairs the symbolic harness records."""
    import numpy as np
    rng = np.random.RandomState(seed)
    n = 0
    for D in (5, 6, 7, 8, 9, 16):
        for real in (False, True):
            for _ in range(3):
                if real:
                    start = int(rng.randint(0, D // 2 + 1))
                    tl = int(rng.randint(1, D // 2 + 2 - start))
                else:
                    start = int(rng.randint(0, D))
                    tl = int(rng.randint(1, D + 1))
                sym = _symbolic_pairs(D, real, start, tl)
                realp = _real_pairs(D, real, start, tl)
                want = [(b + 1) * 1000 * (t + 1) for b, t in sym]
                assert realp == want, ('encoding of the segment walk differs from the real routine', D, real, start, tl, realp, want)
                n += 1
    return n
