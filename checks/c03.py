"""C03 -- short-integration coefficients equal their documented definition (DESIGN 3/C03)."""
import itertools
import math

import z3

from vlib import loader, symex
from vlib.nd import ND, zi
from vlib.symex import Ctx, SInt, _z, conc, decide, explore, check_sat, smax, smin, srange, scount, Inconclusive
from checks import si_common as si

PID = 'C03'
LEVEL = 'model_checking'
FUNCTIONS = ['compute:ShortIntegrationFrameComputer.__init__', 'compute:ShortIntegrationFrameComputer.compute_chunk',
             'compute:ShortIntegrationFrameComputer.finalize', 'compute:ShortIntegrationFrameComputer.compute_full',
             'compute:ShortIntegrationFrameComputer._compute_preamble', 'compute:ShortIntegrationFrameComputer._handle_skip',
             'compute:ShortIntegrationFrameComputer._fill_y_buf', 'compute:ShortIntegrationFrameComputer._compute_frame',
             'compute:ShortIntegrationFrameComputer._compute_dft', 'compute:ShortIntegrationFrameComputer._compute_idft']
EXPLANATION = (
    'compute_full of the real short-integration computer is executed symbolically (signal x: Int->Real, symbolic length N; the '
    'rfft -> multiply -> irfft chain abstracted by its exact meaning, an uninterpreted circular FIR F_i of length max_support; '
    '|.|, squaring and log-floor uninterpreted) and every coefficient is compared by z3 (EUF+LRA) with a specification built '
    'from the property text: (N + S//2)//S frames; coefficient i of frame k = sum over the 2S samples starting at (causal) / '
    'centred on (centered) k*S of w(j) * G(F_i(x~[q], x~[q-1], ...)), x~ zero outside [0, N). float32 input: no assertion or '
    'exception on any path and the result has the input dtype (dtype lattice carried through rfft: float32 -> complex64 under '
    'NumPy >= 2). Filter preparation: the real __init__ runs on a stub bank; the taps handed to the DFT are decided, index by '
    'index, to be the bank\'s impulse response rolled by the documented offset and clamped to max_support, the energy filter the '
    'unit impulse at the same offset, and frame_length / dft_size / accumulator geometry follow the documented formulas.')
BOUNDS = {'quick': 'S=2, M in {3,4}, D in {6,8} (incl. non-power-of-two), both styles, power and magnitude, log on/off, 1-2 coefficients, N <= 12; float32 and float64; constructor: 4 stub banks (incl. supports with negative odd sum) x 2 styles x energy on/off',
          'thorough': 'additionally S=3, D=9, N <= 16'}
OUTSIDE = ['FFT numerics (the chain is replaced by the circular FIR it computes; that identity is validated on real computers in the C01 conformance step)',
           'floating point', 'USE_FFTPACK=True branch (scipy is not installed in this environment: dead code here)', 'window values (C20)']
ASSUMPTIONS = ['irfft(rfft(b) * rfft(h))[n] = sum_m h[m] b[(n-m) mod D] (circular convolution theorem)', 'np.roll(a, s)[m] = a[(m - s) mod D]',
               'NumPy >= 2: rfft of a float32 array is complex64']
CONFIG_TIME_LIMIT = {'quick': 900, 'thorough': 3400}


def configs(tier, seed):
    cfgs = []
    NMAX = 12 if tier == 'quick' else 16
    for (S, M, D, style, tr) in si.si_grid(tier):
        for power, log, ncoef in ((True, False, 1), (False, True, 2)):
            cfgs.append(dict(kind='define', name='define S%d M%d D%d %s %s%s nc%d' % (S, M, D, style, 'pow' if power else 'mag', '+log' if log else '', ncoef),
                             S=S, M=M, D=D, style=style, trans=tr, power=power, log=log, ncoef=ncoef, NMAX=NMAX, dtype='f8'))
        cfgs.append(dict(kind='define', name='define S%d M%d D%d %s float32' % (S, M, D, style), S=S, M=M, D=D, style=style, trans=tr, power=True, log=False,
                         ncoef=1, NMAX=NMAX, dtype='f4'))
    for style in ('causal', 'centered'):
        for energy in (False, True):
            for bank in range(len(BANKS)):
                cfgs.append(dict(kind='ctor', name='ctor %s energy=%s bank%d' % (style, energy, bank), style=style, energy=energy, bank=bank))
    return cfgs


def run_define(cfg):
    S, M, D, style, NMAX = cfg['S'], cfg['M'], cfg['D'], cfg['style'], cfg['NMAX']
    power, log, ncoef, dtype = cfg['power'], cfg['log'], cfg['ncoef'], cfg['dtype']
    symex.NONLINEAR_UF = True
    NP = si.make_np(S, M, D, ncoef)
    ns = si.load(NP)
    F = z3.Function('F', si.I, *([si.R] * M), si.R)
    viol, samples = [], []
    ob = dis = 0
    reached = False

    def body():
        c = Ctx.cur
        N = z3.Int('N')
        c.inputs = [N]
        c.assume(N >= 0, N <= NMAX)
        o = si.mk(ns, S, M, D, style, ncoef, power, log, trans=cfg.get('trans'))
        try:
            out = o.compute_full(si.sig(z3.IntVal(0), conc(SInt(N)), dtype))
        except Exception as e:
            symex.guard(e)
            return ('exception', '%s: %s' % (type(e).__name__, e))
        return ('ok', N, si._rows(out, ncoef), out.dtype, o)

    for ctx, res in explore(body):
        if res is None:
            continue
        ob += 1
        base = dict(kind='define', S=S, M=M, D=D, style=style, power=power, log=log, ncoef=ncoef, dtype=dtype)
        m = ctx.model()
        Nv = m.eval(z3.Int('N'), True).as_long()
        if res[0] == 'exception':
            viol.append(dict(base, what='exception', detail=res[1], N=Nv))
            continue
        _, N, rows, odt, o = res
        if odt != dtype:
            viol.append(dict(base, what='result dtype %s for input %s' % (odt, dtype), N=Nv))
            continue
        nf = (Nv + S // 2) // S
        s = ctx.solver
        if len(rows) != nf:
            # frame count is a function of N only; decide that N is pinned on this path, else ask the solver
            s.push()
            s.add(z3.IntVal(len(rows)) != (N + S // 2) / S)
            r = check_sat(s)
            s.pop()
            if r == 'sat':
                viol.append(dict(base, what='frame count %d, documented (N+S//2)//S' % len(rows), N=Nv))
                continue
        reached = reached or bool(rows)
        trans = o._translation
        start0 = trans if style == 'causal' else trans - S

        def xbar(q):
            return z3.If(z3.And(q >= 0, q < N), si.x(q), z3.RealVal(0))
        bad = []
        for k, row in enumerate(rows):
            for i in range(ncoef):
                acc = z3.RealVal(0)
                for j in range(2 * S):
                    q = z3.IntVal(k * S + j + start0)
                    y = F(z3.IntVal(i), *[xbar(q - mm) for mm in range(M)])
                    g = si.SQ(y) if power else si.ABS(y)
                    acc = acc + symex.umul(si.W(z3.IntVal(j // S), z3.IntVal(j % S)), g)
                want = si.LOGF(acc) if log else acc
                bad.append(row[i] != want)
        if bad:
            s.push()
            s.add((N + S // 2) / S == len(rows))
            s.add(z3.Or(bad))
            r = check_sat(s)
            s.pop()
            if r == 'sat':
                viol.append(dict(base, what='coefficient differs from the documented windowed sum', N=Nv))
                continue
        dis += 1
        if len(samples) < 1 and rows:
            samples.append({'config': cfg['name'], 'N': Nv, 'frames': len(rows), 'coeff[0][0]': str(rows[0][0])[:400]})
    for w in viol:
        w['class'] = 'define/%s/%s/%s' % (w['what'].split()[0], dtype, style)
    return dict(obligations=ob, discharged=dis, violations=viol, samples=samples, twin=reached)


# ------------------------------------------------------------------ filter preparation (real __init__ on a stub bank)

H = z3.Function('h', si.I, si.I, si.R)     # impulse response of filter i at buffer index t
WIN = z3.Function('win', si.I, si.R)

BANKS = [
    dict(supports=((-3, 3), (-1, 2)), supports_hz=((100.0, 300.0), (250.0, 450.0)), zero_phase=True, real=False),
    dict(supports=((0, 5), (0, 3)), supports_hz=((50.0, 200.0), (150.0, 480.0)), zero_phase=False, real=False),
    dict(supports=((-2, 2), (-4, 5), (-1, 1)), supports_hz=((100.0, 200.0), (150.0, 250.0), (300.0, 400.0)), zero_phase=True, real=True),
    # supports (-(K+1), K) as the triangular / Fbank banks report them for odd K: left + right negative and odd
    dict(supports=((-4, 3), (-6, 3), (-2, 1)), supports_hz=((100.0, 200.0), (150.0, 250.0), (300.0, 400.0)), zero_phase=True, real=True),
]


def run_ctor(cfg):
    style, energy, b = cfg['style'], cfg['energy'], BANKS[cfg['bank']]
    taps = []

    class FFT:
        @staticmethod
        def rfft(buf, n=None):
            taps.append(('rfft', buf))
            return si.Tok('filt', dtype='c16')
        fft = None

    def fft(buf, n=None):
        taps.append(('fft', buf))
        return si.Tok('filt', dtype='c16')
    FFT.fft = staticmethod(fft)

    class _NPMeta(type):
        def __getattr__(cls, n):          # anything else (np.mean of a support pair, ...) is real NumPy on concrete values
            import numpy
            return getattr(numpy, n)

    class NP(metaclass=_NPMeta):
        float64 = 'f8'
        complex128 = 'c16'
        fft = FFT

        @staticmethod
        def empty(shape, dtype=None):
            if not isinstance(shape, tuple):
                shape = (shape,)
            return ND.fresh(shape, lambda idx: z3.RealVal(0), dtype)

        @staticmethod
        def zeros(shape, dtype=None):
            if not isinstance(shape, tuple):
                shape = (shape,)
            return ND.fresh(shape, lambda idx: z3.RealVal(0), dtype)

        @staticmethod
        def ceil(v):
            return math.ceil(v)

        @staticmethod
        def log2(v):
            return math.log2(v)

        @staticmethod
        def roll(a, s):
            n = a.shape[0]
            g = a.snapshot()
            return ND.fresh(a.shape, lambda idx: g(((idx[0] - s) % n,)), a.dtype)
    ns = loader.load_unit('compute', dict(np=NP, config=si.Cfg, len=si.slen), name='compute_under_test')
    LFB, WF = ns['LinearFilterBank'], ns['WindowFunction']

    class Bank(LFB):
        is_real = b['real']
        is_analytic = False
        is_zero_phase = b['zero_phase']
        num_filts = len(b['supports'])
        sampling_rate = 1000
        supports = b['supports']
        supports_hz = b['supports_hz']

        def get_impulse_response(s, i, width):
            return ND.fresh((width,), lambda idx: H(z3.IntVal(i), idx[0]), 'f8' if b['real'] else 'c16')

        def get_frequency_response(s, i, w, half=False):
            raise AssertionError

        def get_truncated_response(s, i, w):
            raise AssertionError

    class Win(WF):
        def get_impulse_response(s, width):
            return ND.fresh((width,), lambda idx: WIN(idx[0]), 'f8')
    viol = []
    ob = dis = 0
    S = 3

    def body():
        del taps[:]
        try:
            comp = ns['ShortIntegrationFrameComputer'](Bank(), frame_shift_ms=S, frame_style=style, include_energy=energy,
                                                       pad_to_nearest_power_of_two=False, window_function=Win())
        except Exception as e:
            symex.guard(e)
            return ('exception', '%s: %s' % (type(e).__name__, e))
        return ('ok', comp, list(taps))

    for ctx, res in explore(body):
        if res is None:
            continue
        ob += 1
        if res[0] == 'exception':
            viol.append(dict(kind='ctor', what='constructor raised ' + res[1], **{'class': 'ctor/exception'}))
            continue
        _, comp, tp = res
        sup = b['supports']
        if style == 'centered':
            M = max(r - l for l, r in sup)
            trans = M // 2
        else:
            trans = max(max(-l for l, r in sup), 0)
            M = max(r for l, r in sup) + trans
        L = M + S - 1
        minbw = min(r - l for l, r in b['supports_hz'])
        D = max(L, int(math.ceil(2 * 1000 / minbw)))
        yb = -(-(D - M + 2 * S) // S)
        bad = []
        geom = (comp._max_support, comp._translation, comp._frame_length, comp._dft_size, comp._y_buf.shape, comp._x_buf.shape[0], comp._frame_shift)
        if geom != (M, trans, L, D, (yb, 2, len(sup) + int(energy)), D, S):
            viol.append(dict(kind='ctor', what='geometry %s, documented %s' % (geom, (M, trans, L, D, (yb, 2, len(sup) + int(energy)), D, S)), **{'class': 'ctor/geometry'}))
            continue
        if len(tp) != len(sup) + int(energy) or any(t[0] != ('rfft' if b['real'] else 'fft') for t in tp):
            viol.append(dict(kind='ctor', what='filters transformed: %s' % [t[0] for t in tp], **{'class': 'ctor/filters'}))
            continue
        s = ctx.solver
        mm = z3.Int('m')
        s.add(mm >= 0, mm < D)
        k0 = 0
        if energy:
            # unit impulse at the translation (full DFT length)
            e = tp[0][1]
            bad.append(zi(e.shape[0]) != D)
            bad.append(e.get(mm) != z3.If(mm == trans, z3.RealVal(1), z3.RealVal(0)))
            k0 = 1
        for i, (l, r) in enumerate(sup):
            arr = tp[k0 + i][1]
            shift = trans - (l + r) // 2 + 1 if style == 'centered' else trans
            bad.append(zi(arr.shape[0]) != M)           # clamped to the longest filter's support
            bad.append(z3.And(mm < M, arr.get(mm) != H(z3.IntVal(i), (mm - shift) % D)))
        # window: 2 x S
        w = comp._window
        bad.append(z3.BoolVal(tuple(w.shape) != (2, S)))
        rr, jj = z3.Int('r'), z3.Int('j')
        s.add(rr >= 0, rr < 2, jj >= 0, jj < S)
        if tuple(w.shape) == (2, S):
            bad.append(w.get(rr, jj) != WIN(rr * S + jj))
        s.push()
        s.add(z3.Or(bad))
        r = check_sat(s)
        if r == 'sat':
            viol.append(dict(kind='ctor', what='prepared filter taps / window differ from the documented roll-and-clamp', **{'class': 'ctor/taps'}))
        else:
            dis += 1
        s.pop()
    for w in viol:
        w.update(style=style, energy=energy, bank=cfg['bank'])
    return dict(obligations=ob, discharged=dis, violations=viol, samples=[{'config': cfg['name'], 'supports': [list(x) for x in b['supports']]}], twin=dis > 0)


def run_config(cfg):
    return run_define(cfg) if cfg['kind'] == 'define' else run_ctor(cfg)


# ------------------------------------------------------------------ replay: real computers vs np.convolve definition

def _definition(c, xs):
    """independent evaluation of the documented definition with np.convolve on a real computer's parameters"""
    import numpy as np
    S, D, M, trans = c._frame_shift, c._dft_size, c._max_support, c._translation
    N = len(xs)
    nf = (N + S // 2) // S
    start0 = trans if c._frame_style == 'causal' else trans - S
    out = np.zeros((nf, c.num_coeffs))
    for i, filt in enumerate(c._filts):
        h = (np.fft.irfft(filt, n=D) if c._real else np.fft.ifft(filt))[:M]
        y = np.convolve(xs.astype(np.float64), h) if len(xs) else np.zeros(0)    # y[n] = sum_m h[m] x[n-m], zero outside
        g = np.abs(y) ** 2 if c._power else np.abs(y)
        for k in range(nf):
            acc = 0.0
            for j in range(2 * S):
                q = k * S + j + start0
                if 0 <= q < len(g):
                    acc += c._window[j // S, j % S] * g[q]
            out[k, i] = np.log(max(acc, 1e-5)) if c._log else acc
    return out


def _replay_ctor(w, rng):
    """real SIFrameComputer on a synthetic real LinearFilterBank with the witness supports and random impulse responses;
    compute_full against the definition evaluated from the BANK's impulse responses (roll-and-clamp done here, the
    constructor's prepared filters are not consulted)"""
    import numpy as np
    from pydrobert.speech.compute import SIFrameComputer
    from pydrobert.speech.filters import LinearFilterBank
    b = BANKS[w.get('bank', 0)]
    style, energy = w.get('style', 'centered'), w.get('energy', False)
    S = 3          # frame shift of the ctor configurations (sampling rate 1000 Hz: 3 ms = 3 samples)
    taps = {}

    class Bank(LinearFilterBank):
        is_real = b['real']
        is_analytic = False
        is_zero_phase = b['zero_phase']
        num_filts = len(b['supports'])
        sampling_rate = 1000
        supports = b['supports']
        supports_hz = b['supports_hz']

        def get_impulse_response(self, i, width):
            if (i, width) not in taps:
                l, r = b['supports'][i]
                h = np.zeros(width, dtype=np.float64 if b['real'] else np.complex128)
                for t in range(l, r + 1):
                    h[t % width] = rng.randn() + (0 if b['real'] else 1j * rng.randn())
                taps[(i, width)] = h
            return taps[(i, width)].copy()

        def get_frequency_response(self, i, width, half=False):
            H = np.fft.fft(self.get_impulse_response(i, width))
            return H[:width // 2 + 1] if half else H

        def get_truncated_response(self, i, width):
            return 0, self.get_frequency_response(i, width)
    try:
        c = SIFrameComputer(Bank(), frame_shift_ms=S, frame_style=style, include_energy=energy, pad_to_nearest_power_of_two=False,
                            window_function='hamming', use_power=True, use_log=False)
    except Exception as e:
        return {'reproduced': True, 'detail': 'real constructor raised %s: %s' % (type(e).__name__, e)}
    Sh, D, M, trans = c._frame_shift, c._dft_size, c._max_support, c._translation
    worst = (0.0, None)
    for N in (0, 1, Sh, 2 * Sh + 1, D + 3, 2 * D + 5):
        xs = rng.randn(N)
        got = c.compute_full(xs)
        nf = (N + Sh // 2) // Sh
        want = np.zeros((nf, len(b['supports']) + int(energy)))
        start0 = trans if style == 'causal' else trans - Sh
        hs = []
        if energy:
            e = np.zeros(D)
            e[trans] = 1
            hs.append(e)
        for i, (l, r) in enumerate(b['supports']):
            h = Bank().get_impulse_response(i, D)
            shift = trans - (l + r) // 2 + 1 if style == 'centered' else trans
            hs.append(np.array([h[(m - shift) % D] for m in range(M)]))
        for i, h in enumerate(hs):
            y = np.convolve(xs, h) if N else np.zeros(0)
            g = np.abs(y) ** 2
            for k in range(nf):
                acc = 0.0
                for j in range(2 * Sh):
                    q = k * Sh + j + start0
                    if 0 <= q < len(g):
                        acc += c._window[j // Sh, j % Sh] * g[q]
                want[k, i] = acc
        pre = (Sh < M - trans) if style == 'causal' else (Sh < M - M // 2)
        if got.shape != want.shape:
            if pre or got.shape[1] != want.shape[1]:
                return {'reproduced': True, 'detail': 'shape %s, documented %s' % (got.shape, want.shape)}
            # outside the property's precondition the frame count is not claimed: compare the frames both have
            k_ = min(got.shape[0], want.shape[0])
            got, want = got[:k_], want[:k_]
        d = float(np.abs(got - want).max()) if got.size else 0.0
        if d > 1e-7 * max(1.0, float(np.abs(want).max()) if want.size else 1.0) and d > worst[0]:
            worst = (d, 'supports %s, %s, energy=%s, N=%d' % (b['supports'], style, energy, N))
    return {'reproduced': worst[1] is not None, 'detail': 'max |compute_full - definition from the bank impulse responses| = %.3g (%s)' % worst}


def replay(w):
    import numpy as np
    rng = np.random.RandomState(9)
    if w['kind'] == 'ctor':
        return _replay_ctor(w, rng)
    dtype = np.float32 if w['dtype'] == 'f4' else np.float64
    worst = (0.0, None)
    def mk_real(which, S, pad, energy):
        if which == 'gabor':     # complex bank at 1 kHz: one-sided support 9 samples, the property requires frame_shift < 9
            return si.real_si(S, None, w['style'], power=w['power'], log=w['log'], pad=pad, include_energy=energy)
        from pydrobert.speech.compute import SIFrameComputer
        from pydrobert.speech.filters import TriangularOverlappingFilterBank
        bank = TriangularOverlappingFilterBank('mel', num_filts=3, sampling_rate=4000, low_hz=200)      # real bank: rfft / irfft path
        return SIFrameComputer(bank, frame_shift_ms=S / 4.0 + 0.01, frame_style=w['style'], include_energy=energy, pad_to_nearest_power_of_two=pad,
                               window_function='hamming', use_power=w['power'], use_log=w['log'])
    for which, S in (('gabor', w['S']), ('gabor', 5), ('tri', 20), ('tri', 21)):
        for pad in (False, True):
            for energy in (False, True):
                try:
                    c = mk_real(which, S, pad, energy)
                except Exception as e:
                    return {'reproduced': True, 'detail': 'real constructor raised %s: %s' % (type(e).__name__, e)}
                if c._frame_style == 'causal' and not c._frame_shift < c._max_support - c._translation:
                    continue
                if c._frame_style == 'centered' and not c._frame_shift < c._max_support - c._max_support // 2:
                    continue
                V = c._dft_size - c._max_support + 1
                for N in sorted(set([w['N'], 0, 1, c._frame_shift, c._frame_length, V - 1, V, V + 1, 2 * V + 3, c._dft_size + 5, 3 * c._dft_size])):
                    xs = (rng.randn(N) * 3).astype(dtype)
                    try:
                        got = c.compute_full(xs)
                    except Exception as e:
                        return {'reproduced': True, 'detail': 'compute_full(%s signal of %d samples; dft_size %d, frame_shift %d, %s) raised %s: %s'
                                % (np.dtype(dtype).name, N, c._dft_size, c._frame_shift, w['style'], type(e).__name__, str(e)[:100])}
                    if got.dtype != dtype:
                        return {'reproduced': True, 'detail': 'result dtype %s for %s input' % (got.dtype, np.dtype(dtype).name)}
                    want = _definition(c, xs)
                    if got.shape != want.shape:
                        return {'reproduced': True, 'detail': 'shape %s, documented %s (N=%d S=%d)' % (got.shape, want.shape, N, S)}
                    d = float(np.abs(got - want).max()) if got.size else 0.0
                    tol = 1e-7 if dtype == np.float64 else 2e-3
                    if d > tol * max(1.0, float(np.abs(want).max()) if want.size else 1.0) and d > worst[0]:
                        worst = (d, '%s bank, frame_shift=%d dft_size=%d pad=%s energy=%s N=%d' % (which, c._frame_shift, c._dft_size, pad, energy, N))
    return {'reproduced': worst[1] is not None, 'detail': 'max |compute_full - definition| = %.3g (%s)' % worst}


def conformance(tier, seed, results):
    """definition oracle vs real computers (float64): validates the specification's reading of the property text"""
    import numpy as np
    rng = np.random.RandomState(seed)
    n = 0
    for style in ('causal', 'centered'):
        for S in (2, 5):
            for power, log in ((True, False), (False, True)):
                c = si.real_si(S, None, style, power=power, log=log)
                for N in (0, 3, c._frame_length, c._dft_size + 4):
                    xs = rng.randn(N)
                    got, want = c.compute_full(xs), _definition(c, xs)
                    assert got.shape == want.shape and (not got.size or np.allclose(got, want, rtol=1e-7, atol=1e-9)), ('definition oracle', style, S, N)
                    n += 1
    return n
