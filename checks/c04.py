"""C04 -- a computer's output depends only on the current utterance (DESIGN 3/C04)."""
import itertools

import z3

from vlib import symex
from vlib.nd import ND
from vlib.symex import (Ctx, SArr, SInt, _z, conc, decide, explore, Inconclusive, check_sat)
from checks import stft_common as sc
from checks import si_common as si

PID = 'C04'
LEVEL = 'model_checking'
FUNCTIONS = [
    'compute:ShortTimeFourierTransformFrameComputer.compute_chunk',
    'compute:ShortTimeFourierTransformFrameComputer.finalize',
    'compute:ShortTimeFourierTransformFrameComputer.compute_full',
    'compute:ShortIntegrationFrameComputer.compute_chunk',
    'compute:ShortIntegrationFrameComputer.finalize',
    'compute:ShortIntegrationFrameComputer.compute_full',
    'compute:ShortIntegrationFrameComputer._compute_preamble',
    'compute:ShortIntegrationFrameComputer._handle_skip',
    'compute:frame_by_frame_calculation',
]
EXPLANATION = (
    'Inductive argument decided by z3 on the real source: (S1) after every symbolic history (symbolic length, 2 cuts, '
    'empty chunks, too-short utterances) followed by finalize(), every scalar field of the instance equals a fresh '
    'instance\'s except fields listed as dead, and a second finalize() returns no frames; (S2) an instance in an '
    'ARBITRARY post-finalize state (uninterpreted junk in every buffer, arbitrary values in the dead fields) and a fresh '
    'one produce identical result terms for the same symbolic utterance -- any dependence on stale state leaves a junk '
    'term and is sat; (S3) with started=True compute_full / frame_by_frame_calculation raise ValueError before any write; '
    '(S4) all input arrays are read-only in the harness, any write is an exception path.')
BOUNDS = {
    'quick': 'STFT (L,S) in {(4,2),(5,2),(5,3),(6,3),(4,4),(5,5)} x 3 styles, histories N<=L+S+1 with 2 cuts, utterances N<=2L+S with 2 cuts; '
             'SI S=2, M in {3,4}, D in {6,8}, utterances N<=8 with 2 cuts; alternating dtypes: float32 utterance (N<=L+S+1) then float64 utterance in 2 chunks (and the reverse), (L,S) in {(4,2),(5,3)} x 3 styles, and on short-integration computers (D <= 6, N <= 3); refused mid-utterance calls: any buffered length < L, either sample type of the utterance in progress against a float64 signal of any length <= 3L',
    'thorough': 'STFT L<=8 grid, utterances N<=3L with 3 cuts; SI additionally S=3, D=9',
}
OUTSIDE = ['floating point: bit-identity is claimed as identity of the symbolic result terms (same operations on the same operands)',
           'utterance lengths beyond the bound in S2 (the pre-state is arbitrary, so history length is unbounded)',
           'remembered chunk dtype: shown dead for float64 follow-up utterances only (dtype lattice f8/f4)']
ASSUMPTIONS = [
    'per-frame routines (_compute_frame) write no instance state (STFT: recorder replaces it; real routine checked by an AST scan for assignments to self.*)',
    'state the constructor initialises with a literal (self._x = None / {} / 0) is read off the constructor AST and copied into hand-built instances',
    'a store into a narrower float array rounds: modelled as an uninterpreted CAST_<dtype> of the stored value; state allocated by the constructor (the history buffer) is taken from the real __init__ run on a stub bank / window',
    'dead fields allowed to differ after finalize: STFT _chunk_dtype, _buf contents; SI _ret_dtype, _x_rem, _y_rem, _skip, buffers -- each is made arbitrary in S2',
]
CONFIG_TIME_LIMIT = {'quick': 900, 'thorough': 3400}
STYLES = [('causal', False), ('centered', False), ('centered', True)]
xa = z3.Function('xa', sc.I, sc.R)   # the previous utterance


def configs(tier, seed):
    cfgs = []
    grid = [(4, 2), (5, 2), (5, 3), (6, 3), (4, 4), (5, 5)] if tier == 'quick' else \
        [(2, 1), (3, 2), (3, 3), (4, 2), (4, 3), (4, 4), (5, 2), (5, 3), (5, 5), (6, 3), (6, 4), (7, 3), (8, 3)]
    K = 2 if tier == 'quick' else 3
    for (L, S), (style, kaldi) in itertools.product(grid, STYLES):
        nm = '%d S%d %s%s' % (L, S, style, '+kaldi' if kaldi else '')
        cfgs.append(dict(kind='stft_reset', name='stft_reset L' + nm, L=L, S=S, style=style, kaldi=kaldi, NMAX=L + S + 1))
        cfgs.append(dict(kind='stft_dead', name='stft_dead L' + nm, L=L, S=S, style=style, kaldi=kaldi, K=K,
                         NMAX=(2 * L + S if tier == 'quick' else min(3 * L, 20))))
        cfgs.append(dict(kind='stft_guard', name='stft_guard L' + nm, L=L, S=S, style=style, kaldi=kaldi))
    for (L, S), (style, kaldi) in itertools.product([(4, 2), (5, 3)] if tier == 'quick' else [(4, 2), (5, 3), (6, 3), (4, 4)], STYLES):
        cfgs.append(dict(kind='stft_dtype', name='stft_dtype L%d S%d %s%s' % (L, S, style, '+kaldi' if kaldi else ''), L=L, S=S, style=style, kaldi=kaldi, NMAX=L + S + 1))
    for (S, M, D, style, tr) in si.si_grid(tier):
        nm = 'S%d M%d D%d %s' % (S, M, D, style)
        cfgs.append(dict(kind='si_reset', name='si_reset ' + nm, S=S, M=M, D=D, style=style, trans=tr, NMAX=6))
        cfgs.append(dict(kind='si_dead', name='si_dead ' + nm, S=S, M=M, D=D, style=style, trans=tr, NMAX=8 if tier == 'quick' else 11))
        cfgs.append(dict(kind='si_guard', name='si_guard ' + nm, S=S, M=M, D=D, style=style, trans=tr))
        if tier != 'quick' or D <= 6:
            cfgs.append(dict(kind='si_dtype', name='si_dtype ' + nm, S=S, M=M, D=D, style=style, trans=tr, NMAX=3 if tier == 'quick' else 5))
    cfgs.append(dict(kind='ast', name='ast no-state-writes in _compute_frame'))
    return cfgs


SCALARS_STFT_DEAD = {'_chunk_dtype'}
SCALARS_SI_DEAD = {'_ret_dtype', '_x_rem', '_y_rem', '_skip'}


def _scalars(o):
    out = {}
    for k, v in o.__dict__.items():
        if isinstance(v, (SArr, ND, list, tuple)) or callable(v) or k in ('_bank',):
            continue
        out[k] = v
    return out


def _neq(a, b):
    """z3 condition 'a != b' for python / symbolic scalars"""
    if isinstance(a, (SInt, int)) and isinstance(b, (SInt, int)) and not isinstance(a, bool) and not isinstance(b, bool):
        return _z(a) != _z(b)
    if isinstance(a, symex.SBool) or isinstance(b, symex.SBool):
        az = a.z if isinstance(a, symex.SBool) else z3.BoolVal(bool(a))
        bz = b.z if isinstance(b, symex.SBool) else z3.BoolVal(bool(b))
        return az != bz
    return z3.BoolVal(not (a == b))


def _ints(m, names):
    return {n: m.eval(z3.Int(n), True).as_long() for n in names}


# ------------------------------------------------------------------ STFT

def _real_init_fields(ns, o, L, S, style, kaldi):
    """state the real constructor allocates (the history buffer, and any field a hand-built instance does not know
    about) is taken from the real __init__ run on a stub bank / window"""
    LFB, WF = ns['LinearFilterBank'], ns['WindowFunction']

    class StubBank(LFB):
        is_real = True
        is_analytic = False
        is_zero_phase = True
        num_filts = 1
        sampling_rate = 1000
        supports = ((-1, 1),)
        supports_hz = ((100.0, 300.0),)

        def get_impulse_response(s, i, w):
            raise AssertionError

        def get_frequency_response(s, i, w, half=False):
            raise AssertionError

        def get_truncated_response(s, i, w):
            return (0, [1])

    class StubWin(WF):
        def get_impulse_response(s, width):
            return 1
    real = ns['ShortTimeFourierTransformFrameComputer'](StubBank(), frame_length_ms=L, frame_shift_ms=S, frame_style=style, kaldi_shift=kaldi,
                                                        pad_to_nearest_power_of_two=False, window_function=StubWin())
    assert real.frame_length == L and real.frame_shift == S
    for k, v in real.__dict__.items():
        if k not in o.__dict__ or k == '_buf':
            o.__dict__[k] = v
    return o


def run_stft_dtype(cfg):
    """alternating dtypes on one instance: a float32 utterance, then a float64 utterance in two chunks, against a fresh
    instance fed the float64 utterance only.  Frames are compared as terms; a value that passed through a float32
    buffer carries an uninterpreted CAST_f4 and differs."""
    L, S, style, kaldi, NMAX = cfg['L'], cfg['S'], cfg['style'], cfg['kaldi'], cfg['NMAX']
    ns = sc.load_compute()
    viol = []
    ob = dis = 0
    names = ['N1', 'N2', 'c0']

    def body():
        c = Ctx.cur
        N1, N2, c0 = z3.Int('N1'), z3.Int('N2'), z3.Int('c0')
        c.inputs = [N1, N2, c0]
        c.assume(N1 >= 1, N1 <= NMAX, N2 >= 0, N2 <= NMAX, c0 >= 0, c0 <= N2)
        first32 = decide(z3.Bool('first_utterance_float32'))
        try:
            o, fr = sc.mk_stft(ns, L, S, style, kaldi, 'A')
            _real_init_fields(ns, o, L, S, style, kaldi)
            fresh, fr2 = sc.mk_stft(ns, L, S, style, kaldi, 'B')
            _real_init_fields(ns, fresh, L, S, style, kaldi)
            d1, d2 = ('f4', 'f8') if first32 else ('f8', 'f4')
            o.compute_chunk(SArr(conc(SInt(N1)), lambda i: xa(i), d1, readonly=True))
            o.finalize()
            del fr[:]
            for obj in (o, fresh):
                obj.compute_chunk(SArr(conc(SInt(c0)), lambda i: sc.x(i), d2, readonly=True))
                obj.compute_chunk(SArr(conc(SInt(N2 - c0)), lambda i: sc.x(c0 + i), d2, readonly=True))
                obj.finalize()
        except Exception as e:
            symex.guard(e)
            return ('exc', '%s: %s' % (type(e).__name__, e))
        if len(fr) != len(fr2):
            return ('count', len(fr), len(fr2))
        bad = []
        for a, b in zip(fr, fr2):
            for p, q in zip(a, b):
                if not p.eq(q):
                    bad.append(p != q)
        return ('ok', bad, first32)

    for ctx, res in explore(body):
        if res is None:
            continue
        ob += 1
        base = dict(kind='stft_dtype', L=L, S=S, style=style, kaldi=kaldi)
        if res[0] != 'ok':
            viol.append(dict(base, what=res[0], detail=str(res[1:])[:200], first32=True, **_ints(ctx.model(), names)))
            continue
        if not res[1]:
            dis += 1
            continue
        s = ctx.solver
        s.push()
        s.add(z3.Or(res[1]))
        r = check_sat(s)
        if r == 'sat':
            viol.append(dict(base, what='frames of the second utterance differ from a fresh instance', first32=res[2], **_ints(s.model(), names)))
        else:
            dis += 1
        s.pop()
    for w in viol:
        w['class'] = 'stft_dtype/%s/%s' % (style, w['what'][:20])
    return dict(obligations=ob, discharged=dis, violations=viol, twin=dis > 0,
                samples=[{'config': cfg['name'], 'obligation': 'float32 utterance then float64 utterance (and the reverse) == fresh instance, frame terms'}])


def run_stft_reset(cfg):
    L, S, style, kaldi, NMAX = cfg['L'], cfg['S'], cfg['style'], cfg['kaldi'], cfg['NMAX']
    ns = sc.load_compute()
    viol = []
    ob = dis = 0
    names = ['N', 'c0', 'c1']
    samples = []

    def body():
        c = Ctx.cur
        N, c0, c1 = z3.Int('N'), z3.Int('c0'), z3.Int('c1')
        nchunks = z3.Int('nchunks')   # 0, 1 or 2 compute_chunk calls before finalize
        c.inputs = [N, c0, c1, nchunks]
        c.assume(N >= 0, N <= NMAX, c0 >= 0, c1 >= 0, nchunks >= 0, nchunks <= 2)
        c.assume(z3.If(nchunks == 0, z3.And(N == 0, c0 == 0, c1 == 0), z3.If(nchunks == 1, z3.And(c0 == N, c1 == 0), c0 + c1 == N)))
        o, fr = sc.mk_stft(ns, L, S, style, kaldi, 'A')
        fresh, _ = sc.mk_stft(ns, L, S, style, kaldi, 'B')
        bad = []
        nk = SInt(nchunks).__index__()
        started_log = [o.started]
        try:
            off = z3.IntVal(0)
            for i in range(nk):
                ci = (c0, c1)[i]
                o.compute_chunk(sc.sig(off, SInt(ci), fn=xa))
                off = off + ci
                started_log.append(o.started)
                bad.append(z3.BoolVal(not bool(o.started)))     # started is true after every compute_chunk
            o.finalize()
            bad.append(z3.BoolVal(bool(o.started)))             # and false after finalize
            sa, sb = _scalars(o), _scalars(fresh)
            diff = []
            for k in sorted(set(sa) | set(sb)):
                if k in SCALARS_STFT_DEAD:
                    continue
                if k not in sa or k not in sb:
                    bad.append(z3.BoolVal(True))
                    diff.append(k)
                    continue
                bad.append(_neq(sa[k], sb[k]))
            n_before = len(fr)
            r2 = o.finalize()
            bad.append(z3.BoolVal(len(fr) != n_before))          # second finalize emits nothing
            bad.append(_z(r2.shape[0]) != 0)
            bad.append(z3.BoolVal(bool(o.started)))
        except Exception as e:
            symex.guard(e)
            return ('exc', '%s: %s' % (type(e).__name__, e))
        return ('ok', bad)

    for ctx, res in explore(body):
        if res is None:
            continue
        ob += 1
        base = dict(kind='stft_reset', L=L, S=S, style=style, kaldi=kaldi)
        if res[0] == 'exc':
            viol.append(dict(base, what='exception', detail=res[1], **_ints(ctx.model(), names + ['nchunks'])))
            continue
        s = ctx.solver
        s.push()
        s.add(z3.Or(res[1]))
        r = check_sat(s)
        if r == 'sat':
            viol.append(dict(base, what='state not reset by finalize', **_ints(s.model(), names + ['nchunks'])))
        else:
            dis += 1
        s.pop()
        if r != 'sat' and len(samples) < 1:
            samples.append({'config': cfg['name'], 'history': _ints(ctx.model(), names + ['nchunks'])})
    for w in viol:
        w['class'] = 'stft_reset/%s/%s' % (cfg['name'], w['what'])
    return dict(obligations=ob, discharged=dis, violations=viol, samples=samples, twin=ob > 0)


def run_stft_dead(cfg):
    """arbitrary post-finalize state (junk buffer, arbitrary remembered dtype) vs fresh instance: same utterance, same terms"""
    L, S, style, kaldi, K, NMAX = cfg['L'], cfg['S'], cfg['style'], cfg['kaldi'], cfg['K'], cfg['NMAX']
    ns = sc.load_compute()
    viol, samples = [], []
    ob = dis = 0
    reached = False
    names = ['N'] + ['c%d' % i for i in range(K)]

    def body():
        c = Ctx.cur
        N = z3.Int('N')
        cs = [z3.Int('c%d' % i) for i in range(K)]
        c.inputs = [N] + cs
        c.assume(N >= 0, N <= NMAX, *[ci >= 0 for ci in cs])
        c.assume(z3.Sum(cs) == N)
        a, fa = sc.mk_stft(ns, L, S, style, kaldi, 'A')
        a._chunk_dtype = 'f4' if decide(z3.Bool('prev_was_f32')) else 'f8'
        b, fb = sc.mk_stft(ns, L, S, style, kaldi, 'B')
        outs_a, outs_b = [], []
        try:
            for o, outs in ((a, outs_a), (b, outs_b)):
                off = z3.IntVal(0)
                for ci in cs:
                    outs.append(o.compute_chunk(sc.sig(off, SInt(ci))))
                    off = off + ci
                outs.append(o.finalize())
        except Exception as e:
            symex.guard(e)
            return ('exc', '%s: %s' % (type(e).__name__, e))
        bad = []
        for ra, rb in zip(outs_a, outs_b):
            bad.append(_z(ra.shape[0]) != _z(rb.shape[0]))
            bad.append(z3.BoolVal(ra.dtype != rb.dtype))
        return ('ok', fa, fb, bad)

    for ctx, res in explore(body):
        if res is None:
            continue
        ob += 1
        base = dict(kind='stft_dead', L=L, S=S, style=style, kaldi=kaldi)
        if res[0] == 'exc':
            viol.append(dict(base, what='exception', detail=res[1], **_ints(ctx.model(), names)))
            continue
        _, fa, fb, bad = res
        if len(fa) != len(fb):
            viol.append(dict(base, what='frame count depends on stale state', **_ints(ctx.model(), names)))
            continue
        reached = reached or bool(fa)
        bad = bad + [x1 != x2 for f1, f2 in zip(fa, fb) for x1, x2 in zip(f1, f2) if not x1.eq(x2)]
        s = ctx.solver
        s.push()
        s.add(z3.Or(bad))
        r = check_sat(s)
        if r == 'sat':
            viol.append(dict(base, what='features depend on stale state', **_ints(s.model(), names)))
        else:
            dis += 1
        s.pop()
        if r != 'sat' and len(samples) < 1 and fa:
            samples.append({'config': cfg['name'], 'utterance': _ints(ctx.model(), names), 'frame0_stale_instance': [str(t) for t in fa[0]]})
    for w in viol:
        w['class'] = 'stft_dead/%s/%s' % (cfg['name'], w['what'])
    return dict(obligations=ob, discharged=dis, violations=viol, samples=samples, twin=reached)


def run_stft_guard(cfg):
    """from an arbitrary started state compute_full and frame_by_frame_calculation raise ValueError and write nothing"""
    L, S, style, kaldi = cfg['L'], cfg['S'], cfg['style'], cfg['kaldi']
    ns = sc.load_compute()
    viol = []
    ob = dis = 0

    def body():
        c = Ctx.cur
        o, fr = sc.mk_stft(ns, L, S, style, kaldi, 'A')
        bl = z3.Int('bl')
        first = z3.Bool('first')
        c.assume(bl >= 0, bl < L)
        o._started = True
        o._buf_len = SInt(bl)
        o._first_frame = decide(first)
        # the utterance in progress may be in another sample type than the signal of the refused call (float64)
        o._chunk_dtype = 'f4' if decide(z3.Bool('utt_is_f32')) else 'f8'
        before = dict(_scalars(o))
        buf = o._buf
        get0 = buf._get
        N = z3.Int('N')
        c.assume(N >= 0, N <= 3 * L)
        which = decide(z3.Bool('use_compute_full'))
        try:
            if which:
                o.compute_full(sc.sig(z3.IntVal(0), SInt(N)))
            else:
                ns['frame_by_frame_calculation'](o, sc.sig(z3.IntVal(0), SInt(N)), 3)
            return ('noraise', which)
        except ValueError:
            pass
        except Exception as e:
            symex.guard(e)
            return ('other', '%s: %s' % (type(e).__name__, e))
        bad = [z3.BoolVal(o._buf is not buf), z3.BoolVal(buf._get is not get0), z3.BoolVal(len(fr) != 0)]
        after = _scalars(o)
        for k in before:
            bad.append(_neq(before[k], after.get(k)))
        return ('ok', bad)

    for ctx, res in explore(body):
        if res is None:
            continue
        ob += 1
        base = dict(kind='stft_guard', L=L, S=S, style=style, kaldi=kaldi)
        if res[0] != 'ok':
            wv = {}
            try:
                m = ctx.model()
                wv = dict(N=m.eval(z3.Int('N'), True).as_long(), bl=m.eval(z3.Int('bl'), True).as_long())
            except BaseException as e:
                if not isinstance(e, Exception) and not isinstance(e, symex.Abort):
                    raise
            viol.append(dict(base, what='mid-utterance call not refused with ValueError', detail=str(res[1]), **wv))
            continue
        s = ctx.solver
        s.push()
        s.add(z3.Or(res[1]))
        r = check_sat(s)
        if r == 'sat':
            m = s.model()
            viol.append(dict(base, what='refused call disturbed the utterance in progress', utt_f32=z3.is_true(m.eval(z3.Bool('utt_is_f32'), True)),
                             bl=m.eval(z3.Int('bl'), True).as_long(), N=m.eval(z3.Int('N'), True).as_long()))
        else:
            dis += 1
        s.pop()
    for w in viol:
        w['class'] = 'stft_guard/%s' % w['what']
    return dict(obligations=ob, discharged=dis, violations=viol, samples=[], twin=ob > 0)


# ------------------------------------------------------------------ SI

def _si_setup(cfg, tag=''):
    S, M, D = cfg['S'], cfg['M'], cfg['D']
    symex.NONLINEAR_UF = True
    NP = si.make_np(S, M, D, 1, junk_tag=tag)
    return si.load(NP)


def _ro_sig(off, n, fn=None):
    a = si.sig(off, n) if fn is None else ND.fresh((n,), lambda idx: fn(_z(off) + idx[0]), 'f8')
    a.store.readonly = True
    return a


def run_si_reset(cfg):
    S, M, D, style, NMAX = cfg['S'], cfg['M'], cfg['D'], cfg['style'], cfg['NMAX']
    ns = _si_setup(cfg)
    viol = []
    ob = dis = 0
    names = ['N', 'c0', 'nchunks']

    def body():
        c = Ctx.cur
        N, c0, nch = z3.Int('N'), z3.Int('c0'), z3.Int('nchunks')
        c.inputs = [N, c0, nch]
        c.assume(N >= 0, N <= NMAX, c0 >= 0, c0 <= N, nch >= 0, nch <= 2)
        c.assume(z3.If(nch == 0, z3.And(N == 0, c0 == 0), z3.If(nch == 1, c0 == N, True)))
        o = si.mk(ns, S, M, D, style, 1, True, False, trans=cfg.get('trans'))
        nk = SInt(nch).__index__()
        bad = []
        try:
            cuts = [c0, N - c0][:nk]
            off = z3.IntVal(0)
            for ci in cuts:
                o.compute_chunk(_ro_sig(off, conc(SInt(ci)), fn=xa))
                off = off + ci
                bad.append(z3.BoolVal(not bool(o.started)))
            o.finalize()
            bad.append(z3.BoolVal(bool(o.started)))
            r2 = o.finalize()
            bad.append(_z(r2.shape[0]) != 0)
            bad.append(z3.BoolVal(bool(o.started)))
            known = set(_scalars(si.mk(ns, S, M, D, style, 1, True, False, trans=cfg.get('trans'))))
            extra = set(_scalars(o)) - known
            bad.append(z3.BoolVal(bool(extra)))
        except Exception as e:
            symex.guard(e)
            return ('exc', '%s: %s' % (type(e).__name__, e))
        return ('ok', bad)

    for ctx, res in explore(body):
        if res is None:
            continue
        ob += 1
        base = dict(kind='si_reset', S=S, M=M, D=D, style=style)
        if res[0] == 'exc':
            viol.append(dict(base, what='exception', detail=res[1], **_ints(ctx.model(), names)))
            continue
        s = ctx.solver
        s.push()
        s.add(z3.Or(res[1]))
        r = check_sat(s)
        if r == 'sat':
            viol.append(dict(base, what='state not reset by finalize', **_ints(s.model(), names)))
        else:
            dis += 1
        s.pop()
    for w in viol:
        w['class'] = 'si_reset/%s/%s' % (cfg['name'], w['what'])
    return dict(obligations=ob, discharged=dis, violations=viol, samples=[], twin=ob > 0)


def run_si_dtype(cfg):
    """alternating float dtypes on one short-integration instance: a float32 utterance, then a float64 one (and the
    reverse), against a fresh instance fed the second utterance only: same frames (terms), no exception"""
    S, M, D, style, NMAX = cfg['S'], cfg['M'], cfg['D'], cfg['style'], cfg['NMAX']
    ns = _si_setup(cfg)
    viol = []
    ob = dis = 0
    names = ['N1', 'N2', 'c0']

    def sigd(off, n, dt, fn):
        a = ND.fresh((n,), lambda idx: fn(_z(off) + idx[0]), dt)
        a.store.readonly = True
        return a

    def body():
        c = Ctx.cur
        N1, N2, c0 = z3.Int('N1'), z3.Int('N2'), z3.Int('c0')
        c.inputs = [N1, N2, c0]
        c.assume(N1 >= 1, N1 <= NMAX, N2 >= 0, N2 <= NMAX, c0 >= 0, c0 <= N2)
        first32 = decide(z3.Bool('first_utterance_float32'))
        d1, d2 = ('f4', 'f8') if first32 else ('f8', 'f4')
        try:
            o = si.mk(ns, S, M, D, style, 1, True, False, trans=cfg.get('trans'))
            fresh = si.mk(ns, S, M, D, style, 1, True, False, trans=cfg.get('trans'))
            o.compute_chunk(sigd(z3.IntVal(0), conc(SInt(N1)), d1, xa))
            o.finalize()
            rows = []
            for obj in (o, fresh):
                rr = []
                rr.extend(si._rows(obj.compute_chunk(sigd(z3.IntVal(0), conc(SInt(c0)), d2, si.x)), 1))
                rr.extend(si._rows(obj.compute_chunk(sigd(c0, conc(SInt(N2 - c0)), d2, si.x)), 1))
                rr.extend(si._rows(obj.finalize(), 1))
                rows.append(rr)
        except Exception as e:
            symex.guard(e)
            return ('exc', '%s: %s' % (type(e).__name__, e), first32)
        ra, rb = rows
        if len(ra) != len(rb):
            return ('count', len(ra), len(rb), first32)
        bad = [p[0] != q[0] for p, q in zip(ra, rb) if not p[0].eq(q[0])]
        return ('ok', bad, first32)

    for ctx, res in explore(body):
        if res is None:
            continue
        ob += 1
        base = dict(kind='si_dtype', S=S, M=M, D=D, style=style)
        if res[0] != 'ok':
            viol.append(dict(base, what=res[0], detail=str(res[1:-1])[:200], first32=res[-1], **_ints(ctx.model(), names)))
            continue
        if not res[1]:
            dis += 1
            continue
        s = ctx.solver
        s.push()
        s.add(z3.Or(res[1]))
        r = check_sat(s)
        if r == 'sat':
            viol.append(dict(base, what='frames of the second utterance differ from a fresh instance', first32=res[2], **_ints(s.model(), names)))
        else:
            dis += 1
        s.pop()
    for w in viol:
        w['class'] = 'si_dtype/%s/%s' % (style, w['what'][:20])
    return dict(obligations=ob, discharged=dis, violations=viol, twin=dis > 0,
                samples=[{'config': cfg['name'], 'obligation': 'float32 utterance then float64 utterance (and the reverse) == fresh instance'}])


def run_si_dead(cfg):
    S, M, D, style, NMAX = cfg['S'], cfg['M'], cfg['D'], cfg['style'], cfg['NMAX']
    ns = _si_setup(cfg)
    NP = ns['np']
    viol, samples = [], []
    ob = dis = 0
    reached = False
    names = ['N', 'c0']

    def body():
        c = Ctx.cur
        N, c0 = z3.Int('N'), z3.Int('c0')
        c.inputs = [N, c0]
        c.assume(N >= 0, N <= NMAX, c0 >= 0, c0 <= N)
        a = si.mk(ns, S, M, D, style, 1, True, False, trans=cfg.get('trans'))
        # arbitrary post-finalize state: stale counters, stale dtype, junk buffers
        xr, yr, sk = z3.Int('stale_x_rem'), z3.Int('stale_y_rem'), z3.Int('stale_skip')
        c.assume(xr >= 0, xr <= D, yr >= 0, yr <= 3 * S, sk >= 0, sk <= M)
        a._x_rem, a._y_rem, a._skip = SInt(xr), SInt(yr), SInt(sk)
        a._ret_dtype = 'f4' if decide(z3.Bool('prev_was_f32')) else 'f8'
        JA1 = z3.Function('staleA1', si.I, si.R)
        JA3 = z3.Function('staleA3', si.I, si.I, si.I, si.R)
        a._x_buf = ND.fresh((D,), lambda idx: JA1(*idx), 'f8')
        a._y_buf = ND.fresh(a._y_buf.shape, lambda idx: JA3(*idx), 'f8')
        b = si.mk(ns, S, M, D, style, 1, True, False, trans=cfg.get('trans'))
        ra, rb = [], []
        try:
            for o, rr in ((a, ra), (b, rb)):
                rr.extend(si._rows(o.compute_chunk(_ro_sig(z3.IntVal(0), conc(SInt(c0)))), 1))
                rr.extend(si._rows(o.compute_chunk(_ro_sig(c0, conc(SInt(N - c0)))), 1))
                rr.extend(si._rows(o.finalize(), 1))
        except Exception as e:
            symex.guard(e)
            return ('exc', '%s: %s' % (type(e).__name__, e))
        return ('ok', ra, rb)

    for ctx, res in explore(body):
        if res is None:
            continue
        ob += 1
        base = dict(kind='si_dead', S=S, M=M, D=D, style=style)
        if res[0] == 'exc':
            viol.append(dict(base, what='exception', detail=res[1], **_ints(ctx.model(), names)))
            continue
        _, ra, rb = res
        if len(ra) != len(rb):
            viol.append(dict(base, what='frame count depends on stale state', **_ints(ctx.model(), names)))
            continue
        reached = reached or bool(ra)
        bad = [p[0] != q[0] for p, q in zip(ra, rb) if not p[0].eq(q[0])]
        r = 'unsat'
        if bad:
            s = ctx.solver
            s.push()
            s.add(z3.Or(bad))
            r = check_sat(s)
            if r == 'sat':
                viol.append(dict(base, what='features depend on stale state', **_ints(s.model(), names)))
            s.pop()
        if r != 'sat':
            dis += 1
            if len(samples) < 1 and ra:
                samples.append({'config': cfg['name'], 'utterance': _ints(ctx.model(), names), 'coeff0': str(ra[0][0])[:200]})
    for w in viol:
        w['class'] = 'si_dead/%s/%s' % (cfg['name'], w['what'])
    return dict(obligations=ob, discharged=dis, violations=viol, samples=samples, twin=reached)


def run_si_guard(cfg):
    S, M, D, style = cfg['S'], cfg['M'], cfg['D'], cfg['style']
    ns = _si_setup(cfg)
    viol = []
    ob = dis = 0

    def body():
        c = Ctx.cur
        o = si.mk(ns, S, M, D, style, 1, True, False, trans=cfg.get('trans'))
        o._started = True
        xr, yr = z3.Int('x_rem'), z3.Int('y_rem')
        c.assume(xr >= 0, xr < D, yr >= 0, yr < 2 * S)
        o._x_rem, o._y_rem = SInt(xr), SInt(yr)
        before = dict(_scalars(o))
        w0 = (o._x_buf.store.writes, o._y_buf.store.writes)
        N = z3.Int('N')
        c.assume(N >= 0, N <= 2 * D)
        which = decide(z3.Bool('use_compute_full'))
        try:
            if which:
                o.compute_full(_ro_sig(z3.IntVal(0), conc(SInt(N))))
            else:
                ns['frame_by_frame_calculation'](o, _ro_sig(z3.IntVal(0), conc(SInt(N))), 3)
            return ('noraise', which)
        except ValueError:
            pass
        except Exception as e:
            symex.guard(e)
            return ('other', '%s: %s' % (type(e).__name__, e))
        bad = [z3.BoolVal((o._x_buf.store.writes, o._y_buf.store.writes) != w0)]
        after = _scalars(o)
        for k in before:
            bad.append(_neq(before[k], after.get(k)))
        return ('ok', bad)

    for ctx, res in explore(body):
        if res is None:
            continue
        ob += 1
        base = dict(kind='si_guard', S=S, M=M, D=D, style=style)
        if res[0] != 'ok':
            wv = {}
            try:
                m = ctx.model()
                wv = dict(N=m.eval(z3.Int('N'), True).as_long(), bl=m.eval(z3.Int('bl'), True).as_long())
            except BaseException as e:
                if not isinstance(e, Exception) and not isinstance(e, symex.Abort):
                    raise
            viol.append(dict(base, what='mid-utterance call not refused with ValueError', detail=str(res[1]), **wv))
            continue
        s = ctx.solver
        s.push()
        s.add(z3.Or(res[1]))
        r = check_sat(s)
        if r == 'sat':
            viol.append(dict(base, what='refused call disturbed the utterance in progress'))
        else:
            dis += 1
        s.pop()
    for w in viol:
        w['class'] = 'si_guard/%s' % w['what']
    return dict(obligations=ob, discharged=dis, violations=viol, samples=[], twin=ob > 0)


def run_ast(cfg):
    """the per-frame routines must not assign instance state (assumption used by C01/C04 recorders): decided
    syntactically on the current source (STFT._compute_frame)."""
    import ast
    from vlib import loader
    tree = ast.parse(loader.read_source('compute'))
    viol = []
    ob = 0
    for cls in [n for n in tree.body if isinstance(n, ast.ClassDef) and n.name == 'ShortTimeFourierTransformFrameComputer']:
        for fn in [n for n in cls.body if isinstance(n, ast.FunctionDef) and n.name == '_compute_frame']:
            ob += 1
            for node in ast.walk(fn):
                tgts = []
                if isinstance(node, ast.Assign):
                    tgts = node.targets
                elif isinstance(node, (ast.AugAssign, ast.AnnAssign)):
                    tgts = [node.target]
                for t in tgts:
                    sub = t
                    while isinstance(sub, ast.Subscript):   # self._buf[...] = ... writes instance state too
                        sub = sub.value
                    if True:
                        if isinstance(sub, ast.Attribute) and isinstance(sub.value, ast.Name) and sub.value.id == 'self':
                            viol.append(dict(kind='ast', what='STFT _compute_frame assigns self.%s (line %d)' % (sub.attr, node.lineno),
                                             **{'class': 'ast/state-write'}))
    if ob == 0:
        raise Inconclusive('STFT._compute_frame not found')
    return dict(obligations=ob, discharged=ob - (1 if viol else 0), violations=viol, samples=[], twin=True)


def run_config(cfg):
    return {'stft_reset': run_stft_reset, 'stft_dead': run_stft_dead, 'stft_guard': run_stft_guard,
            'stft_dtype': run_stft_dtype, 'si_dtype': run_si_dtype, 'si_reset': run_si_reset, 'si_dead': run_si_dead, 'si_guard': run_si_guard, 'ast': run_ast}[cfg['kind']](cfg)


# ------------------------------------------------------------------ replay on the real library

def _feats(c, xs, cuts):
    import numpy as np
    out, o = [], 0
    for k in cuts:
        out.append(c.compute_chunk(xs[o:o + k]))
        o += k
    out.append(c.finalize())
    return np.concatenate(out)


def replay(w):
    """abstract (inductive) counterexamples are confirmed by a bounded search over concrete histories on real computers:
    previous utterance (length, cuts, number of finalize calls) x next utterance; compare with a fresh instance bit for bit."""
    import numpy as np
    k = w['kind']
    rng = np.random.RandomState(11)
    if k == 'ast':
        # a state write in the per-frame routine invalidates the recorder abstraction; whether it breaks the property is
        # decided on real computers (bounded history search), otherwise the finding stays without verdict
        r = _replay_with('stft_dead', lambda: sc.real_stft(5, 2, 'centered', False), range(0, 17), [13, 5, 3, 15], rng)
        r['detail'] = '%s; %s' % (w['what'], r['detail'])
        return r
    if k == 'si_dtype':
        d1, d2 = (np.float32, np.float64) if w.get('first32', True) else (np.float64, np.float32)
        for S_ in (w['S'], 9):
            for N1 in sorted(set([w.get('N1', 3), 1, 5, 40, 200])):
                for N2 in sorted(set([w.get('N2', 5), 7, 60, 300])):
                    c = si.real_si(S_, None, w['style'])
                    x1, x2 = rng.randn(N1).astype(d1), (rng.randn(N2) * 3).astype(d2)
                    c0 = max(0, min(N2, w.get('c0', N2 // 2)))
                    try:
                        c.compute_chunk(x1)
                        c.finalize()
                        a = _feats(c, x2, [c0, N2 - c0])
                        b = _feats(si.real_si(S_, None, w['style']), x2, [c0, N2 - c0])
                    except Exception as e:
                        return {'reproduced': True, 'detail': 'SI computer (frame shift %d, %s): after a %s utterance of %d samples, a %s utterance of %d samples raised %s: %s' % (
                            c._frame_shift, w['style'], np.dtype(d1).name, N1, np.dtype(d2).name, N2, type(e).__name__, str(e)[:80])}
                    if a.shape != b.shape or not np.array_equal(a, b):
                        return {'reproduced': True, 'detail': 'SI computer: %s utterance after a %s utterance is not bit-identical to a fresh instance' % (np.dtype(d2).name, np.dtype(d1).name)}
        return {'reproduced': False, 'detail': 'bit-identical to a fresh instance for alternating dtypes'}
    if k == 'stft_dtype':
        L, S, style, kaldi = w['L'], w['S'], w['style'], w['kaldi']
        d1, d2 = (np.float32, np.float64) if w.get('first32', True) else (np.float64, np.float32)
        worst = 0.0
        for N1 in sorted(set([w.get('N1', 3), 1, L, 2 * L + 1])):
            for N2 in sorted(set([w.get('N2', L), L, 2 * L + S, 3 * L + 1])):
                x1 = rng.randn(N1).astype(d1)
                x2 = (rng.randn(N2) * 3).astype(d2)
                c0 = max(0, min(N2, w.get('c0', N2 // 2)))
                c = sc.real_stft(L, S, style, kaldi)
                try:
                    c.compute_chunk(x1)
                    c.finalize()
                    a = _feats(c, x2, [c0, N2 - c0])
                    b = _feats(sc.real_stft(L, S, style, kaldi), x2, [c0, N2 - c0])
                except Exception as e:
                    return {'reproduced': True, 'detail': 'raised %s: %s' % (type(e).__name__, e)}
                if a.shape != b.shape or not np.array_equal(a, b):
                    return {'reproduced': True, 'detail': 'L=%d S=%d %s kaldi=%s: after a %s utterance (N=%d) the %s utterance (N=%d, cuts [%d, %d]) is not bit-identical to a fresh instance (max diff %.3g)' % (
                        L, S, style, kaldi, np.dtype(d1).name, N1, np.dtype(d2).name, N2, c0, N2 - c0, float(np.abs(a - b).max()) if a.shape == b.shape else float('nan'))}
        return {'reproduced': False, 'detail': 'bit-identical to a fresh instance for alternating dtypes'}
    if k.startswith('stft'):
        L, S, style, kaldi = w['L'], w['S'], w['style'], w['kaldi']
        return _replay_with(k, lambda: sc.real_stft(L, S, style, kaldi), range(0, 3 * L + 2), [2 * L + 3, L, L // 2 + 1, 3 * L], rng, w)
    style = w['style']
    last = None
    for S in (w['S'], 9, 16):
        mk = (lambda S: lambda: si.real_si(S, None, style))(S)
        c0 = mk()
        lens = sorted(set(list(range(0, 12)) + [c0._frame_shift // 2 - 1, c0._frame_shift // 2, c0._translation, c0._translation + 1,
                                                c0._frame_length, c0._dft_size, c0._dft_size + 3]))
        last = _replay_with(k, mk, [n for n in lens if n >= 0], [c0._dft_size + 7, 3 * c0._frame_shift], rng, w)
        if last['reproduced']:
            return last
    return last


def _replay_with(k, mk, lens, nxt, rng, w=None):
    import numpy as np
    c = mk()
    if k.endswith('guard'):
        from pydrobert.speech.compute import frame_by_frame_calculation
        w = w or {}
        for chunk in ([w['bl']] if 'bl' in w else []) + [3]:        # the witness' buffered length first
            for n in ([w['N']] if 'N' in w else []) + [40, 0, 1]:    # ... and its signal length
                c = mk()
                c.compute_chunk(rng.randn(chunk))
                if not c.started:
                    continue
                for name, call in (('compute_full', lambda: c.compute_full(rng.randn(n))),
                                   ('frame_by_frame_calculation', lambda: frame_by_frame_calculation(c, rng.randn(n)))):
                    try:
                        call()
                        return {'reproduced': True, 'detail': '%s of a %d-sample signal did not raise while started (%d samples buffered)' % (name, n, chunk)}
                    except ValueError:
                        pass
                    except Exception as e:
                        return {'reproduced': True, 'detail': '%s raised %s instead of ValueError' % (name, type(e).__name__)}
                    # the refused call must leave the utterance in progress alone: it continues as if nothing had happened
                    if not c.started:
                        return {'reproduced': True, 'detail': 'after the refused %s (%d samples buffered) the computer is no longer started: the utterance in progress was finalized / reset' % (name, chunk)}
        for chunk in ([w['bl']] if w.get('bl') else []) + [3, 1]:
            for name in ('compute_full', 'frame_by_frame_calculation'):
                xs = rng.randn(nxt[0] + chunk)
                c, ref = mk(), mk()
                parts, parts_ref = [c.compute_chunk(xs[:chunk])], [ref.compute_chunk(xs[:chunk])]
                if not c.started:
                    continue
                try:
                    (c.compute_full if name == 'compute_full' else (lambda s_: frame_by_frame_calculation(c, s_)))(rng.randn(nxt[1] if len(nxt) > 1 else 9))
                except ValueError:
                    pass
                try:
                    parts += [c.compute_chunk(xs[chunk:]), c.finalize()]
                except Exception as e:
                    return {'reproduced': True, 'detail': 'continuing the utterance after the refused %s raised %s: %s' % (name, type(e).__name__, e)}
                parts_ref += [ref.compute_chunk(xs[chunk:]), ref.finalize()]
                a, b = np.concatenate(parts), np.concatenate(parts_ref)
                if a.shape != b.shape or not np.array_equal(a, b):
                    return {'reproduced': True, 'detail': 'utterance of %d samples interrupted after %d by a refused %s: %d frames, undisturbed %d frames%s' % (
                        len(xs), chunk, name, a.shape[0], b.shape[0], '' if a.shape != b.shape else ' (values differ)')}
        # ... also when the refused signal has another sample type than the utterance, and finalize() follows directly
        f32 = bool(w.get('utt_f32'))
        for ut, other in ((np.float32, np.float64), (np.float64, np.float32)) if f32 else ((np.float64, np.float32), (np.float32, np.float64)):
            for name in ('compute_full', 'frame_by_frame_calculation'):
                for n_utt in (nxt[0] + 3, 2 * nxt[0] + 1, 5):
                    xs = rng.randn(n_utt).astype(ut)
                    c, ref = mk(), mk()
                    parts, parts_ref = [c.compute_chunk(xs)], [ref.compute_chunk(xs)]
                    if not c.started:
                        continue
                    try:
                        (c.compute_full if name == 'compute_full' else (lambda s_: frame_by_frame_calculation(c, s_)))(rng.randn(w.get('N', 9)).astype(other))
                    except ValueError:
                        pass
                    except Exception as e:
                        return {'reproduced': True, 'detail': '%s raised %s instead of ValueError' % (name, type(e).__name__)}
                    parts.append(c.finalize())
                    parts_ref.append(ref.finalize())
                    for a, b in zip(parts, parts_ref):
                        if a.shape != b.shape or a.dtype != b.dtype or not np.array_equal(a, b):
                            return {'reproduced': True, 'detail': '%s utterance of %d samples, a refused %s with a %s signal, then finalize(): the flushed frames are %s %s, undisturbed %s %s%s' % (
                                np.dtype(ut).name, n_utt, name, np.dtype(other).name, a.dtype, a.shape, b.dtype, b.shape,
                                '' if (a.shape != b.shape or a.dtype != b.dtype) else ' (values differ by up to %.3g)' % float(np.max(np.abs(a.astype(float) - b.astype(float)))))}
        return {'reproduced': False, 'detail': 'guards raise ValueError on the real library and leave the utterance in progress alone'}
    for N1 in lens:
        x1 = rng.randn(N1)
        for cuts1 in ([], [N1], [0, N1], [N1 // 2, N1 - N1 // 2], [N1, 0]):
            if not cuts1 and N1:
                continue
            for nfin in (1, 2):
                c = mk()
                try:
                    o = 0
                    for kk in cuts1:
                        c.compute_chunk(x1[o:o + kk])
                        o += kk
                        if not c.started:
                            return {'reproduced': True, 'detail': 'started is False after compute_chunk (N1=%d cuts=%s)' % (N1, cuts1)}
                    for _ in range(nfin):
                        r = c.finalize()
                    if nfin == 2 and len(r):
                        return {'reproduced': True, 'detail': 'second finalize returned %d frames (N1=%d cuts=%s)' % (len(r), N1, cuts1)}
                    if c.started:
                        return {'reproduced': True, 'detail': 'started still True after finalize (previous utterance N=%d cuts=%s)' % (N1, cuts1)}
                    for N2 in nxt:
                        x2 = rng.randn(N2)
                        x2.setflags(write=False)
                        a = _feats(c, x2, [N2 // 3, N2 - N2 // 3])
                        b = _feats(mk(), x2, [N2 // 3, N2 - N2 // 3])
                        if a.shape != b.shape or (a.size and not np.array_equal(a, b)):
                            return {'reproduced': True, 'detail': 'after utterance N=%d cuts=%s (+%d finalize) the next utterance (N=%d) differs from a fresh instance: max diff %s'
                                    % (N1, cuts1, nfin, N2, (np.abs(a - b).max() if a.shape == b.shape else (a.shape, b.shape)))}
                except Exception as e:
                    return {'reproduced': True, 'detail': 'history N1=%d cuts=%s raised %s: %s' % (N1, cuts1, type(e).__name__, e)}
    return {'reproduced': False, 'detail': 'no concrete history in the search neighbourhood reproduces'}
