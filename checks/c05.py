"""C05 -- filter banks are laid out on the scale as documented, with unit gain (DESIGN 3/C05)."""
import itertools
import math

import z3

from vlib import symex
from vlib.mathnp import LOGEXP
from vlib.nd import ND
from vlib.symex import Ctx, SInt, SReal, _z, rv, decide, explore, check_sat, Inconclusive, nra_check
from checks import filters_common as fc

PID = 'C05'
LEVEL = 'model_checking'
FUNCTIONS = ['filters:TriangularOverlappingFilterBank.__init__', 'filters:Fbank.__init__', 'filters:GaborFilterBank.__init__',
             'filters:ComplexGammatoneFilterBank.__init__', 'filters:TriangularOverlappingFilterBank.get_frequency_response',
             'filters:Fbank.get_frequency_response', 'filters:TriangularOverlappingFilterBank.get_truncated_response', 'filters:Fbank.get_truncated_response']
EXPLANATION = (
    'The real bank constructors run on symbolic reals (low_hz, high_hz; concrete sampling rates incl. odd ones), with the '
    'scaling function replaced by an uninterpreted strictly increasing bijection and log/exp/sqrt by uninterpreted functions '
    'with their axioms instantiated on the occurring terms. z3 decides: range validation (ValueError exactly as the property '
    'states, construction succeeds on every valid range), equal spacing of vertices / edges in the scale domain, strictly '
    'increasing centres that lie inside supports_hz and inside [0, Nyquist], and - in the log domain, linear arithmetic - that '
    'the bandwidth and normalisation constants computed by the constructor satisfy the documented closed forms (Gabor / '
    'gammatone 3 dB crossing, ERB = edge spacing, unit peak gain, unit L2 norm with scale_l2_norm). Triangular / Fbank '
    'responses are executed with symbolic vertices and a symbolic DFT bin and compared with the documented triangle.')
BOUNDS = {'quick': 'num_filts 1-3 (Gabor 1-2, gammatone 1); sampling rates 8000, 16000, 11025; gammatone orders 1-6; triangle: DFT widths 8, 9, 64 with filters spanning <= 4 bins',
          'thorough': 'num_filts 1-5 (Gabor 1-3, gammatone 1); orders 1-8; widths 8, 9, 64, 127, 512'}
OUTSIDE = ['discrete-time norm vs the continuous closed form (||h||_2 = 1 is checked for the continuous formula)', 'floating point',
           'responses whose support spans half the sampling rate or more (periodic images overlap: excluded by the property)',
           'the strip nyquist < high_hz <= nyquist + 1 (left unspecified by the property)']
ASSUMPTIONS = ['closed forms (trusted lemmas from the class docstrings): Gabor |H(w)|^2 = exp(-s^2 (w-xi)^2) (* const), ERB = sqrt(pi)/s, ||H||^2/2pi = 1 <=> const = sqrt(2 s) pi^(1/4); '
               'gammatone |H(xi+d)|^2/|H(xi)|^2 = (a^2/(a^2+d^2))^n, ERB = a pi (2n-2)!/(2^(2n-2) ((n-1)!)^2), peak c (n-1)!/a^n, ||h||^2 = c^2 (2n-2)!/(2a)^(2n-1)',
               'scaling function: any strictly increasing bijection (uninterpreted); Fbank: mel via uninterpreted log/exp inverse pair']
CONFIG_TIME_LIMIT = {'quick': 900, 'thorough': 3000}
RATES = (8000, 16000, 11025)


def configs(tier, seed):
    cfgs = []
    for cls in fc.BANKS:
        for rate in RATES:
            cfgs.append(dict(kind='range', name='range %s rate%d' % (cls, rate), cls=cls, rate=rate))
        for nf in ((1, 2, 3) if tier == 'quick' else (1, 2, 3, 4, 5)):
            if cls == 'GaborFilterBank' and nf > (2 if tier == 'quick' else 3):
                continue
            if cls == 'ComplexGammatoneFilterBank' and nf > 1:
                continue      # nonlinear support arithmetic: two filters are decided by nlsat only without load (unknown under load): kept out of both tiers
            cfgs.append(dict(kind='layout', name='layout %s nf%d' % (cls, nf), cls=cls, nf=nf))
        # ranges reaching into the unspecified strip (Nyquist, Nyquist + 1]: the constructor may reject them, but whatever it
        # accepts must be a sane bank (centres increasing, inside their supports, within [0, Nyquist])
        cfgs.append(dict(kind='layout', name='layout %s nf2 strip' % cls, cls=cls, nf=2, strip=True))
    for erb, l2 in itertools.product((False, True), (False, True)):
        cfgs.append(dict(kind='consts', name='consts gabor erb=%s l2=%s' % (erb, l2), cls='GaborFilterBank', erb=erb, l2=l2, order=0))
        for order in (range(1, 7) if tier == 'quick' else range(1, 9)):
            cfgs.append(dict(kind='consts', name='consts gammatone n%d erb=%s l2=%s' % (order, erb, l2), cls='ComplexGammatoneFilterBank', erb=erb, l2=l2, order=order))
    for cls in ('TriangularOverlappingFilterBank', 'Fbank'):
        for width in ((8, 9, 64) if tier == 'quick' else (8, 9, 64, 127, 512)):
            for analytic in (False, True):
                cfgs.append(dict(kind='triangle', name='triangle %s w%d analytic=%s' % (cls, width, analytic), cls=cls, width=width, analytic=analytic))
    return cfgs


def _fval(m, name):
    v = m.eval(z3.Real(name), model_completion=True)
    try:
        return float(v.as_fraction()) if z3.is_rational_value(v) else float(v.approx(12).as_fraction())
    except Exception:
        return 0.0


# ------------------------------------------------------------------ S2: range validation

def run_range(cfg):
    cls, rate = cfg['cls'], cfg['rate']
    ns = fc.load_filters()
    fc.stub_alias(ns)
    fc.stub_newton(ns)
    viol = []
    ob = dis = 0
    nyq = z3.RealVal(rate) / 2

    def body():
        c = Ctx.cur
        low, high = z3.Real('low_hz'), z3.Real('high_hz')
        c.assume(low >= -100, low <= rate, high >= -100, high <= rate)
        has_high = decide(z3.Bool('high_given'))
        try:
            fc.construct(ns, cls, SReal(low), SReal(high) if has_high else None, rate, 1)
        except ValueError as e:
            return ('valueerror', has_high)
        except Exception as e:
            symex.guard(e)
            return ('exception', has_high, '%s: %s' % (type(e).__name__, e))
        return ('constructed', has_high)

    for ctx, res in explore(body, max_paths=4000):
        if res is None:
            continue
        ob += 1
        low, high = z3.Real('low_hz'), z3.Real('high_hz')
        has_high = res[1]
        if has_high:
            must_reject = z3.Or(low < 0, z3.And(high > 0, high <= low), high > nyq + 1)
            valid = z3.And(low >= 0, low < high, high <= nyq)
        else:
            must_reject = low < 0
            valid = z3.And(low >= 0, low < nyq)
        s = ctx.solver
        if res[0] == 'valueerror':
            bad, what = valid, 'valid range rejected with ValueError'
        elif res[0] == 'constructed':
            bad, what = must_reject, 'invalid range accepted'
        else:
            bad, what = z3.BoolVal(True), 'constructor raised ' + res[2]
        r, s2 = nra_check(list(s.assertions()) + [bad], timeout_ms=60000)
        if r == 'sat':
            m = s2.model()
            viol.append(dict(kind='range', cls=cls, rate=rate, what=what, low_hz=_fval(m, 'low_hz'), high_hz=_fval(m, 'high_hz') if has_high else None))
        elif r == 'unsat':
            dis += 1
        else:
            raise Inconclusive('range query %s' % r)
    for w in viol:
        hi = w['high_hz']
        odd_strip = hi is not None and rate // 2 < hi <= rate / 2
        w['class'] = 'range/%s/%s/%s' % (cls, w['what'].split(' with')[0], 'odd-rate-strip' if odd_strip else ('default-high' if hi is None else 'other'))
    return dict(obligations=ob, discharged=dis, violations=viol, samples=[{'config': cfg['name'], 'paths': ob}], twin=dis > 0)


# ------------------------------------------------------------------ S1: layout

def run_layout(cfg):
    cls, nf = cfg['cls'], cfg['nf']
    ns = fc.load_filters()
    fc.stub_alias(ns)
    fc.stub_newton(ns)
    rate = 16000
    viol = []
    ob = dis = 0

    def body():
        c = Ctx.cur
        low, high = z3.Real('low_hz'), z3.Real('high_hz')
        strip = cfg.get('strip', False)
        c.assume(low >= 0, low < high, high <= (rate / 2 + 1 if strip else rate / 2))
        if strip:
            c.assume(high > rate / 2)
        # Gabor constructor: square roots of expressions that are not non-negative by construction (support half-widths);
        # outside its domain np.sqrt yields NaN, which the following int() rejects
        symex.SQRT_DOMAIN = (cls == 'GaborFilterBank')
        try:
            b = fc.construct(ns, cls, SReal(low), SReal(high), rate, nf)
        except ValueError as e:
            if strip:
                return ('rejected',)
            return ('exception', 'ValueError: %s' % e)
        except Exception as e:
            symex.guard(e)
            return ('exception', '%s: %s' % (type(e).__name__, e))
        finally:
            symex.SQRT_DOMAIN = False
        if strip:
            centers = [rv(v) for v in b.centers_hz]
            sup = [(rv(l), rv(h)) for l, h in b.supports_hz]
            bad = [z3.BoolVal(len(centers) != nf)]
            for i in range(len(centers) - 1):
                bad.append(centers[i] >= centers[i + 1])
            for i in range(len(centers)):
                bad += [centers[i] <= sup[i][0], centers[i] >= sup[i][1], centers[i] < 0, centers[i] > rate / 2]
            return ('ok', bad)
        if cls in ('TriangularOverlappingFilterBank', 'Fbank'):
            pts = [rv(v) for v in b._vertices]
            if len(pts) != nf + 2:
                return ('count', len(pts))
        else:
            pts = None
        centers = [rv(v) for v in b.centers_hz]
        sup = [(rv(l), rv(h)) for l, h in b.supports_hz]
        if len(centers) != nf or len(sup) != nf or b.num_filts != nf:
            return ('count', len(centers))
        bad = []
        if cls == 'Fbank':
            h2s = lambda v: 1127 * LOGEXP.f(1 + v / 700)
        else:
            h2s = lambda v: fc.SCALE.f(v)
        if pts is not None:
            # vertices: first = low, last = high, equally spaced in the scale domain
            bad += [pts[0] != low, pts[-1] != high]
            d0 = h2s(pts[1]) - h2s(pts[0])
            for i in range(1, len(pts) - 1):
                bad.append(h2s(pts[i + 1]) - h2s(pts[i]) != d0)
            for i in range(nf):
                bad += [centers[i] != pts[i + 1], sup[i][0] != pts[i], sup[i][1] != pts[i + 2]]
        else:
            # Gabor / gammatone: centre i is the midpoint (in Hz) of edges e_i, e_{i+1}; edges are equally spaced in the
            # scale domain, half a step inside [low, high]: h2s(e_i) = h2s(low) + delta (i + 1/2), delta = (h2s(high)-h2s(low))/(nf+1)
            delta = (h2s(high) - h2s(low)) / (nf + 1)
            edges = [z3.Real('edge%d' % i) for i in range(nf + 1)]
            for i, e in enumerate(edges):
                c.solver.add(h2s(e) == h2s(low) + delta * (i + z3.RealVal('1/2')), fc.SCALE.g(h2s(e)) == e)
            for i in range(nf):
                bad.append(centers[i] != (edges[i] + edges[i + 1]) / 2)
        for i in range(nf - 1):
            bad.append(centers[i] >= centers[i + 1])
        for i in range(nf):
            bad += [centers[i] <= sup[i][0], centers[i] >= sup[i][1], centers[i] < 0, centers[i] > rate / 2]
        return ('ok', bad)

    for ctx, res in explore(body, max_paths=500):
        if res is None:
            continue
        ob += 1
        if res[0] == 'rejected':
            dis += 1
            continue
        if res[0] != 'ok':
            m = ctx.model()
            viol.append(dict(kind='layout', cls=cls, nf=nf, what='%s %s' % (res[0], res[1]), low_hz=_fval(m, 'low_hz'), high_hz=_fval(m, 'high_hz')))
            continue
        r, s2 = nra_check(list(ctx.solver.assertions()) + [z3.Or(res[1])], timeout_ms=100000)
        if r == 'sat':
            m = s2.model()
            viol.append(dict(kind='layout', cls=cls, nf=nf, what='layout', low_hz=_fval(m, 'low_hz'), high_hz=_fval(m, 'high_hz')))
        elif r == 'unsat':
            dis += 1
        else:
            raise Inconclusive('layout query %s' % r)
    for w in viol:
        w['class'] = 'layout/%s/%s' % (cls, w['what'].split()[0])
    return dict(obligations=ob, discharged=dis, violations=viol, samples=[{'config': cfg['name']}], twin=dis > 0)


# ------------------------------------------------------------------ S3: constants in the log domain

def run_consts(cfg):
    cls, erb, l2, order = cfg['cls'], cfg['erb'], cfg['l2'], cfg['order']
    ns = fc.load_filters(decimal=False)
    fc.stub_alias(ns)
    fc.stub_newton(ns)
    rate = 16000
    viol = []
    ob = dis = 0
    tol = z3.RealVal('1/1000000000')

    def body():
        c = Ctx.cur
        low, high = z3.Real('low_hz'), z3.Real('high_hz')
        c.assume(low >= 0, low < high, high <= rate / 2)
        kw = dict(erb=erb, scale_l2_norm=l2)
        if cls == 'ComplexGammatoneFilterBank':
            kw['order'] = order
        try:
            b = fc.construct(ns, cls, SReal(low), SReal(high), rate, 1, **kw)
        except Exception as e:
            symex.guard(e)
            return ('exception', '%s: %s' % (type(e).__name__, e))
        ln2, lnpi = math.log(2), math.log(math.pi)
        obl = {}
        if cls == 'GaborFilterBank':
            std = rv(b._stds[0])
            # the two edges of the (single) filter are the S2H(...) applications in the centre term; half the edge
            # spacing in rad/sample is d = (e_hi - e_lo)/2 * 2 pi / rate
            es = _uf_apps([rv(b._centers_hz[0])], 'S2H')
            if len(es) != 2:
                return ('structure', 'centre is not the midpoint of two edges')
            e_a, e_b = es
            d = z3.If(e_a >= e_b, e_a - e_b, e_b - e_a) / 2 * rv(2 * math.pi / rate)
            if erb:
                # ERB = sqrt(pi)/std must equal the edge spacing 2 d  <=>  std * d = sqrt(pi)/2
                obl['ERB equals edge spacing'] = std * d - rv(math.sqrt(math.pi) / 2)
            else:
                # |H(edge)|^2 / |H(xi)|^2 = exp(-std^2 d^2) = 10^(-3/10)  <=>  std * d = sqrt(0.3 ln 10)
                obl['3 dB crossing at the edges'] = std * d - rv(math.sqrt(0.3 * math.log(10)))
            return ('gabor', b, obl, None)
        n = order
        la = rv(b._alphas[0])
        lc = rv(b._cs[0])
        if not (z3.is_app(la) and la.decl().name() == 'EXP' and z3.is_app(lc) and lc.decl().name() == 'EXP'):
            return ('structure', 'alpha / c are not exp(...) of a log-domain expression')
        la, lc = la.arg(0), lc.arg(0)
        bw = z3.Real('log_edge_spacing_rad')      # log of hertz_to_angular(right - left)
        lf, ldf = math.log(math.factorial(n - 1)), math.log(math.factorial(2 * n - 2))
        if erb:
            obl['ERB equals edge spacing'] = la + rv(lnpi + ldf - 2 * lf - (2 * n - 2) * ln2) - bw
        else:
            obl['3 dB crossing at the edges'] = la - (bw - rv(ln2 + 0.5 * math.log(2 ** (1.0 / n) - 1)))
        if l2:
            obl['unit L2 norm'] = 2 * lc + rv(ldf) - (2 * n - 1) * (la + rv(ln2))
        else:
            obl['unit peak gain'] = lc + rv(lf) - n * la
        return ('gammatone', b, obl, bw)

    for ctx, res in explore(body, max_paths=200):
        if res is None:
            continue
        if res[0] in ('exception', 'structure'):
            ob += 1
            viol.append(dict(kind='consts', cls=cls, erb=erb, l2=l2, order=order, what='%s: %s' % (res[0], res[1])))
            continue
        kind, b, obl, aux = res
        s = ctx.solver
        if kind == 'gammatone':
            # the only LOG of a symbolic quantity in log_alpha is LOG(hertz_to_angular(right - left)): name it
            logs = [t for t in _uf_apps(list(obl.values()), 'LOG')]
            if not logs:
                ob += 1
                viol.append(dict(kind='consts', cls=cls, erb=erb, l2=l2, order=order, what='structure: no LOG term in log(alpha)'))
                continue
            # syntactically different occurrences are LOG of the same (linear) argument: congruence relates them
            for t in logs:
                s.add(z3.Implies(t.arg(0) == logs[0].arg(0), t == logs[0]))
            s.add(aux == logs[0])
        for name, e in obl.items():
            ob += 1
            r, s2 = nra_check(list(s.assertions()) + [z3.Or(e > tol, e < -tol)], timeout_ms=60000)
            if r == 'sat':
                viol.append(dict(kind='consts', cls=cls, erb=erb, l2=l2, order=order, what=name, residual=str(z3.simplify(s2.model().eval(e, True)))[:60]))
            elif r == 'unsat':
                dis += 1
            else:
                raise Inconclusive('consts query %s' % r)
        if kind == 'gabor':
            # constants of the responses themselves (peak gain / L2 norm) are checked on get_frequency_response in C07-S4;
            # here: std > 0 and supports symmetric about the centre
            pass
    for w in viol:
        w['class'] = 'consts/%s/%s' % ('gabor' if cls.startswith('Gabor') else 'gammatone', w['what'].split(':')[0])
    return dict(obligations=ob, discharged=dis, violations=viol, samples=[{'config': cfg['name'], 'obligations': ob}], twin=dis > 0)


def _uf_apps(terms, name):
    seen = {}

    def walk(t):
        if z3.is_app(t):
            if t.decl().name() == name and t.num_args() == 1:
                seen[t.get_id()] = t
            for a in t.children():
                walk(a)
    for t in terms:
        walk(t)
    return list(seen.values())


# ------------------------------------------------------------------ S4: triangle per DFT bin

def run_triangle(cfg):
    cls, width, analytic = cfg['cls'], cfg['width'], cfg['analytic']
    ns = fc.load_filters()
    rate = 8000
    viol = []
    ob = dis = 0
    T = ns[cls]

    def body():
        c = Ctx.cur
        l, m, r = z3.Reals('l m r')
        c.assume(0 <= l, l < m, m < r, r <= rate / 2, (r - l) * width <= 4 * rate)
        b = fc.handbuilt(ns, cls, _rate=rate, _analytic=analytic, _vertices=(SReal(l), SReal(m), SReal(r)))
        try:
            full = b.get_frequency_response(0, width)
        except Exception as e:
            symex.guard(e)
            return ('exception', '%s: %s' % (type(e).__name__, e))
        k = z3.Int('k')
        c.assume(k >= 0, k < width)
        hz = z3.ToReal(k) * rate / width
        mirror_hz = z3.ToReal(width - k) * rate / width

        def tri(f):
            if cls == 'Fbank':
                mel = lambda v: 1127 * LOGEXP.f(1 + v / 700)
                up = (mel(f) - mel(l)) / (mel(m) - mel(l))
                dn = (mel(r) - mel(f)) / (mel(r) - mel(m))
                val = z3.If(f <= m, up, dn)
                return z3.If(z3.And(f >= l, f <= r), symex.SQRT(val), z3.RealVal(0)), val
            up = (f - l) / (m - l)
            dn = (r - f) / (r - m)
            val = z3.If(f <= m, up, dn)
            return z3.If(z3.And(f >= l, f <= r), val, z3.RealVal(0)), val
        want, _ = tri(hz)
        if not analytic:
            wm, _ = tri(mirror_hz)
            want = z3.If(z3.And(hz >= l, hz <= r), want, z3.If(k != 0, wm, z3.RealVal(0)))
        got = full.get(k)
        return ('ok', [got != want])

    for ctx, res in explore(body, max_paths=3000):
        if res is None:
            continue
        ob += 1
        if res[0] != 'ok':
            mm = ctx.model()
            viol.append(dict(kind='triangle', cls=cls, width=width, analytic=analytic, what=res[1], l=_fval(mm, 'l'), m=_fval(mm, 'm'), r=_fval(mm, 'r'), k=0))
            continue
        s = ctx.solver
        s.push()
        s.add(z3.Or(res[1]))
        r = check_sat(s)
        if r == 'sat':
            mm = s.model()
            viol.append(dict(kind='triangle', cls=cls, width=width, analytic=analytic, what='bin value differs from the documented triangle',
                             l=_fval(mm, 'l'), m=_fval(mm, 'm'), r=_fval(mm, 'r'), k=mm.eval(z3.Int('k'), True).as_long()))
        else:
            dis += 1
        s.pop()
    for w in viol:
        w['class'] = 'triangle/%s/%s' % (cls, w['what'].split()[0])
    return dict(obligations=ob, discharged=dis, violations=viol, samples=[{'config': cfg['name'], 'paths': ob}], twin=dis > 0)


def run_config(cfg):
    return {'range': run_range, 'layout': run_layout, 'consts': run_consts, 'triangle': run_triangle}[cfg['kind']](cfg)


# ------------------------------------------------------------------ replay on the real banks

def replay(w):
    import numpy as np
    from pydrobert.speech import filters, scales
    k = w['kind']
    C = getattr(filters, w['cls'])
    try:
        if k == 'range':
            args = dict(num_filts=2, low_hz=w['low_hz'], high_hz=w['high_hz'], sampling_rate=w['rate'])
            ny = w['rate'] / 2
            lo, hi = w['low_hz'], w['high_hz']
            try:
                b = C(**args) if w['cls'] == 'Fbank' else C('mel', **args)
                acc = True
            except ValueError:
                acc = False
            valid = lo >= 0 and ((hi is None and lo < ny) or (hi is not None and lo < hi <= ny))
            must_reject = lo < 0 or (hi is not None and ((hi > 0 and hi <= lo) or hi > ny + 1))
            bad = (valid and not acc) or (must_reject and acc)
            return {'reproduced': bad, 'detail': '%s(low_hz=%r, high_hz=%r, sampling_rate=%d) %s' % (w['cls'], lo, hi, w['rate'], 'constructed' if acc else 'raised ValueError')}
        if k == 'consts':
            return _replay_consts(w, C, np)
        if k == 'layout':
            # the witness range first; further ranges because the solver's real arithmetic cannot name the doubles at which a
            # floating-point effect (e.g. the length of a float np.arange) strikes
            cands = [(max(0.0, w.get('low_hz', 20.0)), min(8001.0, max(w.get('high_hz', 4000.0), 100.0)))]
            cands += [(lo_, hi_) for lo_ in (20.0, 0.0, 64.0, 133.3) for hi_ in (4000.0, 3800.0, 8000.0, 7600.0, 6855.5)]
            if str(w.get('what', '')).startswith('exception'):
                cands += [(1000.0, 1001.0), (60.0, 60.5), (7000.0, 7003.0)]       # very narrow bands (filters a fraction of a hertz wide)
            for (lo, hi), sc in itertools.product(cands, (scales.MelScaling(), scales.BarkScaling(), scales.LinearScaling(0.0))):
                if lo >= hi:
                    lo, hi = 20.0, 4000.0
                if hi > 8000.0:
                    # strip (Nyquist, Nyquist+1]: an accepted range must still give a sane bank
                    try:
                        b = C(num_filts=w['nf'], low_hz=lo, high_hz=hi, sampling_rate=16000) if w['cls'] == 'Fbank' else C(sc, num_filts=w['nf'], low_hz=lo, high_hz=hi, sampling_rate=16000)
                    except ValueError:
                        continue
                    cs = list(b.centers_hz)
                    if any(not (a < b2) for a, b2 in zip(cs, cs[1:])) or any(not (l < c < h) for c, (l, h) in zip(cs, b.supports_hz)) or any(not (0 <= c <= 8000) for c in cs):
                        return {'reproduced': True, 'detail': '%s accepted low_hz=%r high_hz=%r at 16 kHz: centres %s supports %s' % (w['cls'], lo, hi, cs, b.supports_hz)}
                    continue
                b = C(num_filts=w['nf'], low_hz=lo, high_hz=hi, sampling_rate=16000) if w['cls'] == 'Fbank' else C(sc, num_filts=w['nf'], low_hz=lo, high_hz=hi, sampling_rate=16000)
                cs = list(b.centers_hz)
                if b.num_filts != w['nf'] or len(cs) != w['nf'] or len(b.supports_hz) != w['nf']:
                    return {'reproduced': True, 'detail': '%s(%s, num_filts=%d, low_hz=%r, high_hz=%r, sampling_rate=16000) has %d filters (%d centres)' % (w['cls'], type(sc).__name__, w['nf'], lo, hi, b.num_filts, len(cs))}
                if any(a >= b2 for a, b2 in zip(cs, cs[1:])) or any(not (l < c < h) for c, (l, h) in zip(cs, b.supports_hz)) or any(c > 8000 or c < 0 for c in cs):
                    return {'reproduced': True, 'detail': 'centres %s supports %s' % (cs, b.supports_hz)}
                scl = scales.MelScaling() if w['cls'] == 'Fbank' else sc
                if hasattr(b, '_vertices'):
                    v = [scl.hertz_to_scale(x) for x in b._vertices]
                    d = np.diff(v)
                    if not np.allclose(d, d[0], rtol=1e-9) or abs(b._vertices[-1] - hi) > 1e-6 or abs(b._vertices[0] - lo) > 1e-6:
                        return {'reproduced': True, 'detail': 'vertices %s not equally spaced between %r and %r' % (b._vertices, lo, hi)}
            return {'reproduced': False, 'detail': 'layout fine on real banks'}
        if k == 'triangle':
            width = w['width']
            for verts in ((w['l'], w['m'], w['r']), (300.0, 1000.0, 1900.0), (0.0, 500.0, 4000.0)):
                if not (0 <= verts[0] < verts[1] < verts[2] <= 4000):
                    continue
                # another bank of the same class (other rate, other vertices) was used earlier in the process
                decoy = fc.real_handbuilt(C, _rate=16000, _analytic=w['analytic'], _vertices=(100.0, 2100.0, 7900.0))
                decoy.get_frequency_response(0, width)
                b = fc.real_handbuilt(C, _rate=8000, _analytic=w['analytic'], _vertices=verts)
                # ... and the bank itself was queried before at other widths with the same number of bins
                for w0 in (2 * width - 2, 2 * width - 1):
                    if w0 >= 2:
                        b.get_frequency_response(0, w0, half=True)
                full = b.get_frequency_response(0, width)
                mel = scales.MelScaling().hertz_to_scale
                for kk in range(width):
                    hz = 8000.0 * kk / width
                    cands = [hz] if w['analytic'] or kk == 0 else [hz, 8000.0 * (width - kk) / width]
                    want = 0.0
                    for f in cands:
                        if verts[0] <= f <= verts[2]:
                            if w['cls'] == 'Fbank':
                                v = (mel(f) - mel(verts[0])) / (mel(verts[1]) - mel(verts[0])) if f <= verts[1] else (mel(verts[2]) - mel(f)) / (mel(verts[2]) - mel(verts[1]))
                                want = max(v, 0.0) ** 0.5
                            else:
                                want = (f - verts[0]) / (verts[1] - verts[0]) if f <= verts[1] else (verts[2] - f) / (verts[2] - verts[1])
                            break
                    if abs(full[kk] - want) > 1e-9:
                        return {'reproduced': True, 'detail': '%s width %d vertices %s: bin %d is %.6g, documented triangle %.6g' % (w['cls'], width, verts, kk, full[kk], want)}
            return {'reproduced': False, 'detail': 'triangles match'}
    except Exception as e:
        return {'reproduced': True, 'detail': 'real bank raised %s: %s' % (type(e).__name__, e)}
    return {'reproduced': False, 'detail': '?'}


def _replay_consts(w, C, np):
    """numerical quadrature on a real bank: 3 dB crossing / ERB / peak gain / L2 norm"""
    kw = dict(erb=w['erb'], scale_l2_norm=w['l2'])
    if w['order']:
        kw['order'] = w['order']
    b = C('mel', num_filts=6, low_hz=1500.0, high_hz=3500.0, sampling_rate=16000, **kw)
    i = 3
    width = 1 << 15
    H = np.abs(b.get_frequency_response(i, width))
    om = 2 * np.pi * np.arange(width) / width
    # edge spacing of filter i in rad: edges are the crossings between neighbouring centres in the scale domain
    from pydrobert.speech.scales import MelScaling
    sc = MelScaling()
    sl, sh = sc.hertz_to_scale(1500.0), sc.hertz_to_scale(3500.0)
    d = (sh - sl) / 7
    e0, e1 = sc.scale_to_hertz(sl + d * (i + 0.5)), sc.scale_to_hertz(sl + d * (i + 1.5))
    spacing = (e1 - e0) * 2 * np.pi / 16000
    what = w['what']
    peak = H.max()
    if 'ERB' in what:
        erb = (H ** 2).sum() * (2 * np.pi / width) / peak ** 2
        return {'reproduced': abs(erb / spacing - 1) > 3e-2, 'detail': 'ERB %.6g rad vs edge spacing %.6g rad (ratio %.4f)' % (erb, spacing, erb / spacing)}
    if '3 dB' in what:
        k0, k1 = int(round(e0 / 16000 * width)), int(round(e1 / 16000 * width))
        ratio = (H[k0] / peak) ** 2, (H[k1] / peak) ** 2
        target = 10 ** -0.3 if w['cls'].startswith('Gabor') else 0.5
        return {'reproduced': abs(ratio[1] - target) > 5e-3, 'detail': '|H(edge)|^2/|H(centre)|^2 = %.4f / %.4f, documented %.4f' % (ratio[0], ratio[1], target)}
    if 'peak' in what:
        return {'reproduced': abs(peak - 1) > 1e-3, 'detail': 'peak gain %.6g' % peak}
    if 'L2' in what:
        h = b.get_impulse_response(i, 1 << 14)
        nrm = float(np.sqrt((np.abs(h) ** 2).sum()))
        return {'reproduced': abs(nrm - 1) > 4e-2, 'detail': 'L2 norm of the impulse response = %.6g (order %s, erb=%s)' % (nrm, w['order'], w['erb'])}
    return {'reproduced': True, 'detail': what}
