"""C06 -- frequency-domain representations of a filter agree (DESIGN 3/C06)."""
import itertools
import math

import z3

from vlib import symex
from vlib.nd import ND, zi
from vlib.symex import Ctx, SInt, SReal, _z, rv, conc, decide, explore, check_sat, Inconclusive, nra_check
from checks import filters_common as fc

PID = 'C06'
LEVEL = 'model_checking'
FUNCTIONS = ['filters:TriangularOverlappingFilterBank.get_truncated_response', 'filters:TriangularOverlappingFilterBank.get_frequency_response',
             'filters:Fbank.get_truncated_response', 'filters:Fbank.get_frequency_response', 'filters:GaborFilterBank.get_truncated_response',
             'filters:GaborFilterBank.get_frequency_response', 'filters:ComplexGammatoneFilterBank.get_truncated_response',
             'filters:ComplexGammatoneFilterBank.get_frequency_response', 'filters:TriangularOverlappingFilterBank.__init__', 'filters:ComplexGammatoneFilterBank.__init__']
EXPLANATION = (
    'The response methods of all four banks run on symbolic real vertices / supports and a SYMBOLIC DFT bin (np.ceil / int are '
    'z3 ToInt forms, widths concrete). Compact banks (triangular, Fbank): z3 decides 0 <= start < width, that a real bank\'s '
    'truncated response stays inside the half spectrum, that the response rebuilt by the documented recipe EQUALS the full '
    'response at every bin, that half=True is the leading part of the full response with the documented length, Hermitian '
    'symmetry of real banks and vanishing negative frequencies of analytic ones; the real constructor keeps every vertex inside '
    '[0, Nyquist]. Gabor / gammatone: 0 <= start < width, the truncated window covers every DFT bin (any period) strictly '
    'inside the effective support, so every omitted summand lies at or beyond the support edge (with the tail lemma of C07 this '
    'gives the 2 x threshold bound), the whole-period fallback returns (0, full response), half=True is a prefix, and the '
    'response methods are pure functions of (instance, arguments): repeating calls with other widths in between changes nothing.')
BOUNDS = {'quick': 'widths 2, 3, 8, 9, 64 (compact banks: filters spanning <= 4 bins, Fbank <= 2 bins and widths <= 9; Gabor/gammatone: supports spanning <= 3 bins, any position incl. below 0 Hz / above Nyquist); half vs full response widths 2,3,8,9; purity: call sequences over widths 8,9,64,65 incl. get_truncated_response at adjacent widths and half-then-full; before every query another instance of the class (other parameters, other sampling rate) is queried at the same width; class-level mutable state is restored at the start of every path',
          'thorough': 'widths 2, 3, 4, 5, 7, 8, 9, 16, 17, 64, 127, 512'}
OUTSIDE = ['finiteness of values (floating-point overflow)', 'magnitude of floating-point error',
           'Gabor: numerical size of the omitted summands (tail lemma, C07) -- the bound is decided structurally, not numerically; '
           'gammatone: the envelope AT the advertised frequency edge is shown equal to the threshold for orders 2-4 (thorough 1-6), erb on/off, L2 scaling on/off (gt_edge), the sum of the periodic images beyond it is not bounded here']
ASSUMPTIONS = ['Gaussian / gammatone magnitude responses decrease monotonically away from the centre (closed forms), so a summand at or beyond the support edge is <= threshold',
               'gammatone _H (closed-form response) and the Gaussian summand are uninterpreted functions of the absolute frequency here']
CONFIG_TIME_LIMIT = {'quick': 900, 'thorough': 3000}


def configs(tier, seed):
    widths = (2, 3, 8, 9, 64) if tier == 'quick' else (2, 3, 4, 5, 7, 8, 9, 16, 17, 64, 127, 512)
    cfgs = []
    for cls in ('TriangularOverlappingFilterBank', 'Fbank'):
        for w, an in itertools.product(widths, (False, True)):
            if cls == 'Fbank' and tier == 'quick' and w > 9:
                continue
            cfgs.append(dict(kind='compact', name='compact %s w%d analytic=%s' % (cls, w, an), cls=cls, width=w, analytic=an))
    cfgs.append(dict(kind='vertices', name='triangular constructor keeps vertices inside [0, Nyquist]'))
    for cls in ('GaborFilterBank', 'ComplexGammatoneFilterBank'):
        for w in widths:
            cfgs.append(dict(kind='window', name='window %s w%d' % (cls, w), cls=cls, width=w))
    for cls in ('GaborFilterBank', 'ComplexGammatoneFilterBank'):
        for w in ((2, 3, 8, 9) if tier == 'quick' else (2, 3, 4, 5, 7, 8, 9, 16, 17, 33)):
            cfgs.append(dict(kind='half', name='half %s w%d' % (cls, w), cls=cls, width=w))
    for cls in fc.BANKS:
        cfgs.append(dict(kind='pure', name='purity %s' % cls, cls=cls))
    # the window obligations take for granted that a gammatone summand at the advertised frequency edge is <= threshold;
    # C07 shows that for banks without L2 scaling only (its property excludes the others), C06 holds for every bank
    for order, erb, l2 in itertools.product((2, 3, 4) if tier == 'quick' else (1, 2, 3, 4, 5, 6), (False, True), (False, True)):
        cfgs.append(dict(kind='gt_edge', name='gammatone frequency edge n%d erb=%s l2=%s' % (order, erb, l2), order=order, erb=erb, l2=l2))
    return cfgs


def _fv(m, name):
    v = m.eval(z3.Real(name), model_completion=True)
    try:
        return float(v.as_fraction()) if z3.is_rational_value(v) else float(v.approx(12).as_fraction())
    except Exception:
        return 0.0


# ------------------------------------------------------------------ compact banks

def run_compact(cfg):
    cls, width, analytic = cfg['cls'], cfg['width'], cfg['analytic']
    ns = fc.load_filters()
    rate = 8000
    T = ns[cls]
    viol = []
    ob = dis = 0

    def body():
        c = Ctx.cur
        fc.reset_class_state(ns)
        l, m, r = z3.Reals('l m r')
        span = 4 if cls != 'Fbank' else 2      # Fbank: every bin adds log/exp axiom instances (mel), keep the filter narrow
        c.assume(0 <= l, l < m, m < r, r <= rate / 2, (r - l) * width <= span * rate)
        b = fc.handbuilt(ns, cls, _rate=rate, _analytic=analytic, _vertices=(SReal(l), SReal(m), SReal(r)))
        try:
            # another bank of the same class with other parameters and another sampling rate is queried first, at the same
            # width: responses are functions of (instance, arguments), nothing may leak between instances
            # (concrete parameters: no further symbolic atoms for the solver)
            decoy = fc.handbuilt(ns, cls, _rate=2 * rate, _analytic=analytic, _vertices=(310.0, 1000.0 + 2000.0 / width, 1900.0 + 6000.0 / width))
            decoy.get_truncated_response(0, width)
            decoy.get_frequency_response(0, width)
            decoy.get_frequency_response(0, width, half=True)
            start, tr = b.get_truncated_response(0, width)
            full = b.get_frequency_response(0, width)
            half = b.get_frequency_response(0, width, half=True)
        except Exception as e:
            symex.guard(e)
            return ('exception', '%s: %s' % (type(e).__name__, e))
        k = z3.Int('k')
        c.assume(k >= 0, k < width)
        sz = _z(start)
        ln = zi(tr.shape[0])
        if not decide(z3.And(sz >= 0, sz < width)):
            return ('start bin outside [0, width)',)
        if not analytic and not decide(sz + ln <= width // 2 + 1):
            return ('truncated response of a real bank leaves the half spectrum',)
        inside = z3.And(k >= sz, k < sz + ln)
        mirror = z3.And(width - k >= sz, width - k < sz + ln, k != 0)
        if decide(inside):
            reb = tr.get(k - sz)
        elif (not analytic) and decide(mirror):
            reb = tr.get(width - k - sz)          # conjugate of a real value
        else:
            reb = z3.RealVal(0)
        if decide(reb != full.get(k)):
            return ('rebuilt response differs from get_frequency_response',)
        hl = half.shape[0]
        if not decide(_z(hl) == (width // 2 + 1 if width % 2 == 0 else (width + 1) // 2)):
            return ('half response has the wrong length',)
        if decide(z3.And(k < _z(hl), half.get(k) != full.get(k))):
            return ('half response is not the leading part of the full one',)
        if not analytic and decide(z3.And(k >= 1, full.get(k) != full.get(width - k))):
            return ('real bank not Hermitian-symmetric',)
        if analytic and decide(z3.And(2 * k > width, full.get(k) != 0)):
            return ('analytic bank non-zero on negative frequencies',)
        return ('ok',)

    for ctx, res in explore(body, max_paths=6000):
        if res is None:
            continue
        ob += 1
        if res[0] == 'ok':
            dis += 1
            continue
        m = ctx.model()
        viol.append(dict(kind='compact', cls=cls, width=width, analytic=analytic, what=res[0] + (' ' + res[1] if len(res) > 1 else ''),
                         l=_fv(m, 'l'), m=_fv(m, 'm'), r=_fv(m, 'r'), k=m.eval(z3.Int('k'), True).as_long()))
    for w in viol:
        w['class'] = 'compact/%s/%s' % (cls, w['what'][:50])
    return dict(obligations=ob, discharged=dis, violations=viol, samples=[{'config': cfg['name'], 'paths': ob}], twin=dis > 0)


def run_vertices(cfg):
    ns = fc.load_filters()
    fc.stub_alias(ns)
    viol = []
    ob = dis = 0
    for rate in (8000, 11025):
        def body():
            c = Ctx.cur
            low, high = z3.Real('low_hz'), z3.Real('high_hz')
            c.assume(low >= 0, low < high, high <= z3.RealVal(rate) / 2 + 1)
            try:
                b = fc.construct(ns, 'TriangularOverlappingFilterBank', SReal(low), SReal(high), rate, 2)
            except ValueError:
                return ('valueerror',)
            except Exception as e:
                symex.guard(e)
                return ('exception', '%s: %s' % (type(e).__name__, e))
            bad = []
            for (lo, hi) in b.supports_hz:
                bad += [rv(lo) < 0, rv(hi) > z3.RealVal(rate) / 2]
            return ('ok', bad)
        for ctx, res in explore(body):
            if res is None:
                continue
            ob += 1
            if res[0] == 'valueerror':
                # only a VALID range (0 <= low < high <= Nyquist) must be accepted; the strip above Nyquist is unspecified
                low, high = z3.Real('low_hz'), z3.Real('high_hz')
                if not ctx.feasible(z3.And(low >= 0, low < high, high <= z3.RealVal(rate) / 2)):
                    dis += 1
                    continue
            if res[0] != 'ok':
                viol.append(dict(kind='vertices', rate=rate, what='constructor %s on an accepted range' % res[0], low_hz=_fv(ctx.model(), 'low_hz'), high_hz=_fv(ctx.model(), 'high_hz'), **{'class': 'vertices/' + res[0]}))
                continue
            r, s2 = nra_check(list(ctx.solver.assertions()) + [z3.Or(res[1])], timeout_ms=60000)
            if r == 'sat':
                viol.append(dict(kind='vertices', rate=rate, what='a vertex lies outside [0, Nyquist]', low_hz=_fv(s2.model(), 'low_hz'), high_hz=_fv(s2.model(), 'high_hz'), **{'class': 'vertices/outside'}))
            elif r == 'unsat':
                dis += 1
            else:
                raise Inconclusive('vertices query %s' % r)
    return dict(obligations=ob, discharged=dis, violations=viol, samples=[{'config': 'vertices'}], twin=dis > 0)


# ------------------------------------------------------------------ Gabor / gammatone: window placement

R = z3.RealSort()
GV = z3.Function('SUMMAND', R, R)       # value of one summand (Gaussian / gammatone term) as a function of its argument


class WNP(fc.FNP):
    @staticmethod
    def exp(v, out=None):
        if isinstance(v, SReal):
            return SReal(GV(rv(v)))
        if isinstance(v, ND):
            r = v._bin(0, lambda a, _b: GV(a))      # element-wise (a vectorised response loop)
            if out is not None:
                out[...] = r
                return out
            return r
        return fc.FNP.exp(v)

    @staticmethod
    def arange(a, b=None, dtype=None):
        # always the lazy array here: the closed-form responses of this harness are functions of array terms
        if b is None:
            a, b = 0, a
        az, bz = _z(a), _z(b)
        n = conc(SInt(z3.simplify(z3.If(bz - az > 0, bz - az, 0))))
        return ND.fresh((n,), lambda idx: z3.ToReal(az + idx[0]), 'f8')

    @staticmethod
    def linspace(a, b, num=50, endpoint=True, dtype=None):
        n = conc(num) if isinstance(num, SInt) else int(num)
        az, bz = rv(a), rv(b)
        den = (n - 1) if endpoint else n
        if den <= 0:
            return ND.fresh((n,), lambda idx: az, 'f8')
        return ND.fresh((n,), lambda idx: az + z3.ToReal(idx[0]) * (bz - az) / den, 'f8')


def _mk_bank(ns, cls, tag=''):
    """hand-built single-filter instance: centre, std/alpha and the effective support are symbolic reals"""
    c = Ctx.cur
    b = fc.handbuilt(ns, cls)
    xi, lo, hi, wrap = z3.Real('xi' + tag), z3.Real('lowest_ang' + tag), z3.Real('highest_ang' + tag), z3.Real('wrap_support_ang' + tag)
    c.assume(lo < xi, xi < hi, xi >= 0, xi <= rv(math.pi), lo >= rv(-2 * math.pi), hi <= rv(4 * math.pi), wrap > 0)
    b._rate = 8000
    if cls == 'GaborFilterBank':
        b._centers_ang = (SReal(xi),)
        b._stds = (SReal(z3.Real('std' + tag)),)
        c.assume(z3.Real('std' + tag) > 0)
        b._supports_ang = ((SReal(lo), SReal(hi)),)
        b._wrap_supports_ang = (SReal(wrap),)
        b._scale_l2_norm = False
    else:
        b._xis = (SReal(xi),)
        b._supports_ang = ((SReal(lo), SReal(hi)),)
        b._wrap_supports_ang = (SReal(wrap),)
        b._order = 4
        HV = z3.Function('H_closed_form' + tag, R, R)
        b._H = lambda omega, idx: (omega._bin(0, lambda a, _b: HV(a)) if isinstance(omega, ND) else SReal(HV(rv(omega))))
    return b, xi, lo, hi, wrap


def run_window(cfg):
    cls, width = cfg['cls'], cfg['width']
    ns = fc.load_filters(dict(np=WNP))
    viol = []
    ob = dis = 0
    twopi = rv(2 * math.pi)

    def body():
        c = Ctx.cur
        fc.reset_class_state(ns)
        b, xi, lo, hi, wrap = _mk_bank(ns, cls)
        if cls == 'GaborFilterBank':
            b._scale_l2_norm = decide(z3.Bool('scale_l2_norm'))       # both normalisations
        c.assume((hi - lo) * width <= 3 * twopi + twopi * width / 4)
        fallback = (wrap >= twopi) if cls == 'GaborFilterBank' else (hi - lo + wrap >= twopi)
        try:
            d_, xi_d, lo_d, hi_d, wrap_d = _mk_bank(ns, cls, '_decoy')       # another instance queried first (see run_compact)
            c.assume((hi_d - lo_d) * width <= twopi, lo_d >= 0, hi_d <= rv(math.pi))
            d_.get_truncated_response(0, width)
            start, tr = b.get_truncated_response(0, width)
        except Exception as e:
            symex.guard(e)
            return ('exception', '%s: %s' % (type(e).__name__, e))
        sz = _z(start)
        ln = zi(tr.shape[0])
        bad = [z3.Or(sz < 0, sz >= width)]
        is_fb = decide(fallback)
        if is_fb:
            # whole-period fallback: (0, full response)
            bad += [sz != 0, ln != width]
        else:
            # every absolute bin a (any period) strictly inside the support lies in the truncated window: the window is
            # [left_idx, left_idx + ln) with left_idx congruent to start modulo width
            a = z3.Int('a')
            left = z3.Int('left_idx')
            c.assume(left == -z3.ToInt(-(width * lo / twopi)))        # ceil(width * lowest / 2 pi)
            inside = z3.And(z3.ToReal(a) * twopi / width > lo, z3.ToReal(a) * twopi / width < hi)
            bad.append(z3.And(inside, z3.Or(a < left, a >= left + ln)))
            bad.append(sz != left % width)
            bad.append(ln < 0)
            if cls == 'GaborFilterBank' and width <= 9:
                # values: every entry of the truncated response is a plain sum (unit coefficients) of the Gaussian summands
                # the response methods add up (uninterpreted SUMMAND terms): a gain applied outside the exponent, or a
                # differently normalised term, is not
                for j in range(width):
                    if not decide(ln > j):
                        break
                    tj = tr.get(j)
                    apps = _apps([tj], 'SUMMAND')
                    if not apps or not z3.simplify(tj - z3.Sum(apps), som=True).eq(z3.RealVal(0)):
                        bad.append(z3.BoolVal(True))
        return ('ok', bad, is_fb)

    for ctx, res in explore(body, max_paths=3000):
        if res is None:
            continue
        ob += 1
        if res[0] != 'ok':
            viol.append(dict(kind='window', cls=cls, width=width, what=res[1], **_wm(ctx.model())))
            continue
        s = ctx.solver
        s.push()
        s.add(z3.Or(res[1]))
        r = check_sat(s)
        if r == 'sat':
            viol.append(dict(kind='window', cls=cls, width=width, what='start bin / window / fallback', fallback=res[2], **_wm(s.model())))
        else:
            dis += 1
        s.pop()
    for w in viol:
        w['class'] = 'window/%s/%s' % (cls, w['what'][:40])
    return dict(obligations=ob, discharged=dis, violations=viol, samples=[{'config': cfg['name'], 'paths': ob}], twin=dis > 0)


def _apps(terms, name):
    seen = {}

    def walk(t):
        if z3.is_app(t):
            if t.decl().name() == name:
                seen[t.get_id()] = t
            for a_ in t.children():
                walk(a_)
    for t in terms:
        walk(t)
    return list(seen.values())


def _wm(m):
    return dict(l2=z3.is_true(m.eval(z3.Bool('scale_l2_norm'), model_completion=True)), xi=_fv(m, 'xi'), lowest_ang=_fv(m, 'lowest_ang'), highest_ang=_fv(m, 'highest_ang'), wrap=_fv(m, 'wrap_support_ang'))


# ------------------------------------------------------------------ purity of the response methods

def run_pure(cfg):
    """get_frequency_response / get_truncated_response are functions of (instance, arguments): a call sequence on one
    instance (other widths and half flags in between) returns what a fresh instance returns (terms compared)."""
    cls = cfg['cls']
    viol = []
    ob = dis = 0
    seqs = [[(8, True), (9, True)], [(9, True), (8, True)], [(8, False), (8, True)], [(8, True), (8, False)], [(64, True), (65, True), (64, False)]]
    if cls in ('Fbank', 'GaborFilterBank'):
        seqs = seqs[:4]       # long sequences are costly (mel log/exp axioms; per-bin periodisation loops of the Gabor response)
    # 'trunc' = get_truncated_response: adjacent widths share the number of half-spectrum bins but not the bin frequencies
    seqs += [[(8, 'trunc'), (9, 'trunc')], [(9, 'trunc'), (8, 'trunc')], [(8, True), (9, 'trunc'), (8, False)]]
    for seq in seqs:
        ns = fc.load_filters(dict(np=WNP))

        def body():
            c = Ctx.cur
            fc.reset_class_state(ns)

            def mk():
                if cls in ('TriangularOverlappingFilterBank', 'Fbank'):
                    l, m, r = z3.Reals('l m r')
                    c.assume(0 <= l, l < m, m < r, r <= 4000, (r - l) * 65 <= 2 * 8000)
                    return fc.handbuilt(ns, cls, _rate=8000, _analytic=False, _vertices=(SReal(l), SReal(m), SReal(r)))
                b, xi, lo, hi, wrap = _mk_bank(ns, cls)
                c.assume((hi - lo) * 65 <= 2 * rv(2 * math.pi), lo >= 0, hi <= rv(math.pi))
                return b
            shared = mk()
            outs = []
            for (w, half) in seq:
                try:
                    if half == 'trunc':
                        s1, a1 = shared.get_truncated_response(0, w)
                        s2, a2 = mk().get_truncated_response(0, w)
                    else:
                        s1 = s2 = 0
                        a1 = shared.get_frequency_response(0, w, half)
                        a2 = mk().get_frequency_response(0, w, half)
                except Exception as e:
                    symex.guard(e)
                    return ('exception', '%s: %s' % (type(e).__name__, e))
                outs.append((w, half, a1, a2, s1, s2))
            k = z3.Int('k')
            bad = []
            for (w, half, a1, a2, s1, s2) in outs:
                bad.append(_z(s1) != _z(s2))
                n1, n2 = zi(a1.shape[0]), zi(a2.shape[0])
                bad.append(n1 != n2)
                bad.append(z3.And(k >= 0, k < n1, k < n2, a1.get(k) != a2.get(k)))
            return ('ok', bad)
        for ctx, res in explore(body, max_paths=4000):
            if res is None:
                continue
            ob += 1
            if res[0] != 'ok':
                viol.append(dict(kind='pure', cls=cls, seq=seq, what=res[1], **{'class': 'pure/%s/exception' % cls}))
                continue
            s = ctx.solver
            s.push()
            s.add(z3.Or(res[1]))
            r = check_sat(s)
            if r == 'sat':
                viol.append(dict(kind='pure', cls=cls, seq=seq, what='a repeated call returns something else than a fresh instance', **{'class': 'pure/%s' % cls}))
            else:
                dis += 1
            s.pop()
    return dict(obligations=ob, discharged=dis, violations=viol, samples=[{'config': cfg['name'], 'sequences': seqs}], twin=dis > 0)


def run_half(cfg):
    """half=True response of the Gabor / gammatone banks: documented length (width // 2 + 1 for even, (width + 1) // 2
    for odd widths) and bin k identical to bin k of the full response (terms over the uninterpreted summand function:
    equal only if every summand is evaluated at the same frequency)."""
    cls, width = cfg['cls'], cfg['width']
    ns = fc.load_filters(dict(np=WNP))
    viol = []
    ob = dis = 0

    def body():
        c = Ctx.cur
        fc.reset_class_state(ns)
        b, xi, lo, hi, wrap = _mk_bank(ns, cls)
        c.assume((hi - lo) * 65 <= 2 * rv(2 * math.pi), lo >= rv(-math.pi), hi <= rv(2 * math.pi))
        try:
            d_, xi_d, lo_d, hi_d, wrap_d = _mk_bank(ns, cls, '_decoy')
            c.assume((hi_d - lo_d) * 65 <= 2 * rv(2 * math.pi), lo_d >= 0, hi_d <= rv(math.pi))
            d_.get_frequency_response(0, width, True)
            d_.get_frequency_response(0, width, False)
            full = b.get_frequency_response(0, width, False)
            half = b.get_frequency_response(0, width, True)
        except Exception as e:
            symex.guard(e)
            return ('exception', '%s: %s' % (type(e).__name__, e))
        nf, nh = zi(full.shape[0]), zi(half.shape[0])
        hl = width // 2 + 1 if width % 2 == 0 else (width + 1) // 2
        k = z3.Int('k')
        bad = [nf != width, nh != hl, z3.And(k >= 0, k < nh, k < nf, half.get(k) != full.get(k))]
        return ('ok', bad)

    for ctx, res in explore(body, max_paths=3000):
        if res is None:
            continue
        ob += 1
        if res[0] != 'ok':
            viol.append(dict(kind='half', cls=cls, width=width, what=res[1], **_wm(ctx.model())))
            continue
        s = ctx.solver
        s.push()
        s.add(z3.Or(res[1]))
        r = check_sat(s)
        if r == 'sat':
            m = s.model()
            viol.append(dict(kind='half', cls=cls, width=width, what='half response differs from the leading bins of the full response (or has another length)',
                             k=m.eval(z3.Int('k'), True).as_long(), **_wm(m)))
        else:
            dis += 1
        s.pop()
    for w in viol:
        w['class'] = 'half/%s/%s/%s' % (cls, 'odd' if width % 2 else 'even', w['what'][:30])
    return dict(obligations=ob, discharged=dis, violations=viol, samples=[{'config': cfg['name'], 'paths': ob}], twin=dis > 0)


def run_gt_edge(cfg):
    from checks import c07
    r = c07.run_gt_freq(cfg)
    for w in r['violations']:
        w['kind'] = 'gt_edge'
        w['class'] = 'gt_edge/' + w['class'].split('/', 1)[-1] + ('/l2' if cfg['l2'] else '')
    return r


def run_config(cfg):
    return {'compact': run_compact, 'vertices': run_vertices, 'window': run_window, 'pure': run_pure, 'half': run_half, 'gt_edge': run_gt_edge}[cfg['kind']](cfg)


# ------------------------------------------------------------------ replay on the real banks

def _rebuild(bank, i, width):
    import numpy as np
    bin_idx, trnc = bank.get_truncated_response(i, width)
    full = np.zeros(width, dtype=np.complex128)
    if bank.is_real:
        full[bin_idx:bin_idx + len(trnc)] = trnc
        lo = width - bin_idx - len(trnc) + 1
        full[lo:width - bin_idx + 1] = trnc[:None if bin_idx else 0:-1].conj()
    else:
        wrap = min(bin_idx + len(trnc), width) - bin_idx
        full[bin_idx:bin_idx + wrap] = trnc[:wrap]
        full[:len(trnc) - wrap] = trnc[wrap:]
    return bin_idx, trnc, full


def replay(w):
    import numpy as np
    from pydrobert.speech import filters, config
    k = w['kind']
    C = getattr(filters, w.get('cls', 'TriangularOverlappingFilterBank'))
    thr = config.EFFECTIVE_SUPPORT_THRESHOLD
    try:
        if k == 'vertices':
            b = C('mel', num_filts=2, low_hz=w['low_hz'], high_hz=w['high_hz'], sampling_rate=w['rate'])
            hi = max(h for _, h in b.supports_hz)
            if hi > w['rate'] / 2 + 1e-9:
                for width in (557, 1113, 2001):
                    bi, tr, full = _rebuild(b, 1, width)
                    ref = b.get_frequency_response(1, width)
                    if bi + len(tr) > width // 2 + 1 or not np.allclose(full.real, ref, atol=1e-12):
                        return {'reproduced': True, 'detail': 'high_hz=%r at %d Hz: last vertex %.4f above Nyquist; width %d: truncated response leaves the half spectrum / rebuilt != full' % (w['high_hz'], w['rate'], hi, width)}
                return {'reproduced': True, 'detail': 'vertex %.4f above Nyquist %.1f' % (hi, w['rate'] / 2)}
            return {'reproduced': False, 'detail': 'vertices inside'}
        if k == 'pure':
            b = C(num_filts=5, sampling_rate=8000) if w['cls'] == 'Fbank' else C('mel', num_filts=5, sampling_rate=8000)
            for i in range(b.num_filts):
                for (width, half) in w['seq']:
                    fresh = C(num_filts=5, sampling_rate=8000) if w['cls'] == 'Fbank' else C('mel', num_filts=5, sampling_rate=8000)
                    if half == 'trunc':
                        (s1, a1), (s2, a2) = b.get_truncated_response(i, width), fresh.get_truncated_response(i, width)
                        if s1 != s2 or a1.shape != a2.shape or not np.array_equal(a1, a2, equal_nan=True):
                            return {'reproduced': True, 'detail': '%s filter %d: get_truncated_response(width=%d) after %s differs from a fresh instance' % (w['cls'], i, width, w['seq'])}
                        continue
                    a1 = b.get_frequency_response(i, width, half)
                    a2 = fresh.get_frequency_response(i, width, half)
                    if a1.shape != a2.shape or not np.array_equal(a1, a2):
                        return {'reproduced': True, 'detail': '%s filter %d: get_frequency_response(width=%d, half=%s) after %s differs from a fresh instance' % (w['cls'], i, width, half, w['seq'])}
            return {'reproduced': False, 'detail': 'pure'}
        if k == 'half':
            for sc in ('mel', 'bark'):
                for low in (20.0, 300.0):
                    b = C(sc, num_filts=7, low_hz=low, sampling_rate=8000)
                    for width in sorted(set([w['width'], 3, 8, 9, 65])):
                        hl = width // 2 + 1 if width % 2 == 0 else (width + 1) // 2
                        for i in range(b.num_filts):
                            full = b.get_frequency_response(i, width, False)
                            half = b.get_frequency_response(i, width, True)
                            if len(half) != hl or len(full) != width:
                                return {'reproduced': True, 'detail': '%s filter %d width %d: half response has %d bins (documented %d), full %d' % (w['cls'], i, width, len(half), hl, len(full))}
                            if np.abs(half - full[:hl]).max() > 1e-12:
                                return {'reproduced': True, 'detail': '%s filter %d width %d: half response differs from the leading bins of the full one by %.3g' % (w['cls'], i, width, np.abs(half - full[:hl]).max())}
            return {'reproduced': False, 'detail': 'half responses equal the leading bins on real banks'}
        if k == 'compact':
            verts = (w['l'], w['m'], w['r'])
            width = w['width']
            # as in the obligation: another bank of the class (other vertices, other sampling rate) is queried first
            decoy = fc.real_handbuilt(C, _rate=16000, _analytic=w['analytic'], _vertices=(310.0, 1000.0 + 2000.0 / width, 1900.0 + 6000.0 / width))
            decoy.get_truncated_response(0, width)
            decoy.get_frequency_response(0, width)
            decoy.get_frequency_response(0, width, half=True)
            b = fc.real_handbuilt(C, _rate=8000, _analytic=w['analytic'], _vertices=verts)
            bi, tr, full = _rebuild(b, 0, width)
            ref = b.get_frequency_response(0, width)
            half = b.get_frequency_response(0, width, half=True)
            hl = width // 2 + 1 if width % 2 == 0 else (width + 1) // 2
            if not (0 <= bi < width) or (not w['analytic'] and bi + len(tr) > width // 2 + 1) or not np.allclose(full.real, ref, atol=1e-12) or len(half) != hl or not np.array_equal(half, ref[:hl]):
                return {'reproduced': True, 'detail': '%s vertices %s width %d: %s' % (w['cls'], verts, width, w['what'])}
            return {'reproduced': False, 'detail': 'compact bank consistent'}
        if k == 'gt_edge':
            from pydrobert.speech.filters import ComplexGammatoneFilterBank
            worst = (0.0, None)
            for rate, nf in ((16000, 40), (8000, 24), (8000, 7)):
                b = ComplexGammatoneFilterBank('mel', num_filts=nf, sampling_rate=rate, order=w['order'], erb=w['erb'], scale_l2_norm=w['l2'])
                for width in (64, 128, 512, 1024):
                    for i in range(b.num_filts):
                        bi, tr, full = _rebuild(b, i, width)
                        ref = b.get_frequency_response(i, width)
                        d = float(np.abs(full - ref).max())
                        if d > worst[0]:
                            worst = (d, 'gammatone order %d erb=%s scale_l2_norm=%s, %d filters at %d Hz, filter %d width %d' % (w['order'], w['erb'], w['l2'], nf, rate, i, width))
            if worst[0] > 2 * thr:
                return {'reproduced': True, 'detail': '%s: rebuilt response differs from get_frequency_response by %.3g > 2*threshold' % (worst[1], worst[0])}
            return {'reproduced': False, 'detail': 'rebuilt gammatone responses within 2*threshold (worst %.3g)' % worst[0]}
        if k == 'window':
            # scan real banks whose supports sit at the witness position relative to the DFT grid
            for sc in ('mel', 'bark'):
                for low in (20.0, 300.0):
                    kw = dict(scale_l2_norm=True) if (w.get('l2') and w['cls'] == 'GaborFilterBank') else {}
                    b = C(sc, num_filts=7, low_hz=low, sampling_rate=8000, **kw)
                    for width in sorted(set([w['width'], 8, 9, 64, 127, 512])):
                        for i in range(b.num_filts):
                            bi, tr, full = _rebuild(b, i, width)
                            ref = b.get_frequency_response(i, width)
                            if not (0 <= bi < width):
                                return {'reproduced': True, 'detail': 'start bin %d outside [0,%d)' % (bi, width)}
                            if np.abs(full - ref).max() > 2 * thr:
                                return {'reproduced': True, 'detail': '%s filter %d width %d: rebuilt differs from full by %.3g > 2*threshold' % (w['cls'], i, width, np.abs(full - ref).max())}
            return {'reproduced': False, 'detail': 'windows fine on real banks'}
    except Exception as e:
        return {'reproduced': True, 'detail': 'real bank raised %s: %s' % (type(e).__name__, e)}
    return {'reproduced': False, 'detail': '?'}
