"""C07 -- impulse and frequency responses agree, within the advertised supports (DESIGN 3/C07).

The central clause (IDFT of the frequency response == impulse response to 2 x threshold) is a statement about aliasing
sums of transcendental functions evaluated in floating point; it is NOT claimed.  What is decided on the real code is
listed in EXPLANATION."""
import itertools
import math

import z3

from vlib import loader, symex
from vlib.mathnp import LOGEXP, MathNP
from vlib.nd import ND, zi
from vlib.symex import (Ctx, SInt, SReal, SBool, _z, rv, conc, decide, explore, check_sat, Inconclusive, nra_check, sint, sfloor, sceil,
                        is_sym, Unsupported)
from checks import filters_common as fc

PID = 'C07'
LEVEL = 'other'
TECHNIQUE = ('symbolic execution of the bank constructors and response methods on symbolic reals; closed-form envelopes compared in the log domain '
             '(linear arithmetic over uninterpreted log/exp/sqrt with instantiated axioms), Newton search replaced by its exit condition')
FUNCTIONS = ['filters:TriangularOverlappingFilterBank.get_impulse_response', 'filters:ComplexGammatoneFilterBank._h', 'filters:GaborFilterBank.__init__', 'filters:GaborFilterBank.get_impulse_response', 'filters:GaborFilterBank.get_frequency_response',
             'filters:ComplexGammatoneFilterBank.__init__', 'filters:ComplexGammatoneFilterBank._calculate_temp_support',
             'filters:TriangularOverlappingFilterBank.supports', 'filters:Fbank.supports', 'filters:TriangularOverlappingFilterBank.get_impulse_response',
             'filters:Fbank.get_impulse_response', 'filters:ComplexGammatoneFilterBank.get_impulse_response']
EXPLANATION = (
    'NOT claimed: "inverse DFT of get_frequency_response equals get_impulse_response to within 2 x threshold" (Fourier-analytic '
    'approximation in floating point; no encoding within reach of an SMT solver). Decided on the real code: (S1) '
    'get_impulse_response returns a real dtype exactly when is_real (dtype requested from NumPy / transform used, all four '
    'classes); (S2) support edges, log-domain linear arithmetic on the constructors\' and responses\' own arithmetic: the Gabor '
    'time envelope at t = diff_samps and frequency envelope at diff_ang are <= threshold for every sigma, both normalisations, '
    'with the exponent the response methods really compute shown equal to the documented Gaussian; the gammatone frequency '
    'envelope at diff_ang equals the threshold; the gammatone temporal support returned by the real _calculate_temp_support '
    '(Newton search replaced by its exit condition at the point the code evaluates) covers every sample whose envelope exceeds '
    'the threshold, for max_centered on and off; (S3) zero-phase supports straddle sample 0, causal gammatone supports start at '
    '0; (S4) the peak gain of the two closed forms is consistent (documented Fourier pair) for both Gabor normalisations; (S5) '
    'every sample n of the Gabor impulse response in a buffer of W samples is the sum of the documented terms at times '
    'congruent to n modulo W and contains the one nearest 0 (object arrays of exponent tokens, nlsat matching for all sigma, '
    'xi); (S6) every sample of a causal gammatone impulse response is the periodised closed form c t^(n-1) exp(-alpha t) '
    'exp(i xi t) for symbolic c, alpha, xi (index arithmetic on real NumPy integer arrays: int64 wrap-around is NumPy\'s own); '
    '(S7) every sample of a real triangular bank\'s impulse response, times pi (R-M)(M-L), is the inverse Fourier transform '
    'of the triangle, N(n)/n^2 + N(W-n)/(W-n)^2 with N(t) = (R-L)cos(Mt) - (R-M)cos(Lt) - (M-L)cos(Rt) (cos uninterpreted, '
    'symbolic vertices, both orderings of the edge widths; symbolic denominators cleared by exact polynomial arithmetic, '
    'vlib/ratpoly.py, before z3 decides the division-free statement); a witness counts only if the property\'s own '
    'criterion fails on the real bank in a long buffer.')
BOUNDS = {'quick': 'all sigma > 0 / alpha > 0 (symbolic), gammatone orders 3-6 (temporal-support search with the threshold re-configured after the module is loaded), Gabor impulse/frequency response evaluated at 4 sample points / 2 bins; '
                   'Gabor sample placement for buffer widths 2,3,4,5,8; triangular closed form for widths 2,3,5; gammatone closed form for (order, width) = (4,5) (4,40) (8,600), support 1.5 x width',
          'thorough': 'gammatone orders 3-8; placement widths 1-9, 12, 15; triangular closed form widths 1-5, 8; closed form also (3,7) (6,64) (8,1030)'}
OUTSIDE = ['the central IDFT-agreement clause (see above)', 'straddling of sample 0 for Fbank and Gabor supports (needs numeric bounds on a cube root / on sigma*sqrt(const - 2 log sigma); z3 stays undecided)', 'magnitudes outside supports in a finite buffer (needs the same aliasing analysis)',
           'gammatone orders 1-2 and scale_l2_norm (excluded by the property)', 'floating point']
ASSUMPTIONS = ['Gaussian / gamma envelopes decrease monotonically beyond their mode (closed forms)',
               'Newton iteration terminates with its loop condition false and moves the estimate to the right of the initial guess',
               'Fourier pairs: int exp(-t^2/2s^2) dt = s sqrt(2 pi); |exp(i x)| = 1']
CONFIG_TIME_LIMIT = {'quick': 600, 'thorough': 1800}
R = z3.RealSort()
LEPS = math.log(5e-4)


def configs(tier, seed):
    cfgs = [dict(kind='dtype', name='dtype ' + c + (' analytic' if an else ''), cls=c, analytic=an)
            for c, an in (('TriangularOverlappingFilterBank', False), ('TriangularOverlappingFilterBank', True), ('Fbank', False), ('Fbank', True),
                          ('GaborFilterBank', False), ('ComplexGammatoneFilterBank', False))]
    cfgs += [dict(kind='straddle', name='straddle ' + c, cls=c) for c in ('TriangularOverlappingFilterBank', 'ComplexGammatoneFilterBank')]
    for erb, l2 in itertools.product((False, True), (False, True)):
        cfgs.append(dict(kind='gabor', name='gabor edges erb=%s l2=%s' % (erb, l2), erb=erb, l2=l2))
    for l2 in (False, True):
        if not l2:
            for W_ in ((2, 3, 5) if tier == 'quick' else (1, 2, 3, 4, 5, 8)):
                cfgs.append(dict(kind='tri_impulse', name='triangular impulse response closed form width %d' % W_, width=W_))
        cfgs.append(dict(kind='gabor_place', name='gabor impulse response sample placement l2=%s' % l2, l2=l2, widths=[2, 3, 4, 5, 8] if tier == 'quick' else [1, 2, 3, 4, 5, 6, 7, 8, 9, 12, 15]))
    for order, width in (((4, 5), (4, 40), (8, 600)) if tier == 'quick' else ((3, 7), (4, 5), (4, 40), (6, 64), (8, 600), (8, 1030))):
        cfgs.append(dict(kind='gt_impulse', name='gammatone impulse response closed form n%d width %d' % (order, width), order=order, width=width))
    for order in (range(3, 7) if tier == 'quick' else range(3, 9)):
        for erb in (False, True):
            cfgs.append(dict(kind='gt_freq', name='gammatone frequency edge n%d erb=%s' % (order, erb), order=order, erb=erb))
        for mc in (False, True):
            cfgs.append(dict(kind='gt_time', name='gammatone temporal support n%d max_centered=%s' % (order, mc), order=order, mc=mc))
    return cfgs


# ------------------------------------------------------------------ S1: dtype / realness

class Stop(Exception):
    pass


def run_dtype(cfg):
    cls, analytic = cfg['cls'], cfg['analytic']
    seen = {}

    class FFT:
        @staticmethod
        def ifft(x, **k):
            seen['transform'] = 'ifft'
            raise Stop()

        @staticmethod
        def irfft(x, n=None):
            seen['transform'] = 'irfft'
            raise Stop()

    class DNP(fc.FNP):
        fft = FFT

        @staticmethod
        def zeros(n, dtype=None):
            seen.setdefault('zeros', dtype)
            if 'first_only' in seen:
                raise Stop()
            return fc.FNP.zeros(n, dtype)
    ns = fc.load_filters(dict(np=DNP))
    b = fc.handbuilt(ns, cls)
    seen.clear()
    if cls in ('TriangularOverlappingFilterBank', 'Fbank'):
        b._analytic = analytic
        b._vertices = (100.0, 200.0, 300.0)
    viol = []
    is_real = bool(b.is_real)
    if cls != 'Fbank':
        seen['first_only'] = True
    try:
        b.get_impulse_response(0, 8)
    except Stop:
        pass
    except Exception as e:
        symex.guard(e)
        raise Inconclusive('get_impulse_response raised %s: %s before requesting its buffer' % (type(e).__name__, e))
    if cls == 'Fbank':
        real_out = seen.get('transform') == 'irfft'
    else:
        real_out = seen.get('zeros') == 'f8'
    if real_out != is_real:
        viol.append(dict(kind='dtype', cls=cls, analytic=analytic, what='impulse response is %s but is_real=%s (%s)' % ('real' if real_out else 'complex', is_real, seen),
                         **{'class': 'dtype/' + cls}))
    return dict(obligations=1, discharged=1 - len(viol), violations=viol, samples=[{'config': cfg['name'], 'observed': {k: str(v) for k, v in seen.items()}, 'is_real': is_real}], twin=True)


# ------------------------------------------------------------------ S3: supports straddle sample 0

POW = z3.Function('POW', R, R, R)


def _spow(self, k):
    if isinstance(k, int):
        return SReal.__pow_int__(self, k)
    if k == 0.5:
        return symex.ssqrt(self)
    v = POW(self.z, rv(k))
    Ctx.cur.solver.add(z3.Implies(self.z > 0, v > 0))
    return SReal(v)


SReal.__pow_int__ = SReal.__pow__
SReal.__pow__ = _spow


def run_straddle(cfg):
    cls = cfg['cls']
    ns = fc.load_filters()
    fc.stub_alias(ns)
    fc.stub_newton(ns)
    viol = []
    ob = dis = 0

    def body():
        c = Ctx.cur
        if cls in ('TriangularOverlappingFilterBank', 'Fbank'):
            l, m, r = z3.Reals('l m r')
            c.assume(0 <= l, l < m, m < r, r <= 4000)
            b = fc.handbuilt(ns, cls, _rate=8000, _analytic=False, _vertices=(SReal(l), SReal(m), SReal(r)))
            sup = b.supports
            causal = False
        else:
            low, high = z3.Real('low_hz'), z3.Real('high_hz')
            c.assume(low >= 0, low < high, high <= 4000)
            kw = {}
            causal = False
            if cls == 'ComplexGammatoneFilterBank':
                mc = decide(z3.Bool('max_centered'))
                kw = dict(order=4, max_centered=mc)
                causal = not mc
            b = fc.construct(ns, cls, SReal(low), SReal(high), 8000, 1, **kw)
            sup = b.supports
        (lo, hi) = sup[0]
        loz, hiz = (rv(lo), rv(hi))
        if causal:
            bad = [loz != 0, hiz <= 0]
        elif cls == 'ComplexGammatoneFilterBank':
            bad = [loz > 0]          # max_centered: the onset is moved to the left of sample 0
        else:
            bad = [loz >= 0, hiz <= 0]
        return ('ok', bad)

    for ctx, res in explore(body, max_paths=200):
        if res is None:
            continue
        ob += 1
        r, s2 = nra_check(list(ctx.solver.assertions()) + [z3.Or(res[1])], timeout_ms=60000)
        if r == 'sat':
            viol.append(dict(kind='straddle', cls=cls, what='support does not straddle / start at sample 0', **{'class': 'straddle/' + cls}))
        elif r == 'unsat':
            dis += 1
        else:
            raise Inconclusive('straddle query %s' % r)
    return dict(obligations=ob, discharged=dis, violations=viol, samples=[{'config': cfg['name']}], twin=dis > 0)


# ------------------------------------------------------------------ Gabor: S2 (both envelopes) and S4

import numpy as _np


class SCx:
    """complex number re + i im with symbolic real parts"""

    def __init__(s, re, im):
        s.re, s.im = re, im

    __array_priority__ = 100

    def __mul__(s, o):
        if isinstance(o, _np.ndarray):
            return NotImplemented
        if isinstance(o, SCx):
            return SCx(s.re * o.re - s.im * o.im, s.re * o.im + s.im * o.re)
        return SCx(s.re * rv(o), s.im * rv(o))

    __rmul__ = __mul__

    def __add__(s, o):
        if isinstance(o, _np.ndarray):
            return NotImplemented
        if isinstance(o, SCx):
            return SCx(s.re + o.re, s.im + o.im)
        return SCx(s.re + rv(o), s.im)

    __radd__ = __add__


EXPARGS = []
CE = z3.Function('CEXP', R, R, R)


class CVal(SReal):
    def __init__(s, re, im):
        SReal.__init__(s, CE(re, im))
        s.re, s.im = re, im

    def conj(s):
        return CVal(s.re, -s.im)


def _srmul(self, o, _orig=SReal.__mul__):
    if isinstance(o, _np.ndarray):
        return NotImplemented
    if isinstance(o, complex):
        return SCx(self.z * rv(o.real), self.z * rv(o.imag))
    if isinstance(o, SCx):
        return o * self
    return _orig(self, o)


SReal.__mul__ = _srmul
SReal.__rmul__ = _srmul
_sadd = SReal.__add__


def _sradd(self, o):
    if isinstance(o, _np.ndarray):
        return NotImplemented
    if isinstance(o, complex):
        if o == 0:
            return self
        raise symex.Unsupported('symbolic value plus a concrete complex number')
    if isinstance(o, SCx):
        return o + self
    return _sadd(self, o)


SReal.__add__ = _sradd
SReal.__radd__ = _sradd


class GNP(fc.FNP):
    @staticmethod
    def exp(v):
        if isinstance(v, SCx):
            EXPARGS.append((z3.simplify(v.re), z3.simplify(v.im)))
            return CVal(v.re, v.im)
        if isinstance(v, SReal):
            EXPARGS.append((z3.simplify(v.z), None))
            return SReal(z3.Function('REXP', R, R)(v.z))
        return fc.FNP.exp(v)


def _apps(terms, name):
    seen = {}

    def walk(t):
        if z3.is_app(t):
            if t.decl().name() == name:
                seen[t.get_id()] = t
            for a in t.children():
                walk(a)
    for t in terms:
        walk(t)
    return list(seen.values())


def _lin_check(e, tol, assumptions=()):
    """|e| <= tol for all values of the atoms (fresh small solver: linear arithmetic + uninterpreted atoms)"""
    s = z3.Solver()
    s.set('timeout', 60000)
    for a in assumptions:
        s.add(a)
    s.add(z3.Or(e > tol, e < -tol))
    return check_sat(s)


def run_gabor(cfg):
    """(a) constructor: extract X (frequency edge: diff_ang = SQRT(X)/std) and Y (time edge: diff_samps = ceil(std SQRT(Y)))
    from the constructor's own terms and decide, in the log domain (L = LOG(std) the only atom), that the documented
    envelopes at the edges are <= threshold; (b) hand-built instance: the exponents the response methods compute are the
    documented Gaussians; (c) peak gain of the Fourier pair."""
    erb, l2 = cfg['erb'], cfg['l2']
    ns = fc.load_filters(dict(np=GNP), decimal=False)
    fc.stub_alias(ns)
    viol = []
    ob = dis = 0
    tol = z3.RealVal('1/1000000000')
    lpi, l2_ = math.log(math.pi), math.log(2)
    L = z3.Real('log_std')
    Cf = (rv(0.5) * (L + rv(l2_)) + rv(0.25 * lpi)) if l2 else z3.RealVal(0)         # docstring: C sqrt(2 s) pi^(1/4)
    Ct = (-rv(0.5) * L - rv(0.25 * lpi)) if l2 else (-L - rv(0.5 * (l2_ + lpi)))      # docstring: C s^(-1/2) pi^(-1/4); else unit area

    def body():
        c = Ctx.cur
        low, high = z3.Real('low_hz'), z3.Real('high_hz')
        c.assume(low >= 0, low < high, high <= 4000)
        try:
            b = fc.construct(ns, 'GaborFilterBank', SReal(low), SReal(high), 8000, 1, erb=erb, scale_l2_norm=l2)
        except Exception as e:
            symex.guard(e)
            return ('exception', '%s: %s' % (type(e).__name__, e))
        lo, hi = b._supports_ang[0]
        return ('ok', rv(b._stds[0]), (rv(hi) - rv(lo)) / 2, rv(b.supports[0][1]))

    for ctx, res in explore(body, max_paths=50):
        if res is None:
            continue
        if res[0] != 'ok':
            ob += 1
            viol.append(dict(kind='gabor', erb=erb, l2=l2, what=res[1]))
            continue
        _, std0, diff_ang, dsamp = res
        # name the (compound) std term: everything below is a small term over the atom `std`
        std = z3.Real('std')
        forms = [(std0, std), (z3.simplify(std0), std)]      # the proxies simplify operands: both syntactic forms occur
        diff_ang = z3.simplify(z3.substitute(z3.substitute(diff_ang, forms[0]), forms[1]))
        dsamp = z3.simplify(z3.substitute(z3.substitute(dsamp, forms[0]), forms[1]))
        sq_f = _apps([diff_ang], 'SQRT')
        sq_t = _apps([dsamp], 'SQRT')
        if len(sq_t) != 1 or len(sq_f) > 1:
            ob += 1
            viol.append(dict(kind='gabor', erb=erb, l2=l2, what='structure: support edges are not sqrt(.)/std resp. ceil(std*sqrt(.))'))
            continue
        if not sq_f:
            # constant numerator (no log term): diff_ang = k / std
            q = z3.simplify(diff_ang * std)
            s_ = z3.Solver()
            kq = z3.Real('kq')
            s_.add(std > 0, diff_ang * std != kq)
            # kq := value at std = 1
            kval = z3.simplify(z3.substitute(diff_ang, (std, z3.RealVal(1))))
            if not z3.is_rational_value(kval):
                ob += 1
                viol.append(dict(kind='gabor', erb=erb, l2=l2, what='structure: diff_ang is not const/std'))
                continue
            s_ = z3.Solver()
            s_.add(std > 0, diff_ang * std != kval)
            ob += 1
            if check_sat(s_) == 'sat':
                viol.append(dict(kind='gabor', erb=erb, l2=l2, what='structure: diff_ang is not const/std'))
                continue
            dis += 1
            X = kval * kval
            sq_f = []
        else:
            X = sq_f[0].arg(0)
        Y = sq_t[0].arg(0)
        # the only symbolic atom in X, Y is LOG(std): rename it to L
        logs = _apps([X, Y], 'LOG')
        subs = []
        okstruct = True
        for t in logs:
            if z3.simplify(t.arg(0) - std).eq(z3.RealVal(0)) or t.arg(0).eq(std):
                subs.append((t, L))
            else:
                okstruct = False
        if not okstruct:
            ob += 1
            viol.append(dict(kind='gabor', erb=erb, l2=l2, what='structure: log of something else than std in the support constants'))
            continue
        Xl = z3.substitute(X, *subs) if subs else X
        Yl = z3.substitute(Y, *subs) if subs else Y
        # structure of the edges themselves: diff_ang == SQRT(X)/std, diff_samps == ceil(std*SQRT(Y)) (checked syntactically via z3)
        sv = z3.Real('std')
        for name, e in (('frequency envelope at the support edge exceeds the threshold', -Xl / 2 + Cf - rv(LEPS)),
                        ('time envelope at the support edge exceeds the threshold', -Yl / 2 + Ct - rv(LEPS))):
            ob += 1
            s_ = z3.Solver()
            s_.add(e > tol)
            r = check_sat(s_)
            if r == 'sat':
                viol.append(dict(kind='gabor', erb=erb, l2=l2, what=name))
            else:
                dis += 1
        for name, sq, other in ([('diff_ang == sqrt(X)/std', sq_f[0], diff_ang)] if sq_f else []) + [('diff_samps >= std*sqrt(Y)', sq_t[0], dsamp)]:
            ob += 1
            s_ = z3.Solver()
            q = z3.Real('q')
            if name.startswith('diff_ang'):
                bad = z3.substitute(other, (sq, q)) * std != q
                s_.add(std > 0, q >= 0, bad)
            else:
                bad = z3.substitute(other, (sq, q)) < std * q
                s_.add(std > 0, q >= 0, bad)
            s_.set('timeout', 60000)
            r = check_sat(s_)
            if r == 'sat':
                viol.append(dict(kind='gabor', erb=erb, l2=l2, what='structure: ' + name))
            else:
                dis += 1
    # (c) peak gain consistency of the documented pair
    ob += 1
    if _lin_check((Ct + L + rv(0.5 * (l2_ + lpi))) - Cf, tol) == 'sat':
        viol.append(dict(kind='gabor', erb=erb, l2=l2, what='peak gain of the two closed forms inconsistent'))
    else:
        dis += 1
    # (b) exponents computed by the response methods on a hand-built instance
    C = ns['GaborFilterBank']

    def body2():
        c = Ctx.cur
        sv, xi = z3.Real('std'), z3.Real('xi')
        c.assume(sv > 0, xi >= 0, xi <= rv(math.pi))
        b = fc.handbuilt(ns, 'GaborFilterBank', _centers_ang=(SReal(xi),), _stds=(SReal(sv),), _supports_ang=((SReal(xi - 1), SReal(xi + 1)),),
                         _scale_l2_norm=l2, _rate=8000)
        del EXPARGS[:]
        b.get_frequency_response(0, 2)
        fargs = list(EXPARGS)
        del EXPARGS[:]
        b.get_impulse_response(0, 3)
        targs = list(EXPARGS)
        return sv, xi, fargs, targs
    for ctx, res in explore(body2, max_paths=50):
        if res is None:
            continue
        ob += 1
        sv, xi, fargs, targs = res
        if not fargs or not targs:
            viol.append(dict(kind='gabor', erb=erb, l2=l2, what='response methods did not evaluate an exponential'))
            continue
        twopi = rv(2 * math.pi)
        Ls = LOGEXP.f(sv)
        L2s = LOGEXP.f(2 * sv)
        Cf2 = (rv(0.5) * L2s + rv(0.25 * lpi)) if l2 else z3.RealVal(0)
        Ct2 = (-rv(0.5) * Ls - rv(0.25 * lpi)) if l2 else (-Ls - rv(0.5 * (l2_ + lpi)))
        # log atoms: LOG(2 std) = LOG(std) + log 2
        extra = [sv > 0, sv <= 50, xi >= 0, xi <= rv(math.pi), L2s == Ls + rv(l2_)]
        for t in _apps([x for pair in fargs + targs for x in pair if x is not None], 'LOG'):
            a = t.arg(0)
            extra.append(z3.Implies(a == sv, t == Ls))
            extra.append(z3.Implies(a == 2 * sv, t == L2s))

        def matches(term, cands):
            # is there a documented candidate that equals the computed term for ALL (std, xi)?  one small query per candidate
            for cnd in cands:
                r, _s = nra_check(extra + [z3.Or(term - cnd > tol, cnd - term > tol)], timeout_ms=20000)
                if r == 'unsat':
                    return True
            return False
        bad = []
        for (re, im) in fargs:
            cands = [-sv * sv / 2 * (xi - twopi * (rv(k) / 2 + p)) * (xi - twopi * (rv(k) / 2 + p)) + Cf2 for k in (0, 1) for p in range(-2, 3)]
            if not matches(re, cands):
                bad.append('frequency-response exponent %s' % str(re)[:120])
        for (re, im) in targs:
            if not matches(re, [-rv(t * t) / (2 * sv * sv) + Ct2 for t in range(0, 4)]):
                bad.append('impulse-response exponent %s' % str(re)[:120])
            if im is not None and not matches(im, [xi * t for t in range(-3, 4)]):
                bad.append('impulse-response phase %s' % str(im)[:120])
        if bad:
            viol.append(dict(kind='gabor', erb=erb, l2=l2, what='exponent computed by get_impulse_response / get_frequency_response differs from the documented Gaussian: ' + bad[0]))
        else:
            dis += 1
    for w in viol:
        w['class'] = 'gabor/%s' % w['what'][:50]
    return dict(obligations=ob, discharged=dis, violations=viol, samples=[{'config': cfg['name'], 'obligations': ob}], twin=dis > 0)


# ------------------------------------------------------------------ gammatone

def run_gt_freq(cfg):
    """|H(xi +- d)| = c (n-1)!/(alpha^2 + d^2)^(n/2) at the advertised edge d = diff_ang equals the threshold:
    the constructor computes d = sqrt(exp(A) - exp(B)); decided in the log domain on the extracted terms:
    B == 2 log(alpha)  and  A == (2/n)(log c + log (n-1)! - log eps)   (then alpha^2 + d^2 = exp(A) and log|H| = log eps)."""
    order, erb = cfg['order'], cfg['erb']
    l2 = bool(cfg.get('l2', False))      # C07 itself excludes L2 scaling; C06 uses this obligation for both settings
    ns = fc.load_filters(decimal=False)
    fc.stub_alias(ns)
    fc.stub_newton(ns)
    viol = []
    ob = dis = 0
    tol = z3.RealVal('1/1000000000')
    n = order
    lf = math.log(math.factorial(n - 1))

    def body():
        c = Ctx.cur
        low, high = z3.Real('low_hz'), z3.Real('high_hz')
        c.assume(low >= 0, low < high, high <= 4000)
        try:
            b = fc.construct(ns, 'ComplexGammatoneFilterBank', SReal(low), SReal(high), 8000, 1, order=order, erb=erb, **(dict(scale_l2_norm=True) if l2 else {}))
        except Exception as e:
            symex.guard(e)
            return ('exception', '%s: %s' % (type(e).__name__, e))
        lo, hi = b._supports_ang[0]
        return ('ok', rv(b._alphas[0]), rv(b._cs[0]), (rv(hi) - rv(lo)) / 2)

    for ctx, res in explore(body, max_paths=50):
        if res is None:
            continue
        ob += 1
        if res[0] != 'ok':
            viol.append(dict(kind='gt_freq', order=order, erb=erb, l2=l2, what=res[1], **{'class': 'gt_freq/exception'}))
            continue
        _, alpha, cc, d = res
        if not (z3.is_app(alpha) and alpha.decl().name() == 'EXP' and z3.is_app(cc) and cc.decl().name() == 'EXP'):
            viol.append(dict(kind='gt_freq', order=order, erb=erb, l2=l2, what='structure: alpha / c are not exp(.)', **{'class': 'gt_freq/structure'}))
            continue
        la, lc = alpha.arg(0), cc.arg(0)
        sq = _apps([z3.simplify(d)], 'SQRT')
        if len(sq) != 1:
            viol.append(dict(kind='gt_freq', order=order, erb=erb, l2=l2, what='structure: edge is not a square root', **{'class': 'gt_freq/structure'}))
            continue
        exps = _apps([sq[0].arg(0)], 'EXP')
        if len(exps) != 2:
            viol.append(dict(kind='gt_freq', order=order, erb=erb, l2=l2, what='structure: sqrt argument is not exp(A) - exp(B)', **{'class': 'gt_freq/structure'}))
            continue
        # which is A (positive sign)?  sqrt argument == EXP(A) - EXP(B)
        e1, e2 = exps
        s_ = z3.Solver()
        s_.add(sq[0].arg(0) != e1 - e2)
        if check_sat(s_) == 'unsat':
            A, B = e1.arg(0), e2.arg(0)
        else:
            s_ = z3.Solver()
            s_.add(sq[0].arg(0) != e2 - e1)
            if check_sat(s_) != 'unsat':
                viol.append(dict(kind='gt_freq', order=order, erb=erb, l2=l2, what='structure: sqrt argument is not exp(A) - exp(B)', **{'class': 'gt_freq/structure'}))
                continue
            A, B = e2.arg(0), e1.arg(0)
        bad = False
        for name, e in (('B == 2 log alpha', B - 2 * la), ('exp(A) == (c (n-1)!/eps)^(2/n)', A - rv(2 / n) * (lc + rv(lf) - rv(LEPS)))):
            if _lin_check(e, tol) == 'sat':
                bad = True
                viol.append(dict(kind='gt_freq', order=order, erb=erb, l2=l2, what='gammatone frequency envelope at the support edge is not the threshold: ' + name, **{'class': 'gt_freq/edge'}))
        if not bad:
            dis += 1
    return dict(obligations=ob, discharged=dis, violations=viol, samples=[{'config': cfg['name']}], twin=dis > 0)


class HTok:
    def __init__(s, t):
        s.t = t


class AbsTok:
    def __init__(s, t, state):
        s.t, s.state = t, state
        state['evaluated'].append(t)

    def __gt__(s, eps):
        # loop condition `h_0 > eps`: true once (one Newton step is taken), then false (exit condition holds)
        s.state.setdefault('eps_seen', []).append(eps)
        s.state['tests'] += 1
        return s.state['tests'] == 1

    def __truediv__(s, o):
        return StepTok()


class StepTok:
    pass


def run_gt_time(cfg):
    order, mc = cfg['order'], cfg['mc']
    state = {'evaluated': [], 'tests': 0, 'steps': 0}

    class TNP(fc.FNP):
        @staticmethod
        def abs(v):
            if isinstance(v, HTok):
                return AbsTok(v.t, state)
            return fc.FNP.abs(v)
    ns = fc.load_filters(dict(np=TNP), decimal=False)
    G = ns['ComplexGammatoneFilterBank']
    _ssub = SReal.__sub__

    def ssub(self, o):
        if isinstance(o, StepTok):
            state['steps'] += 1
            nxt = z3.Real('right_after_step_%d' % state['steps'])
            Ctx.cur.solver.add(nxt >= self.z)        # the search moves to the right (envelope decreasing, derivative negative)
            return SReal(nxt)
        return _ssub(self, o)
    viol = []
    ob = dis = 0

    def body():
        c = Ctx.cur
        state.update(evaluated=[], tests=0, steps=0)
        a, cc = z3.Real('alpha'), z3.Real('c')
        c.assume(a > 0, a <= 2, cc > 0)
        b = G.__new__(G)
        b._order = order
        b._alphas = (SReal(a),)
        b._cs = (SReal(cc),)
        off = -rv(order - 1) / a if mc else z3.RealVal(0)
        b._offsets = (SReal(off) if mc else 0,)
        b._h = lambda t, idx: HTok(rv(t))
        SReal.__sub__ = ssub
        # the threshold is configuration: read when the support is computed, not when the module was imported.  It is
        # changed here, after the module has been loaded, to a marker value; the search must compare with the marker.
        cfgmod = ns['config']
        thr0 = cfgmod.EFFECTIVE_SUPPORT_THRESHOLD
        marker = thr0 * 0.123456789
        state['eps_seen'] = []
        cfgmod.EFFECTIVE_SUPPORT_THRESHOLD = marker
        try:
            lo, hi = b._calculate_temp_support(0)
        except Exception as e:
            symex.guard(e)
            return ('exception', '%s: %s' % (type(e).__name__, e))
        finally:
            SReal.__sub__ = _ssub
            cfgmod.EFFECTIVE_SUPPORT_THRESHOLD = thr0
        if not state['evaluated']:
            return ('exception', 'no exit condition evaluated')
        for e_ in state['eps_seen']:
            try:
                ev = float(e_)
            except Exception:
                ev = None
            if ev is None or abs(ev - marker) > 1e-12 * marker:
                return ('late_threshold', 'the support search compares |h| with %r although config.EFFECTIVE_SUPPORT_THRESHOLD is %r at the time of the call (a value bound when the module was loaded)' % (e_, marker))
        p = state['evaluated'][-1]          # the sample at which the code checked |h(p)| <= threshold on exit
        mode_t = rv(order - 1) / a + off    # the envelope of h(t) = env(t - offset) peaks at t = (n-1)/alpha + offset
        # beyond p the envelope is <= threshold provided p lies beyond the mode; the advertised last sample must reach p
        bad = [rv(hi) + 1 < p, p < mode_t, rv(lo) > off, rv(lo) < off - 1]
        return ('ok', bad, p)

    for ctx, res in explore(body, max_paths=100):
        if res is None:
            continue
        ob += 1
        if res[0] != 'ok':
            viol.append(dict(kind='gt_time', order=order, mc=mc, what=res[1], late_threshold=res[0] == 'late_threshold', **{'class': 'gt_time/' + res[0]}))
            continue
        r, s2 = nra_check(list(ctx.solver.assertions()) + [z3.Or(res[1])], timeout_ms=60000)
        if r == 'sat':
            m = s2.model()
            av = m.eval(z3.Real('alpha'), True)
            names = ['temporal support ends before the sample at which the envelope was found below the threshold',
                     'the sample at which the search stopped lies before the peak of the envelope',
                     'temporal support starts after the onset of the filter (causal: sample 0; max_centered: floor(offset))',
                     'temporal support starts more than one sample before the onset of the filter']
            which = [n_ for n_, cl_ in zip(names, res[1]) if z3.is_true(m.eval(cl_, True))]
            viol.append(dict(kind='gt_time', order=order, mc=mc, what=(which or names)[0],
                             alpha=float(av.as_fraction()) if z3.is_rational_value(av) else 0.1, **{'class': 'gt_time/short/mc=%s' % mc}))
        elif r == 'unsat':
            dis += 1
        else:
            raise Inconclusive('gt_time query %s' % r)
    return dict(obligations=ob, discharged=dis, violations=viol, samples=[{'config': cfg['name'], 'exit_condition_evaluated_at': [str(t) for t in state['evaluated'][-1:]]}], twin=dis > 0)


class PNP:
    """NumPy for the placement check: real NumPy (object arrays of proxies: index arithmetic, fftshift, roll are
    NumPy's own), with zeros -> object array and exp / log / sqrt element-wise on the proxies"""

    def __getattr__(self, n):
        if hasattr(GNP, n):
            return getattr(GNP, n)
        return getattr(_np, n)

    float64 = 'f8'
    complex128 = 'c16'
    pi = math.pi

    @staticmethod
    def zeros(n, dtype=None):
        r = _np.empty(n, dtype=object)
        r[...] = 0
        return r

    @staticmethod
    def exp(v):
        if isinstance(v, _np.ndarray):
            return _np.frompyfunc(GNP.exp, 1, 1)(v)
        return GNP.exp(v)


def run_gabor_place(cfg):
    """GaborFilterBank.get_impulse_response(i, W), W concrete, centre and std symbolic: sample n must be the sum of the
    documented terms exp(-t^2 / (2 std^2) + C + i xi t) over integers t congruent to n modulo W (aliasing into a short
    buffer), must contain the representative nearest to 0, and nothing else.  The exponents are read off the CEXP
    tokens the real code builds; each is matched against the candidates t = n + kW for all (std, xi) (nlsat)."""
    l2 = cfg['l2']
    ns = fc.load_filters(dict(np=PNP()), decimal=False)
    fc.stub_alias(ns)
    viol = []
    ob = dis = 0
    tol = z3.RealVal('1/1000000000')
    lpi, l2_ = math.log(math.pi), math.log(2)
    sv, xi = z3.Real('std'), z3.Real('xi')
    Ls = LOGEXP.f(sv)
    Ct2 = (-rv(0.5) * Ls - rv(0.25 * lpi)) if l2 else (-Ls - rv(0.5 * (l2_ + lpi)))
    for W in cfg['widths']:
        def body():
            c = Ctx.cur
            c.assume(sv > 0, xi >= 0, xi <= rv(math.pi))
            b = fc.handbuilt(ns, 'GaborFilterBank', _centers_ang=(SReal(xi),), _stds=(SReal(sv),), _supports_ang=((SReal(xi - 1), SReal(xi + 1)),),
                             _scale_l2_norm=l2, _rate=8000)
            del EXPARGS[:]
            try:
                res = b.get_impulse_response(0, W)
            except Exception as e:
                symex.guard(e)
                return ('exception', '%s: %s' % (type(e).__name__, e))
            if len(res) != W:
                return ('length', len(res))
            return ('ok', [rv(res[n]) if not isinstance(res[n], (int, float)) else z3.RealVal(res[n]) for n in range(W)])
        for ctx, res in explore(body, max_paths=20):
            if res is None:
                continue
            ob += 1
            base = dict(kind='gabor_place', l2=l2, width=W)
            if res[0] != 'ok':
                viol.append(dict(base, what='%s %s' % (res[0], res[1])))
                continue
            extra = [sv > 0, sv <= 50, xi >= 0, xi <= rv(math.pi)]
            bad = None
            for n, cell in enumerate(res[1]):
                apps = _apps([cell], 'CEXP')
                for t in _apps([a_ for ap in apps for a_ in ap.children()], 'LOG'):
                    extra.append(z3.Implies(t.arg(0) == sv, t == Ls))
                found = set()
                for ap in apps:
                    re_, im_ = ap.arg(0), ap.arg(1)
                    hit = None
                    for k in (0, -1, 1, -2, 2, -3, 3):
                        t = n + k * W
                        r1, _ = nra_check(extra + [z3.Or(im_ - xi * t > tol, xi * t - im_ > tol)], timeout_ms=20000)
                        if r1 != 'unsat':
                            continue
                        cnd = -rv(t * t) / (2 * sv * sv) + Ct2
                        r2, _ = nra_check(extra + [z3.Or(re_ - cnd > tol, cnd - re_ > tol)], timeout_ms=20000)
                        if r2 == 'unsat':
                            hit = t
                            break
                    if hit is None:
                        bad = 'sample %d of %d contains a term exp(%s + i(%s)) that is not the documented Gaussian carrier at a time congruent to %d' % (n, W, str(z3.simplify(re_))[:60], str(z3.simplify(im_))[:40], n)
                        break
                    found.add(hit)
                if bad:
                    break
                nearest = {n, n - W} if 2 * n == W else ({n} if 2 * n < W else {n - W})
                if not (found & nearest):
                    bad = 'sample %d of %d lacks the term at time %s (found times %s)' % (n, W, sorted(nearest), sorted(found))
                    break
                # the cell is exactly the sum of its terms (unit coefficients)
                if not z3.simplify(cell - z3.Sum(apps)).eq(z3.RealVal(0)):
                    s_ = z3.Solver()
                    s_.add(cell != z3.Sum(apps))
                    if check_sat(s_) == 'sat':
                        bad = 'sample %d of %d is not the plain sum of its exponential terms' % (n, W)
                        break
            if bad:
                viol.append(dict(base, what=bad))
            else:
                dis += 1
    for w in viol:
        w['class'] = 'gabor_place/%s/%s' % ('odd' if w['width'] % 2 else 'even', w['what'].split(' of ')[0][:20] if ' of ' in w['what'] else w['what'][:20])
    return dict(obligations=ob, discharged=dis, violations=viol, twin=dis > 0,
                samples=[{'config': cfg['name'], 'obligation': 'forall std, xi: h[n] = sum over t = n mod W of the documented term, nearest representative present', 'widths': cfg['widths']}])


def run_gt_impulse(cfg):
    """ComplexGammatoneFilterBank.get_impulse_response(i, W) of a causal filter with symbolic c, alpha, xi: sample n is
    the sum over t = n + pW (t > 0, inside the support) of c t^(n-1) exp(-alpha t) exp(i xi t).  Every additive term of a
    cell is split into (rational multiple of c or 1) x CEXP(re, im); log-magnitude and phase are compared with the
    documented ones for all (log c, alpha, xi) -- linear in these atoms.  Index arithmetic is NumPy's own (object
    arrays), so integer powers evaluated on int64 arrays wrap exactly as they do in the library."""
    order, W = cfg['order'], cfg['width']
    ns = fc.load_filters(dict(np=PNP()), decimal=False)
    fc.stub_alias(ns)
    viol = []
    ob = dis = 0
    cz, al, xi = z3.Real('c'), z3.Real('alpha'), z3.Real('xi')
    Lc = LOGEXP.f(cz)
    Lv = z3.Real('log_c')
    R_ = W + W // 2            # support (0, R_): two periods alias into the buffer
    tol = z3.RealVal('1/100000000')

    def body():
        c = Ctx.cur
        c.assume(cz > 0, al > 0, al <= 2, xi >= 0, xi <= rv(math.pi))
        b = fc.handbuilt(ns, 'ComplexGammatoneFilterBank', _order=order, _alphas=(SReal(al),), _cs=(SReal(cz),), _xis=(SReal(xi),), _offsets=(0,),
                         _supports=((0, R_),), _rate=8000)
        del EXPARGS[:]
        try:
            res = b.get_impulse_response(0, W)
        except Exception as e:
            symex.guard(e)
            return ('exception', '%s: %s' % (type(e).__name__, e))
        if len(res) != W:
            return ('length', len(res))
        return ('ok', [res[n] for n in range(W)])

    def summands(term):
        term = z3.simplify(term, som=True)
        parts = list(term.children()) if z3.is_add(term) else [term]
        out = []
        for p_ in parts:
            apps = _apps([p_], 'CEXP')
            if len(apps) != 1:
                if z3.is_rational_value(p_) and p_.as_fraction() == 0:
                    continue
                return None
            coef = z3.simplify(z3.substitute(p_, (apps[0], z3.RealVal(1))))
            out.append((coef, apps[0]))
        return out

    for ctx, res in explore(body, max_paths=10):
        if res is None:
            continue
        ob += 1
        base = dict(kind='gt_impulse', order=order, width=W)
        if res[0] != 'ok':
            viol.append(dict(base, what='%s %s' % (res[0], res[1])))
            continue
        bad = None
        for n, cell in enumerate(res[1]):
            nper = -(-R_ // W)
            want_ts = [t for t in range(n, R_ + 1, W) if t > 0]
            cellz = rv(cell) if not isinstance(cell, (int, float, complex)) else z3.RealVal(0)
            sm = summands(cellz)
            if sm is None:
                bad = 'sample %d: not a sum of (coefficient x complex exponential) terms' % n
                break
            found = []
            for coef, app in sm:
                k1 = z3.simplify(z3.substitute(coef, (cz, z3.RealVal(1))))
                k2 = z3.simplify(z3.substitute(coef, (cz, z3.RealVal(2))))
                if not (z3.is_rational_value(k1) and z3.is_rational_value(k2)):
                    bad = 'sample %d: coefficient %s is not a constant multiple of c' % (n, str(coef)[:60])
                    break
                f1, f2 = k1.as_fraction(), k2.as_fraction()
                has_c = f2 == 2 * f1 and f1 != 0
                if f1 == 0:
                    continue
                if not (has_c or f2 == f1) or f1 <= 0:
                    bad = 'sample %d: term with coefficient %s (negative or not proportional to c): the closed form has positive terms c t^(n-1) e^(-alpha t)' % (n, f1)
                    break
                logk = math.log(float(f1)) if f1 < 10 ** 300 else float('inf')
                re_ = z3.substitute(app.arg(0), (Lc, Lv))
                im_ = app.arg(1)
                hit = None
                tq = z3.simplify(z3.substitute(im_, (xi, z3.RealVal(1))))       # phase = xi * t: read t off the phase
                if z3.is_rational_value(tq) and tq.as_fraction().denominator == 1 and z3.simplify(im_ - xi * tq).eq(z3.RealVal(0)):
                    t = int(tq.as_fraction())
                    if t > 0:
                        doc = Lv + rv((order - 1) * math.log(t)) - al * t
                        mag = rv(logk) + (Lv if has_c else 0) + re_
                        d_ = z3.simplify(mag - doc)
                        if z3.is_rational_value(d_) and abs(float(d_.as_fraction())) <= 1e-8:
                            hit = t
                if hit is None:
                    bad = 'sample %d of %d: a term (coefficient %.6g%s, phase %s) is not c t^%d e^(-alpha t) e^(i xi t) at an integer time t > 0' % (
                        n, W, float(f1), ' c' if has_c else '', str(z3.simplify(im_))[:30], order - 1)
                    break
                found.append(hit)
            if bad:
                break
            allowed = [t for t in range(n, (nper + 2) * W, W) if t > 0]
            if len(set(found)) != len(found) or not set(want_ts) <= set(found) or not set(found) <= set(allowed):
                bad = 'sample %d of %d: terms at t = %s; documented: every t = %d mod %d inside the support %s exactly once, none outside the periods the support spans' % (
                    n, W, sorted(found), n, W, want_ts)
                break
        if bad:
            viol.append(dict(base, what=bad))
        else:
            dis += 1
    for w in viol:
        w['class'] = 'gt_impulse/n%d/%s' % (order, w['what'].split(':')[0][:12])
    return dict(obligations=ob, discharged=dis, violations=viol, twin=dis > 0,
                samples=[{'config': cfg['name'], 'obligation': 'forall c, alpha, xi: h[n] = sum_{t = n mod W, 0 < t <= R} c t^(order-1) exp(-alpha t) exp(i xi t)', 'support': [0, R_]}])


COSF = z3.Function('COS', R, R)


def _fv(m, name):
    v = m.eval(z3.Real(name), model_completion=True)
    try:
        return float(v.as_fraction()) if z3.is_rational_value(v) else float(v.approx(12).as_fraction())
    except Exception:
        return 0.0


def run_tri_impulse(cfg):
    """TriangularOverlappingFilterBank.get_impulse_response (real bank), symbolic vertices, concrete buffer width W: sample n,
    multiplied by pi (R-M)(M-L), is N(n)/n^2 + N(W-n)/(W-n)^2 with N(t) = (R-L)cos(Mt) - (R-M)cos(Lt) - (M-L)cos(Rt) -- the
    inverse Fourier transform of the triangle, folded once each way -- and sample 0 is N(W)/W^2 plus the area term
    (R-L)(R-M)(M-L)/2.  cos is an uninterpreted function (only equal arguments matter), pi and the Hz -> rad/sample factor
    are positive symbolic constants; both orderings of the two edge widths are explored (the code picks its divisor by
    that ordering).  The symbolic denominators are cleared by exact polynomial arithmetic (vlib/ratpoly.py: nlsat does not
    finish on the rational form); z3 then decides the division-free statement `numerator != 0` under the path condition."""
    from vlib import ratpoly
    W = cfg['width']

    class P(PNP):
        @staticmethod
        def cos(v):
            return SReal(COSF(z3.simplify(rv(v)))) if symex.is_sym(v) else math.cos(v)
    if not hasattr(SReal, 'conj'):
        SReal.conj = lambda s_: s_
    PI_, K_ = z3.Real('PI'), z3.Real('rad_per_hz')
    P.pi = SReal(PI_)
    ns = fc.load_filters(dict(np=P()), decimal=False)
    fc.stub_alias(ns)
    ns['hertz_to_angular'] = lambda hz, rate: hz * SReal(K_)
    viol = []
    ob = dis = 0
    lz, mz, rz = z3.Real('left_hz'), z3.Real('mid_hz'), z3.Real('right_hz')

    def body():
        c = Ctx.cur
        c.assume(lz >= 0, lz < mz, mz < rz, rz <= 4000, PI_ > 3, PI_ < 4, K_ > 0, K_ < 1)
        b = fc.handbuilt(ns, 'TriangularOverlappingFilterBank', _vertices=(SReal(lz), SReal(mz), SReal(rz)), _rate=8000, _analytic=False)
        try:
            res = b.get_impulse_response(0, W)
        except Exception as e:
            symex.guard(e)
            return ('exception', '%s: %s' % (type(e).__name__, e))
        if len(res) != W:
            return ('length', len(res))
        return ('ok', [rv(x) if not isinstance(x, (int, float)) else z3.RealVal(x) for x in res])

    for ctx, res in explore(body, max_paths=20):
        if res is None:
            continue
        ob += 1
        base = dict(kind='tri_impulse', width=W)
        if res[0] != 'ok':
            viol.append(dict(base, what='%s %s' % (res[0], res[1]), **{'class': 'tri_impulse/' + res[0]}))
            continue
        cells = res[1]
        L_, M_, R_ = lz * K_, mz * K_, rz * K_

        def N(t):
            return (R_ - L_) * COSF(M_ * t) - (R_ - M_) * COSF(L_ * t) - (M_ - L_) * COSF(R_ * t)
        diffs = []
        for n in range(W):
            if n == 0:
                want = N(W) / (W * W) + (R_ - L_) * (R_ - M_) * (M_ - L_) / 2
            else:
                want = N(n) / (n * n) + N(W - n) / ((W - n) * (W - n))
            diffs.append(cells[n] * PI_ * (R_ - M_) * (M_ - L_) - want)
        verdict = 'unsat'
        # max / min of symbolic values are if-then-else terms: one case per feasible combination
        for terms, conds in ratpoly.ite_cases(diffs, list(ctx.pc)):
            env = {}
            try:
                nums = [ratpoly.normalise(t_, env).n for t_ in terms]
            except ValueError as e:
                raise symex.Inconclusive('impulse response is not a rational expression in the vertices and cosines: %s' % e)
            if all(p_.is_zero() for p_ in nums):
                continue
            # some numerator is not the zero polynomial: z3 finds vertices (and values of the opaque cosines) where it differs
            s_ = z3.Solver()
            s_.set('timeout', 120000)
            s_.add(*ctx.pc)
            s_.add(*conds)
            fresh = {name: (t_ if t_.decl().arity() == 0 else z3.Real('cosv%d' % i)) for i, (name, t_) in enumerate(sorted(env.items()))}
            s_.add(z3.Or([p_.to_z3(fresh) != 0 for p_ in nums if not p_.is_zero()]))
            r = str(s_.check())
            if r == 'sat':
                m = s_.model()
                viol.append(dict(base, what='impulse response differs from the inverse transform of the triangle', left=_fv(m, 'left_hz'), mid=_fv(m, 'mid_hz'), right=_fv(m, 'right_hz'),
                                 **{'class': 'tri_impulse/value'}))
                verdict = 'sat'
                break
            if r != 'unsat':
                raise symex.Inconclusive('solver: %s' % r)
        if verdict == 'unsat':
            dis += 1
    return dict(obligations=ob, discharged=dis, violations=viol, samples=[{'config': cfg['name']}], twin=dis > 0)


def run_config(cfg):
    if cfg['kind'] == 'tri_impulse':
        return run_tri_impulse(cfg)
    if cfg['kind'] == 'gt_impulse':
        return run_gt_impulse(cfg)
    if cfg['kind'] == 'gabor_place':
        return run_gabor_place(cfg)
    return {'dtype': run_dtype, 'straddle': run_straddle, 'gabor': run_gabor, 'gt_freq': run_gt_freq, 'gt_time': run_gt_time}[cfg['kind']](cfg)


# ------------------------------------------------------------------ replay on real banks

def replay(w):
    import numpy as np
    from pydrobert.speech import filters, config
    thr = _thr_at_entry = config.EFFECTIVE_SUPPORT_THRESHOLD
    k = w['kind']
    try:
        if k == 'dtype':
            C = getattr(filters, w['cls'])
            b = C(num_filts=3, sampling_rate=8000, analytic=w['analytic']) if w['cls'] == 'Fbank' else (
                C('mel', num_filts=3, sampling_rate=8000, analytic=w['analytic']) if w['cls'].startswith('Tri') else C('mel', num_filts=3, sampling_rate=8000))
            h = b.get_impulse_response(1, 256)
            return {'reproduced': np.isrealobj(h) != bool(b.is_real), 'detail': 'impulse response dtype %s, is_real=%s' % (h.dtype, b.is_real)}
        if k == 'gt_time':
            worst = (0.0, None)
            if w.get('late_threshold'):
                # the threshold is lowered after the import, before the bank is built (restored by the caller below)
                thr = config.EFFECTIVE_SUPPORT_THRESHOLD = thr / 25.0
            for sc in ('mel', 'bark'):
                b = filters.ComplexGammatoneFilterBank(sc, num_filts=8, low_hz=60.0, sampling_rate=8000, order=w['order'], max_centered=w['mc'])
                for i in range(b.num_filts):
                    lo, hi = b.supports[i]
                    if not w['mc'] and lo != 0:
                        return {'reproduced': True, 'detail': 'causal gammatone (order %d, %s, filter %d of 8): temporal support (%d, %d) does not start at sample 0' % (w['order'], sc, i, lo, hi)}
                    if w['mc'] and not (lo <= 0 <= hi):
                        return {'reproduced': True, 'detail': 'max_centered gammatone (order %d, %s, filter %d of 8): temporal support (%d, %d) does not straddle sample 0' % (w['order'], sc, i, lo, hi)}
                    width = 4 * (hi - lo) + 64
                    h = np.abs(b.get_impulse_response(i, width))
                    idx = np.arange(width)
                    inside = np.zeros(width, bool)
                    inside[np.arange(lo, hi + 1) % width] = True
                    out = h[~inside].max() if (~inside).any() else 0.0
                    if out > worst[0]:
                        worst = (float(out), '%s filter %d supports (%d, %d)' % (sc, i, lo, hi))
            return {'reproduced': worst[0] > 2 * thr, 'detail': 'max |h| outside supports = %.3g = %.1f x threshold (order %d, max_centered=%s; %s)' % (worst[0], worst[0] / thr, w['order'], w['mc'], worst[1])}
        if k in ('gabor', 'gt_freq'):
            C = filters.GaborFilterBank if k == 'gabor' else filters.ComplexGammatoneFilterBank
            kw = dict(erb=w['erb'])
            if k == 'gabor':
                kw['scale_l2_norm'] = w['l2']
            else:
                kw['order'] = w['order']
            worst = (0.0, None)
            for nfb, b in [(nf_, C('mel', num_filts=nf_, low_hz=100.0, sampling_rate=8000, **kw)) for nf_ in (8, 24)]:
              for i in range(b.num_filts):
                  width = 1 << 14
                  H = np.abs(b.get_frequency_response(i, width))
                  lo, hi = b.supports_hz[i]
                  f = np.arange(width) * 8000.0 / width
                  f = np.where(f > 4000 + (hi - 4000 if hi > 4000 else 0) + 1e9, f - 8000, f)
                  outside = ~(((f >= lo) & (f <= hi)) | ((f - 8000 >= lo) & (f - 8000 <= hi)))
                  v = H[outside].max() if outside.any() else 0.0
                  if v > worst[0]:
                      worst = (float(v), 'filter %d' % i)
                  if k == 'gabor':
                      s0, s1 = b.supports[i]
                      wt = 4 * (s1 - s0) + 64
                      h = np.abs(b.get_impulse_response(i, wt))
                      ins = np.zeros(wt, bool)
                      ins[np.arange(s0, s1 + 1) % wt] = True
                      v2 = h[~ins].max() * 1.25      # time-domain clause allows 2 x threshold, frequency 2.5 x: normalise to the latter
                      if v2 > worst[0]:
                          worst = (float(v2), 'filter %d of %d (time; %.1f x threshold)' % (i, nfb, v2 / 1.25 / thr))
            return {'reproduced': worst[0] > 2.5 * thr, 'detail': 'max magnitude outside the advertised support = %.3g (%.1f x threshold) at %s' % (worst[0], worst[0] / thr, worst[1])}
        if k == 'tri_impulse':
            # the property's own criterion on real banks with the witness vertices (and two further triangles, one with
            # the wider lower edge, one with the wider upper edge), in buffers long enough to resolve the filter:
            # |ifft(get_frequency_response) - get_impulse_response| <= 2 x threshold.  A different but legitimate way of
            # folding the tails into a short buffer does not reproduce here and ends without a verdict.
            worst = (0.0, None)
            cands = [(w.get('left', 100.0), w.get('mid', 900.0), w.get('right', 1300.0)), (500.0, 2500.0, 3000.0), (500.0, 1000.0, 3000.0)]
            for l_, m_, r_ in cands:
                if not (0 <= l_ < m_ < r_ <= 4000) or r_ - l_ < 100:
                    continue
                b = fc.real_handbuilt(filters.TriangularOverlappingFilterBank, _vertices=(l_, m_, r_), _rate=8000, _analytic=False)
                for W in (1024, 2049):
                    h = b.get_impulse_response(0, W)
                    H = b.get_frequency_response(0, W)
                    d = float(np.abs(np.fft.ifft(H) - h).max())
                    if d > worst[0]:
                        worst = (d, 'triangle (%g, %g, %g) Hz at 8 kHz, width %d' % (l_, m_, r_, W))
            return {'reproduced': worst[0] > 2 * thr, 'detail': 'max |ifft(get_frequency_response) - get_impulse_response| = %.3g (%.1f x threshold; %s)' % (worst[0], worst[0] / thr, worst[1])}
        if k == 'gt_impulse':
            worst = (0.0, None)
            for rate, nf in ((8000, 6), (44100, 40)):
                b = filters.ComplexGammatoneFilterBank('mel', num_filts=nf, sampling_rate=rate, order=w['order'])
                for i in sorted(set([0, 1, nf // 2, nf - 1])):
                    s0, s1 = b.supports[i]
                    for width in (2 * (s1 - s0) + 1, 2 * (s1 - s0) + 2):
                        h = b.get_impulse_response(i, width)
                        H = b.get_frequency_response(i, width)
                        d = float(np.abs(np.fft.ifft(H) - h).max())
                        if d > worst[0]:
                            worst = (d, 'order %d, %d Hz, filter %d of %d, width %d' % (w['order'], rate, i, nf, width))
            return {'reproduced': worst[0] > 4 * thr, 'detail': 'max |ifft(get_frequency_response) - get_impulse_response| = %.3g (%.1f x threshold; %s)' % (worst[0], worst[0] / thr, worst[1])}
        if k == 'gabor_place':
            worst = (0.0, None)
            for sc_ in ('mel', 'bark'):
                b = filters.GaborFilterBank(sc_, num_filts=6, low_hz=100.0, sampling_rate=8000, scale_l2_norm=w['l2'])
                for i in range(b.num_filts):
                    s0, s1 = b.supports[i]
                    for width in (2 * (s1 - s0) + 1, 2 * (s1 - s0) + 2, 4 * (s1 - s0) + 1, 4 * (s1 - s0) + 2):     # both parities; wide enough for negligible aliasing
                        if width < 1:
                            continue
                        h = b.get_impulse_response(i, width)
                        H = b.get_frequency_response(i, width)
                        d = float(np.abs(np.fft.ifft(H) - h).max())
                        # both are periodised samplings of the same Fourier pair: they agree up to the truncated tails
                        if d > worst[0]:
                            worst = (d, 'filter %d width %d' % (i, width))
            return {'reproduced': worst[0] > 4 * thr, 'detail': 'max |ifft(get_frequency_response) - get_impulse_response| = %.3g (%.1f x threshold) at %s' % (worst[0], worst[0] / thr, worst[1])}
        if k == 'straddle':
            C = getattr(filters, w['cls'])
            for kw in ({}, {'max_centered': True} if w['cls'].startswith('Complex') else {}):
                b = C(num_filts=5, sampling_rate=8000) if w['cls'] == 'Fbank' else C('mel', num_filts=5, sampling_rate=8000, **kw)
                for (lo, hi) in b.supports:
                    zero_phase = b.is_zero_phase
                    if zero_phase and not (lo < 0 < hi):
                        return {'reproduced': True, 'detail': 'zero-phase support (%d, %d) does not straddle 0' % (lo, hi)}
                    if not zero_phase and not kw and lo != 0:
                        return {'reproduced': True, 'detail': 'causal gammatone support starts at %d' % lo}
            return {'reproduced': False, 'detail': 'supports straddle / start at 0'}
    except Exception as e:
        return {'reproduced': True, 'detail': 'real bank raised %s: %s' % (type(e).__name__, e)}
    finally:
        config.EFFECTIVE_SUPPORT_THRESHOLD = _thr_at_entry
    return {'reproduced': False, 'detail': '?'}
