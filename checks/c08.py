"""C08 -- alias / JSON configuration builds the same objects as explicit construction (DESIGN 3/C08)."""
import json
import os
import re
import subprocess
import sys
import time

import z3

from vlib import loader, symex
from vlib.symex import Ctx, decide, explore, Inconclusive

PID = 'C08'
LEVEL = 'other'
ENGINE = 'crosshair+pysymex'
TECHNIQUE = ('CrossHair (symbolic execution of Python with z3) on the real alias module for symbolic alias strings and mappings; '
             'pysymex fork-exploration of alias_factory_subclass_from_arg; exhaustive enumeration of the finite class registry; '
             'concrete differential replay of nested JSON configurations against explicit construction')
FUNCTIONS = ['alias:AliasedFactory.from_alias', 'alias:alias_factory_subclass_from_arg']
EXPLANATION = (
    'CrossHair checks PEP-316 contracts of a generated module that imports the real pydrobert.speech.alias from the '
    'working tree: for a symbolic alias string (len <= 7) the resolver applied to a probe hierarchy (shared aliases between '
    'siblings, a later-registered descendant re-using its ancestor\'s alias) returns the last-registered class carrying the '
    'alias and raises ValueError otherwise (the mapping contract was left unconfirmed by CrossHair even for one-key mappings, so it is not posed to CrossHair). A pysymex exploration '
    'of alias_factory_subclass_from_arg decides instance identity, string => default arguments, mapping => keyword '
    'arguments with alias over name (name forwarded when both are present). The real registries are enumerated '
    'exhaustively (finite) against an independent oracle. Nested JSON-round-tripped configurations are compared with '
    'explicit construction on a grid of real computers (state equality and bit-identical features).')
BOUNDS = {'quick': 'CrossHair: alias strings up to 7 characters, 40 s per condition; from_arg: all combinations of {alias, name, extra kw} x alias values; registry: all classes and, per family, every near miss of a registered alias (other letter case, surrounding blanks / newline, one character more or less, empty string); lookup history: 0-2 earlier lookups (5 alias values, through the family root or a concrete class) x late registration below a concrete class with / without a sibling of the root in between x final lookup; nested configs: 24 trees',
          'thorough': 'CrossHair 150 s per condition, strings up to 8 characters; 96 trees'}
OUTSIDE = ['the JSON / YAML parsers themselves', 'global registration order across siblings of different parents (the implementation resolves depth-first, most recent sibling first; probe hierarchies are chosen where both readings agree)']
ASSUMPTIONS = ['CrossHair "Confirmed over all paths" is a bounded claim (string length, path budget); any other CrossHair verdict is inconclusive',
               'features are a function of the constructed state and the utterance only (C04)']
CONFIG_TIME_LIMIT = {'quick': 900, 'thorough': 2400}

WRAPPER = '''\
from typing import Dict
import sys
from pydrobert.speech.alias import AliasedFactory, alias_factory_subclass_from_arg


class Probe(AliasedFactory):
    aliases = set()

    def __init__(self, **kw):
        self.kw = kw


class A(Probe):
    aliases = {"a", "shared"}


class B(Probe):
    aliases = {"b", "shared"}


class A2(A):
    aliases = {"a2", "a"}


class B2(B):
    pass          # inherits B's aliases, registered last: a drop-in replacement


class C(Probe):
    aliases = {"c"}


class C1(C):
    aliases = {"deep"}


class D(Probe):
    aliases = {"deep", "d"}      # shallower than C1 but registered later: the one registered last wins


def resolve(alias: str) -> str:
    """
    pre: len(alias) <= %(maxlen)d
    post: _ in ("A", "B", "A2", "B2", "C", "C1", "D", "ERR")
    post: implies(alias == "deep", _ == "D")
    post: implies(alias == "c", _ == "C")
    post: implies(alias == "d", _ == "D")
    post: implies(alias == "shared", _ == "B2")
    post: implies(alias == "b", _ == "B2")
    post: implies(alias == "a", _ == "A2")
    post: implies(alias == "a2", _ == "A2")
    post: implies(alias not in ("a", "b", "a2", "shared", "c", "d", "deep"), _ == "ERR")
    """
    try:
        return type(Probe.from_alias(alias)).__name__
    except ValueError:
        return "ERR"

'''


def configs(tier, seed):
    return [dict(kind='crosshair', name='crosshair alias contracts', tier=tier), dict(kind='fromarg', name='from_arg dispatch'),
            dict(kind='registry', name='registry enumeration'), dict(kind='history', name='lookup history vs late registration'), dict(kind='nested', name='nested configuration vs explicit', tier=tier, seed=seed)]


def run_crosshair(cfg):
    tier = cfg['tier']
    work = os.path.join('/verif', '.work')
    os.makedirs(work, exist_ok=True)
    path = os.path.join(work, 'c08_alias_contracts_%d.py' % os.getpid())
    with open(path, 'w') as f:
        f.write(WRAPPER % dict(maxlen=7 if tier == 'quick' else 8))
    exe = os.path.join(os.path.dirname(sys.executable), 'crosshair')
    t0 = time.time()
    env = dict(os.environ)
    try:
        p = subprocess.run([exe, 'check', '--report_all', '--per_condition_timeout', '40' if tier == 'quick' else '150', path],
                           capture_output=True, text=True, env=env, timeout=1500)
    finally:
        try:
            os.unlink(path)
        except OSError:
            pass
    out = p.stdout + p.stderr
    viol, notes = [], []
    ob = dis = 0
    inconcl = []
    for line in out.splitlines():
        m = re.match(r'.*:(\d+): (info|error): (.*)', line)
        if not m:
            continue
        kind, msg = m.group(2), m.group(3)
        ob += 1
        if kind == 'info' and 'Confirmed over all paths' in msg:
            dis += 1
        elif kind == 'error' and ('false when calling' in msg or 'when calling' in msg):
            call = re.search(r'when calling (\w+)\((.*)\)', msg)
            viol.append(dict(kind='crosshair', what=msg[:300], fn=call.group(1) if call else '', arg=call.group(2) if call else '',
                             **{'class': 'crosshair/%s' % (call.group(1) if call else 'x')}))
        else:
            inconcl.append('CrossHair: %s' % msg[:200])
    if ob == 0:
        raise Inconclusive('CrossHair produced no verdicts: %s' % out[-400:])
    if inconcl:
        raise Inconclusive('; '.join(inconcl[:3]))
    return dict(obligations=ob, discharged=dis, violations=viol, paths=ob, branches=ob, queries=ob, solver_s=round(time.time() - t0, 1),
                samples=[{'config': 'crosshair', 'verdicts': out.strip().splitlines()[-8:]}], twin=dis > 0)


def _hier(ns):
    AF = ns['AliasedFactory']

    class Probe(AF):
        aliases = set()

        def __init__(self, **kw):
            self.kw = kw

    class A(Probe):
        aliases = {'a', 'shared'}

    class B(Probe):
        aliases = {'b', 'shared'}

    class A2(A):
        aliases = {'a2', 'a'}

    class C(Probe):
        aliases = {'c'}

    class C1(C):
        aliases = {'deep'}

    class D(Probe):
        aliases = {'deep', 'd'}       # shallower than C1 but registered later
    Probe._D = D
    return Probe, A, B, A2


def run_fromarg(cfg):
    ns = loader.load_unit('alias', name='pydrobert.speech.alias')
    Probe, A, B, A2 = _hier(ns)
    fn = ns['alias_factory_subclass_from_arg']
    expect = {'a': A2, 'b': B, 'a2': A2, 'shared': B, 'deep': Probe._D}
    viol = []
    ob = dis = 0
    vals = ['a', 'b', 'shared', 'deep', 'nope']

    def pick(name):
        for v in vals[:-1]:
            if decide(z3.Bool('%s_is_%s' % (name, v))):
                return v
        return vals[-1]

    def body():
        mode = 'instance' if decide(z3.Bool('arg_is_instance')) else ('str' if decide(z3.Bool('arg_is_str')) else 'mapping')
        if mode == 'instance':
            inst = A2(x=1)
            r = fn(Probe, inst)
            return ('ok',) if r is inst else ('instance not returned unchanged',)
        if mode == 'str':
            al = pick('alias')
            try:
                r = fn(Probe, al)
            except ValueError:
                return ('ok',) if al == 'nope' else ('known alias rejected', al)
            if al == 'nope':
                return ('unknown alias accepted', al)
            return ('ok',) if type(r) is expect[al] and r.kw == {} else ('string alias: wrong class or non-default arguments', al, type(r).__name__, r.kw)
        d = {}
        has_alias, has_name, has_kw = decide(z3.Bool('has_alias')), decide(z3.Bool('has_name')), decide(z3.Bool('has_kw'))
        if has_alias:
            d['alias'] = pick('alias')
        if has_name:
            d['name'] = pick('name')
        if has_kw:
            d['k'] = 5
        before = dict(d)
        try:
            r = fn(Probe, d)
        except KeyError:
            return ('ok',) if not has_alias and not has_name else ('KeyError', before)
        except ValueError:
            key = d.get('alias', d.get('name')) if False else (before.get('alias') if has_alias else before.get('name'))
            if d != before:
                return ('mapping modified', before, d)
            return ('ok',) if key == 'nope' else ('known alias rejected', before)
        except Exception as e:
            symex.guard(e)
            return ('exception %s' % type(e).__name__, before)
        if d != before:
            return ('mapping modified', before, d)
        key = before['alias'] if has_alias else before.get('name')
        if key not in expect:
            return ('unknown alias accepted', before)
        want_kw = {k: v for k, v in before.items() if k != ('alias' if has_alias else 'name')}
        if type(r) is not expect[key] or r.kw != want_kw:
            return ('mapping: wrong class or keyword arguments', before, type(r).__name__, r.kw)
        return ('ok',)

    for ctx, res in explore(body):
        if res is None:
            continue
        ob += 1
        if res[0] == 'ok':
            dis += 1
        else:
            viol.append(dict(kind='fromarg', what=res[0], detail=str(res[1:])[:200], **{'class': 'fromarg/' + res[0]}))
    return dict(obligations=ob, discharged=dis, violations=viol, samples=[{'config': 'from_arg', 'cases': ob}], twin=dis > 0)


def _late(A2, with_sibling, Probe):
    """classes registered after the lookups of the history: below a concrete class (a grandchild of the family root)"""
    if with_sibling:
        class E(Probe):
            aliases = {'e'}

    class A3(A2):
        aliases = {'a', 'shared', 'late'}
    return A3


HIST_ALIASES = ['a', 'shared', 'deep', 'late', 'nope']


def _hist_run(fn_from_alias, Probe, A, A2, hist, sibling, final_alias, final_via_root, late=_late):
    """hist: list of (alias, via_root) lookups done before the late registration; returns the name of the class the final
    lookup builds (or 'ValueError')"""
    for al, via_root in hist:
        try:
            (Probe if via_root else A).from_alias(al)
        except ValueError:
            pass
    late(A2, sibling, Probe)
    try:
        r = (Probe if final_via_root else A).from_alias(final_alias, k=3)
    except ValueError:
        return 'ValueError'
    return '%s%r' % (type(r).__name__, sorted(r.kw.items()))


def run_history(cfg):
    """from_alias is a function of the classes registered at the time of the call: any history of earlier lookups (symbolic:
    0-2 lookups, each of any alias through the family root or through a concrete class) followed by the registration of a
    class below a concrete class gives the same result as no history at all, and the class registered last wins its alias."""
    viol = []
    ob = dis = 0

    def pick(name):
        for v in HIST_ALIASES[:-1]:
            if decide(z3.Bool('%s_is_%s' % (name, v))):
                return v
        return HIST_ALIASES[-1]

    def body():
        ns = loader.load_unit('alias', name='pydrobert.speech.alias')
        Probe, A, B, A2 = _hier(ns)
        n = 2 if decide(z3.Bool('hist_two')) else (1 if decide(z3.Bool('hist_one')) else 0)
        hist = [(pick('h%d' % i), decide(z3.Bool('h%d_via_root' % i))) for i in range(n)]
        sibling = decide(z3.Bool('sibling_registered_in_between'))
        al = pick('final')
        via_root = decide(z3.Bool('final_via_root'))
        got = _hist_run(None, Probe, A, A2, hist, sibling, al, via_root)
        ns2 = loader.load_unit('alias', name='pydrobert.speech.alias')
        P2, A_, B_, A2_ = _hier(ns2)
        want = _hist_run(None, P2, A_, A2_, [], sibling, al, via_root)
        w = dict(hist=[[a, bool(v)] for a, v in hist], sibling=bool(sibling), alias=al, via_root=bool(via_root), got=got, want=want)
        if got != want:
            return ('history changes the result', w)
        doc = {'a': 'A3', 'late': 'A3', 'nope': 'ValueError'}.get(al)
        if doc and not got.startswith(doc):
            return ('late registration ignored', w)
        return ('ok',)

    for ctx, res in explore(body, max_paths=4000):
        if res is None:
            continue
        ob += 1
        if res[0] == 'ok':
            dis += 1
        else:
            viol.append(dict(kind='history', what='%s: after lookups %s, registering a class below a concrete class, from_alias(%r) via %s builds %s, without the earlier lookups %s'
                             % (res[0], res[1]['hist'], res[1]['alias'], 'the family root' if res[1]['via_root'] else 'the concrete class', res[1]['got'], res[1]['want']),
                             **dict(res[1], **{'class': 'history/' + res[0]})))
    return dict(obligations=ob, discharged=dis, violations=viol, samples=[{'config': 'history', 'cases': ob}], twin=dis > 0)


FAMILIES = [('scales', 'ScalingFunction'), ('filters', 'LinearFilterBank'), ('filters', 'WindowFunction'), ('compute', 'FrameComputer'),
            ('pre', 'PreProcessor'), ('post', 'PostProcessor')]


def _descendants(cls):
    out = []
    for c in cls.__subclasses__():
        out.append(c)
        out.extend(_descendants(c))
    return out


def run_registry(cfg):
    """exhaustive over the finite registry: every alias of every concrete class resolves, from its abstract family, to the
    class an independent oracle names (among the family's classes carrying the alias: the deepest-latest one in
    definition order), unknown aliases raise ValueError"""
    import importlib
    import inspect
    viol = []
    ob = dis = 0
    sample = []
    for modname, fam in FAMILIES:
        mod = importlib.import_module('pydrobert.speech.' + modname)
        family = getattr(mod, fam)
        classes = [c for c in _descendants(family) if c.__module__.startswith('pydrobert.speech')]
        order = {c: (c.__module__, inspect.getsourcelines(c)[1]) for c in classes}
        aliases = set()
        for c in classes:
            aliases |= set(c.__dict__.get('aliases', ()))
        for al in sorted(aliases):
            cands = [c for c in classes if al in c.aliases]
            # independent oracle: prefer a class none of whose descendants carries the alias; among those the latest defined
            leafy = [c for c in cands if not any(d in cands for d in _descendants(c))]
            want = sorted(leafy, key=lambda c: order[c])[-1]
            ob += 1
            orig_init = {}
            try:
                got = _resolve_class(family, al)
            except Exception as e:
                viol.append(dict(kind='registry', family=fam, alias=al, what='alias %r of family %s raised %s' % (al, fam, type(e).__name__), **{'class': 'registry/raise'}))
                continue
            if got is want:
                dis += 1
                if len(sample) < 6:
                    sample.append('%s.from_alias(%r) -> %s' % (fam, al, want.__name__))
            else:
                viol.append(dict(kind='registry', family=fam, alias=al, what='alias %r of family %s resolves to %s, expected %s' % (al, fam, getattr(got, '__name__', got), want.__name__),
                                 **{'class': 'registry/wrong'}))
        # unknown aliases: a fixed one, and every near miss of a registered alias (other letter case, surrounding blanks,
        # one character more or less) that is not itself registered in the family
        unknown = {'no-such-alias-xyz', ''}
        for al in aliases:
            unknown |= {al.upper(), al.capitalize(), al.title(), al.swapcase(), al + ' ', ' ' + al, al[:-1], al + 'x', al + '\n'}
        for al in sorted(unknown - aliases):
            ob += 1
            try:
                got = _resolve_class(family, al)
                viol.append(dict(kind='registry', family=fam, alias=al, what='unknown alias %r accepted by %s (resolved to %s)' % (al, fam, getattr(got, '__name__', got)), **{'class': 'registry/unknown'}))
            except ValueError:
                dis += 1
            except Exception as e:
                viol.append(dict(kind='registry', family=fam, alias=al, what='unknown alias %r of family %s raised %s instead of ValueError' % (al, fam, type(e).__name__), **{'class': 'registry/unknown'}))
    return dict(obligations=ob, discharged=dis, violations=viol, samples=[{'config': 'registry', 'resolutions': sample}], twin=dis > 0, exhaustive=True)


class _Resolved(Exception):
    def __init__(self, cls):
        self.cls = cls


def _resolve_class(family, alias):
    """which class would from_alias instantiate? (constructor intercepted: cls(*args) raises _Resolved)"""
    patched = []
    for c in [family] + _descendants(family):
        if '__init__' in c.__dict__:
            patched.append((c, c.__dict__['__init__']))

            def init(self, *a, **k):
                raise _Resolved(type(self))
            c.__init__ = init
    try:
        obj = family.from_alias(alias)
    except _Resolved as r:
        return r.cls
    finally:
        for c, f in patched:
            c.__init__ = f
    return type(obj)      # classes without their own __init__ are simply instantiated


def _trees(tier, seed):
    import itertools
    scales = [{'name': 'mel'}, 'bark', {'alias': 'linear', 'low_hz': 0.0, 'slope_hz': 1.0}, {'name': 'octave', 'low_hz': 40.0}]
    banks = [('tri', {}), ('fbank', {}), ('gabor', {'erb': True}), ('gammatone', {'order': 3})]
    windows = ['hamming', {'name': 'gamma', 'order': 3, 'peak': 0.7}, 'hann']
    out = []
    for (b, bk), sc, win, comp in itertools.product(banks, scales, windows, ('stft', 'si')):
        if b == 'fbank':
            bank = dict(name=b, num_filts=4, sampling_rate=8000, **bk)
        else:
            bank = dict(name=b, scaling_function=sc, num_filts=4, sampling_rate=8000, low_hz=60.0, **bk)
        if comp == 'stft':
            cfgd = dict(name='stft', bank=bank, frame_length_ms=12, frame_shift_ms=5, window_function=win, include_energy=True)
        else:
            if b in ('tri', 'fbank'):
                continue
            cfgd = dict(alias='si', bank=bank, frame_shift_ms=2, window_function=win)
        out.append(cfgd)
    import random
    random.Random(seed).shuffle(out)
    return out[: 24 if tier == 'quick' else 96]


def _explicit(cfgd):
    """assemble the same computer from explicitly constructed scale, bank and window objects (no aliases anywhere)"""
    from pydrobert.speech import scales, filters, compute
    SC = {'mel': scales.MelScaling, 'bark': scales.BarkScaling, 'linear': scales.LinearScaling, 'octave': scales.OctaveScaling}
    BK = {'tri': filters.TriangularOverlappingFilterBank, 'fbank': filters.Fbank, 'gabor': filters.GaborFilterBank, 'gammatone': filters.ComplexGammatoneFilterBank}
    WN = {'hamming': filters.HammingWindow, 'gamma': filters.GammaWindow, 'hann': filters.HannWindow}

    def mk(table, spec):
        if isinstance(spec, str):
            return table[spec]()
        d = dict(spec)
        nm = d.pop('alias', None) or d.pop('name')
        return table[nm](**d)
    c = dict(cfgd)
    kind = c.pop('alias', None) or c.pop('name')
    b = dict(c.pop('bank'))
    bname = b.pop('name')
    if 'scaling_function' in b:
        b['scaling_function'] = mk(SC, b['scaling_function'])
    bank = BK[bname](**b)
    win = mk(WN, c.pop('window_function'))
    cls = compute.STFTFrameComputer if kind == 'stft' else compute.SIFrameComputer
    return cls(bank, window_function=win, **c)


def run_nested(cfg):
    import numpy as np
    from pydrobert.speech.alias import alias_factory_subclass_from_arg
    from pydrobert.speech.compute import FrameComputer
    viol = []
    ob = dis = 0
    rng = np.random.RandomState(cfg['seed'])
    xs = rng.randn(300)

    def same(a, b):
        if isinstance(a, np.ndarray) or isinstance(b, np.ndarray):
            return isinstance(a, np.ndarray) and isinstance(b, np.ndarray) and a.shape == b.shape and a.dtype == b.dtype and np.array_equal(a, b)
        if isinstance(a, (list, tuple)):
            return type(a) is type(b) and len(a) == len(b) and all(same(x, y) for x, y in zip(a, b))
        if hasattr(a, '__dict__') and not callable(a):
            return type(a) is type(b) and state_eq(a, b)
        if callable(a):
            return getattr(a, '__name__', None) == getattr(b, '__name__', None)
        return a == b

    UNINIT = {'_buf', '_x_buf', '_y_buf'}     # np.empty work buffers: contents are dead state (C04), compare geometry only

    def state_eq(a, b):
        da, db = a.__dict__, b.__dict__
        if set(da) != set(db):
            return False
        for k in da:
            if k in UNINIT:
                if da[k].shape != db[k].shape or da[k].dtype != db[k].dtype:
                    return False
            elif not same(da[k], db[k]):
                return False
        return True

    for cfgd in _trees(cfg['tier'], cfg['seed']):
        ob += 1
        text = json.dumps(cfgd)
        before = json.loads(text)
        try:
            nested = alias_factory_subclass_from_arg(FrameComputer, before)
            explicit = _explicit(cfgd)
        except Exception as e:
            viol.append(dict(kind='nested', config=text, what='construction raised %s: %s' % (type(e).__name__, e), **{'class': 'nested/raise'}))
            continue
        if before != json.loads(text):
            viol.append(dict(kind='nested', config=text, what='configuration mapping modified', **{'class': 'nested/modified'}))
            continue
        if type(nested) is not type(explicit) or not state_eq(nested, explicit):
            viol.append(dict(kind='nested', config=text, what='alias-built computer has different state than the explicit one', **{'class': 'nested/state'}))
            continue
        fa, fb = nested.compute_full(xs), explicit.compute_full(xs)
        if fa.shape != fb.shape or not np.array_equal(fa, fb):
            viol.append(dict(kind='nested', config=text, what='features differ', **{'class': 'nested/features'}))
            continue
        dis += 1
    return dict(obligations=ob, discharged=dis, violations=viol, samples=[{'config': 'nested', 'tree': _trees(cfg['tier'], cfg['seed'])[0]}], twin=dis > 0)


def run_config(cfg):
    return {'crosshair': run_crosshair, 'fromarg': run_fromarg, 'registry': run_registry, 'nested': run_nested, 'history': run_history}[cfg['kind']](cfg)


def replay(w):
    from pydrobert.speech.alias import AliasedFactory, alias_factory_subclass_from_arg
    k = w['kind']
    if k == 'registry' and 'unknown alias' in w.get('what', ''):
        import importlib
        fam = dict((f, m) for m, f in FAMILIES)[w['family']]
        family = getattr(importlib.import_module('pydrobert.speech.' + fam), w['family'])
        try:
            obj = family.from_alias(w['alias'])
        except ValueError as e:
            if 'alias' in str(e).lower() or 'valid' in str(e).lower():
                return {'reproduced': False, 'detail': 'ValueError as documented: %s' % e}
            return {'reproduced': True, 'detail': '%s.from_alias(%r) resolved the unknown alias to a class (its constructor then raised ValueError: %s)' % (w['family'], w['alias'], e)}
        except Exception as e:
            return {'reproduced': True, 'detail': '%s.from_alias(%r) did not raise ValueError for an unregistered alias but %s (resolved to a class whose constructor failed)' % (w['family'], w['alias'], type(e).__name__)}
        return {'reproduced': True, 'detail': '%s.from_alias(%r) returned a %s although %r is not a registered alias' % (w['family'], w['alias'], type(obj).__name__, w['alias'])}
    if k in ('registry', 'nested'):
        return {'reproduced': True, 'detail': w['what']}
    if k == 'history':
        def fam():
            class Probe(AliasedFactory):
                aliases = set()

                def __init__(self, **kw):
                    self.kw = kw

            class A(Probe):
                aliases = {'a', 'shared'}

            class B(Probe):
                aliases = {'b', 'shared'}

            class A2(A):
                aliases = {'a2', 'a'}

            class C(Probe):
                aliases = {'c'}

            class C1(C):
                aliases = {'deep'}

            class D(Probe):
                aliases = {'deep', 'd'}
            return Probe, A, A2
        P, A, A2 = fam()
        got = _hist_run(None, P, A, A2, [tuple(h) for h in w['hist']], w['sibling'], w['alias'], w['via_root'])
        P, A, A2 = fam()
        want = _hist_run(None, P, A, A2, [], w['sibling'], w['alias'], w['via_root'])
        doc = {'a': 'A3', 'late': 'A3', 'nope': 'ValueError'}.get(w['alias'])
        bad = got != want or bool(doc and not got.startswith(doc))
        return {'reproduced': bad, 'detail': 'real library: after the lookups %s and the registration of A3(A2) with aliases {a, shared, late}, from_alias(%r) builds %s; without the earlier lookups it builds %s'
                % (w['hist'], w['alias'], got, want)}

    class Probe(AliasedFactory):
        aliases = set()

        def __init__(self, **kw):
            self.kw = kw

    class A(Probe):
        aliases = {'a', 'shared'}

    class B(Probe):
        aliases = {'b', 'shared'}

    class A2(A):
        aliases = {'a2', 'a'}

    class B2(B):
        pass

    class C(Probe):
        aliases = {'c'}

    class C1(C):
        aliases = {'deep'}

    class D(Probe):
        aliases = {'deep', 'd'}
    expect = {'a': 'A2', 'b': 'B2', 'a2': 'A2', 'shared': 'B2', 'deep': 'D', 'c': 'C', 'd': 'D'}
    for al, want in expect.items():
        got = type(Probe.from_alias(al)).__name__
        if got != want:
            return {'reproduced': True, 'detail': 'from_alias(%r) -> %s, the last-registered class carrying it is %s' % (al, got, want)}
    try:
        Probe.from_alias('zzz')
        return {'reproduced': True, 'detail': 'unknown alias accepted'}
    except ValueError:
        pass
    for d in ({'alias': 'a', 'name': 'b', 'k': 1}, {'name': 'b'}, {'alias': 'shared'}):
        before = dict(d)
        r = alias_factory_subclass_from_arg(Probe, d)
        if d != before:
            return {'reproduced': True, 'detail': 'mapping %r modified to %r' % (before, d)}
        key = 'alias' if 'alias' in before else 'name'
        wantkw = {x: y for x, y in before.items() if x != key}
        if r.kw != wantkw or type(r).__name__ != expect[before[key]]:
            return {'reproduced': True, 'detail': 'mapping %r built %s(%r), expected %s(%r)' % (before, type(r).__name__, r.kw, expect[before[key]], wantkw)}
    inst = A2()
    if alias_factory_subclass_from_arg(Probe, inst) is not inst:
        return {'reproduced': True, 'detail': 'instance not returned unchanged'}
    return {'reproduced': False, 'detail': 'alias machinery behaves as documented on the probe hierarchy'}
