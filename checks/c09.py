"""C09 -- command-line tools store exactly what the library pipeline computes (DESIGN 3/C09)."""
import itertools
import types

import z3

from vlib import symex
from vlib.symex import Ctx, SBool, SInt, SReal, _z, decide, explore, check_sat, rv
from checks import cl_common as cl
from checks.cl_common import A, CHAN, PRE, CF, POST, F32, F64, COL, RNG, NEXT, NFR, Vec, RngState, Log, FmtReal
from vlib.symex import slen

PID = 'C09'
LEVEL = 'model_checking'
FUNCTIONS = ['command_line:compute_feats_from_kaldi_tables', 'command_line:signals_to_torch_feat_dir',
             'command_line:_FeatureProcessorDataset.__getitem__', 'command_line:_config_type']
EXPLANATION = (
    'Both console entry points are executed from source with their environment stubbed (argparse results, Kaldi table '
    'reader/writer, read_signal, torch.save, DataLoader, os, RNG); arrays are terms of an uninterpreted sort and the '
    'library stages are uninterpreted functions chan/pre_i/compute_full/post_j/f32/column. With symbolic duration, '
    'sampling rate, channel count, --channel, --min-duration and seed, z3 decides on every path that the value handed to '
    'the writer for utterance u is exactly f32(post_m(..post_1(compute_full(pre_k(..pre_1(chan(buf_u, c))))))) under its '
    'own id, that excluded utterances are skipped without an exception, that stub objects are only asked for documented '
    'attributes, and that two runs with the same seed produce identical terms (unseeded RNG state is a per-run constant).')
BOUNDS = {'quick': '1-2 utterances, 0-2 pre- and 0-2 post-processors, channels 1-3, with/without computer (torch tool), symbolic seed / durations / rates',
          'thorough': '3 utterances, 3 processors'}
OUTSIDE = ['JSON vs YAML parser equivalence (third-party parsers; exercised concretely in the replay only)', 'float32 rounding', 'real Kaldi I/O',
           'real torch modules (their equivalence with the NumPy classes is C14/C18)',
           'torch tool: a channel mismatch raises ValueError and aborts the run (treated as exclusion by error; runs with a mismatch are not constrained further)']
ASSUMPTIONS = ['Kaldi wave reader contract: duration = samples / sampling rate, sampling rates are positive integers <= 48000',
               'stub contracts: table reader yields (id, (buffer, rate, duration)); writer stores what it is given; DataLoader yields items in order, one __getitem__ per index, batches of one',
               'pre-processors draw from the global generator: term PRE(i, x, rng_state), state advanced per application']
CONFIG_TIME_LIMIT = {'quick': 600, 'thorough': 1800}


def configs(tier, seed):
    cfgs = []
    nu = (1, 2) if tier == 'quick' else (1, 2, 3)
    npp = (0, 1, 2) if tier == 'quick' else (0, 1, 2, 3)
    for nutt, npre, npost, nchan in itertools.product(nu, npp, npp, (1, 2, 3)):
        if tier == 'quick' and nutt == 2 and (npre, npost) not in ((1, 1), (2, 0), (0, 2)):
            continue
        cfgs.append(dict(kind='kaldi', name='kaldi utt%d pre%d post%d ch%d' % (nutt, npre, npost, nchan), nutt=nutt, npre=npre, npost=npost, nchan=nchan))
        for comp in (True, False):
            cfgs.append(dict(kind='torch', name='torch utt%d pre%d post%d ch%d comp=%s' % (nutt, npre, npost, nchan, comp), nutt=nutt, npre=npre,
                             npost=npost, nchan=nchan, comp=comp))
    return cfgs


# ------------------------------------------------------------------ compute-feats-from-kaldi-tables

class Strict:
    """stub objects expose only documented attributes: anything else is an AttributeError path (a violation)"""


def run_kaldi(cfg):
    nutt, npre, npost, nchan = cfg['nutt'], cfg['npre'], cfg['npost'], cfg['nchan']
    ns = cl.load_command_line()
    state = {}
    rng = RngState(None)

    class Buf(Strict):
        def __init__(s, t):
            s.t = t
            s.shape = (nchan, SInt(z3.Int('nsamples')))

        def __getitem__(s, c):
            cz = _z(c)
            return Vec(CHAN(s.t, z3.If(cz < 0, cz + nchan, cz)))

    class Pre(Strict):
        def __init__(s, i):
            s.i = i

        def apply(s, v, in_place=False):
            return Vec(PRE(z3.IntVal(s.i), v.t, rng.draw()))

    class Post(Strict):
        def __init__(s, i):
            s.i = i

        def apply(s, v, axis=-1, in_place=False):
            return Vec(POST(z3.IntVal(s.i), v.t))

    class Bank(Strict):
        def __init__(s, rate):
            s.sampling_rate = rate

    class Comp(Strict):
        def __init__(s, rate):
            s.bank = Bank(rate)
            s.sampling_rate = rate

        num_coeffs = 7

        def compute_full(s, v):
            return Vec(CF(v.t))

    def kaldi_open(spec, dtype, mode='r', **kw):
        if mode == 'w':
            class Wr:
                def write(s, k, v):
                    state['written'].append((k, v))

                def close(s):
                    state['closed'] = True
            return Wr()

        class Rd:
            def items(s):
                return state['utts']

            def close(s):
                pass
        return Rd()

    def parse(args, logger):
        return types.SimpleNamespace(seed=state['seed'], computer_config={'c': 1}, preprocess=[('pre', i) for i in range(npre)],
                                     postprocess=[('post', i) for i in range(npost)], wav_rspecifier='r', feats_wspecifier='w',
                                     min_duration=state['mind'], channel=state['channel'])

    def factory(cls, arg):
        if isinstance(arg, dict):
            return Comp(state['rate'])
        return Pre(arg[1]) if arg[0] == 'pre' else Post(arg[1])

    class KDT:
        class BaseMatrix:
            is_double = False

    import pydrobert.kaldi.io as kio
    import pydrobert.kaldi.io.enums as kenums
    import pydrobert.kaldi.logging as klog

    class NPx:
        float64 = 'f64'
        float32 = 'f32'
        random = types.SimpleNamespace(seed=lambda s: rng.seed(s))

        @staticmethod
        def empty(shape, dtype=None):
            # a matrix allocated by the tool itself (not computed from the utterance): a constant of its own
            return Vec(z3.Const('allocated_%s' % '_'.join(str(x) for x in shape), A))
        zeros = empty

    ns.update(np=NPx, len=slen, int=symex.sint, logging=types.SimpleNamespace(getLogger=lambda n: Log(), StreamHandler=lambda: None))
    ns['_compute_feats_from_kaldi_tables_parse_args'] = parse
    ns['alias_factory_subclass_from_arg'] = factory
    fn = ns['compute_feats_from_kaldi_tables']
    while hasattr(fn, '__wrapped__'):
        fn = fn.__wrapped__
    viol, samples = [], []
    ob = dis = 0

    def one_run(run_id):
        state['written'] = []
        rng.state = z3.Const('unseeded_run%d' % run_id, cl.RNGS)
        saved = (kio.open, kenums.KaldiDataType, klog.register_logger_for_kaldi)
        kio.open, kenums.KaldiDataType, klog.register_logger_for_kaldi = kaldi_open, KDT, (lambda l: None)
        try:
            rc = fn(['x'])
        finally:
            kio.open, kenums.KaldiDataType, klog.register_logger_for_kaldi = saved
        return rc, list(state['written'])

    nfr_terms = {}

    def body():
        c = Ctx.cur
        nfr_terms.clear()
        state['rate'] = FmtReal(z3.Real('rate'))
        state['mind'] = FmtReal(z3.Real('mind'))
        ch = z3.Int('channel')
        state['channel'] = SInt(ch)
        c.assume(ch >= -1, ch <= 4, z3.Int('nsamples') >= 1)
        has_seed = decide(z3.Bool('seed_given'))
        sd = z3.Int('seed')
        c.assume(sd >= 0)
        state['seed'] = SInt(sd) if has_seed else None
        utts = []
        for u in range(nutt):
            utts.append(('utt%d' % u, (Buf(z3.Const('buf%d' % u, A)), FmtReal(z3.Real('sf%d' % u)), FmtReal(z3.Real('dur%d' % u)))))
            # Kaldi's wave reader: duration = samples / sampling rate (sampling rates are positive integers)
            c.assume(z3.Real('sf%d' % u) == z3.ToReal(z3.Int('sfi%d' % u)), z3.Int('sfi%d' % u) >= 1, z3.Int('sfi%d' % u) <= 48000,
                     z3.Real('dur%d' % u) * z3.Real('sf%d' % u) == z3.ToReal(z3.Int('nsamples')))
        state['utts'] = utts
        try:
            rc, written = one_run(1)
            rc2, written2 = one_run(2)
        except Exception as e:
            symex.guard(e)
            return ('exception', '%s: %s' % (type(e).__name__, e))
        rstate = RNG(sd) if has_seed else z3.Const('unseeded_run1', cl.RNGS)
        nsucc = 0
        for (uid, (buf, sf, dur)) in utts:
            excluded = z3.Or(rv(dur) < rv(state['mind']), rv(sf) != rv(state['rate']), ch >= nchan)
            got = [v for k, v in written if k == uid]
            if decide(excluded):
                if got:
                    return ('wrote-excluded', uid)
                continue
            nsucc += 1
            if len(got) != 1:
                return ('missing', uid)
            cc = z3.If(ch == -1, 0, ch)
            t = F64(CHAN(buf.t, cc))
            for i in range(npre):
                t = PRE(z3.IntVal(i), t, rstate)
                rstate = NEXT(rstate)
            t = CF(t)
            nfr_terms[uid] = NFR(t)
            # utterances too short to yield a frame are stored as the (empty) computer output: post-processors
            # reject empty input, so "the pipeline result" exists only for utterances with at least one frame
            if decide(NFR(t) > 0):
                for i in range(npost):
                    t = POST(z3.IntVal(i), t)
            t = F32(t)
            if decide(got[0].t != t):
                return ('value', uid, str(got[0].t)[:200])
        if [k for k, _ in written] != [k for k, _ in written if k in [u[0] for u in utts]]:
            return ('ids',)
        if (rc == 0) != (nsucc > 0):
            return ('exit code', rc)
        if has_seed:
            if len(written) != len(written2) or any(decide(a[1].t != b[1].t) for a, b in zip(written, written2)):
                return ('not deterministic under --seed',)
        return ('ok',)

    for ctx, res in explore(body):
        if res is None:
            continue
        ob += 1
        if res[0] == 'ok':
            dis += 1
            continue
        m = ctx.model()
        w = dict(kind='kaldi', nutt=nutt, npre=npre, npost=npost, nchan=nchan, what=res[0], detail=str(res[1:])[:300],
                 channel=m.eval(z3.Int('channel'), True).as_long(), seed=m.eval(z3.Int('seed'), True).as_long(),
                 seed_given=z3.is_true(m.eval(z3.Bool('seed_given'), True)))
        for u in range(nutt):
            w['mismatch%d' % u] = not z3.is_true(m.eval(z3.Real('sf%d' % u) == z3.Real('rate'), True))
            w['short%d' % u] = z3.is_true(m.eval(z3.Real('dur%d' % u) < z3.Real('mind'), True))
            w['at_min%d' % u] = z3.is_true(m.eval(z3.Real('dur%d' % u) == z3.Real('mind'), True))     # duration exactly the minimum
        for uid_, nt in nfr_terms.items():
            try:
                w['nframes_' + str(uid_)] = m.eval(nt, True).as_long()      # how many frames the computer produced in this witness
            except Exception:
                pass
        zero = [u_ for u_ in range(nutt) if w.get('nframes_utt%d' % u_) == 0]
        skipped = [u_ for u_ in range(nutt) if w.get('mismatch%d' % u_) or w.get('short%d' % u_)]
        w['class'] = 'kaldi/%s/%s/%d utterances, zero-frame: %s, skipped: %s, stored: %s' % (
            res[0], (res[1] if res[0] == 'exception' else '').split(':')[0], nutt, zero, skipped,
            'a matrix allocated by the tool' if 'allocated' in w['detail'] else ('features of another utterance' if any(
                'buf%d' % o_ in w['detail'] and ("'utt%d'" % o_) not in w['detail'] for o_ in range(nutt)) else 'other'))
        viol.append(w)
    samples.append({'config': cfg['name'], 'pipeline_term': 'f32(post_j(...compute_full(pre_i(...f64(chan(buf, c))...))))'})
    return dict(obligations=ob, discharged=dis, violations=viol, samples=samples, twin=dis > 0)


# ------------------------------------------------------------------ signals-to-torch-feat-dir

class Env:
    read_args = []
    """stub environment of the torch tool; records saves, manifest prints, seeds"""

    def __init__(s, nutt, npre, npost, nchan, comp):
        s.nutt, s.npre, s.npost, s.nchan, s.comp = nutt, npre, npost, nchan, comp
        s.saved = []
        s.printed = []
        s.seeds = []
        s.rng = RngState(None)
        s.made_dirs = []


def build_torch_ns(env, ns=None):
    ns = ns or cl.load_command_line()
    nchan = env.nchan
    Dither, Preemphasize = ns['Dither'], ns['Preemphasize']
    STFT = ns['STFTFrameComputer']

    class StubSTFT(STFT):
        def __init__(s):
            pass

    class StubDither(Dither):
        def __init__(s, i):
            s.i = i

    class StubPost:
        def __init__(s, i):
            s.i = i

    class PyPre:
        def __init__(s, i):
            s.i = i

        def __call__(s, v):
            return Vec(PRE(z3.IntVal(s.i), v.t, env.rng.draw()))

    class PyDither:
        @staticmethod
        def from_dither(p):
            return PyPre(p.i)

    class PySTFT:
        @staticmethod
        def from_stft_frame_computer(c):
            return lambda v: Vec(CF(v.t))

    class PyPost:
        @staticmethod
        def from_postprocessor(p):
            return lambda v: Vec(POST(z3.IntVal(p.i), v.t))

    def factory(cls, arg):
        if isinstance(arg, dict):
            return StubSTFT()
        return StubDither(arg[1]) if arg[0] == 'pre' else StubPost(arg[1])

    def read_signal(path, dtype=None, force_as=None, key=None):
        u = int(path.split('path')[1])
        env.reads.append((path, key))
        env.read_args.append((path, dtype, force_as, key))
        if nchan == 1 and env.mono_1d:
            return Vec(F64(z3.Const('sig%d' % u, A)), 1)
        return Vec(F64(z3.Const('sig%d' % u, A)), 2, nchan)

    class TorchStub:
        @staticmethod
        def manual_seed(v):
            env.seeds.append(v)
            env.rng.seed(v)

        @staticmethod
        def from_numpy(v):
            return v

        @staticmethod
        def no_grad():
            import contextlib
            return contextlib.nullcontext()

    SALTED = z3.Function('salted_str_hash', cl.I, cl.I, cl.I, cl.I)
    skeletons = {}

    def proc_hash(obj):
        """builtins.hash: str / bytes hashes are salted per interpreter process (PYTHONHASHSEED), so anything that
        contains a string hashes to a value that is a function of the PROCESS as well; env.process numbers the simulated
        invocations of the tool (an uninterrupted run, a killed run and its resume are three processes)"""
        import builtins
        syms = []

        def skel(o):
            if isinstance(o, (str, bytes)):
                return ('s', o)
            if isinstance(o, SInt):
                syms.append(_z(o))
                return ('sym', len(syms))
            if isinstance(o, tuple):
                return tuple(skel(x) for x in o)
            return ('v', o)
        sk = skel(obj)

        def has_str(t):
            return isinstance(t, tuple) and ((len(t) == 2 and t[0] == 's') or any(has_str(x) for x in t))
        if not has_str(sk):
            if syms:
                raise symex.Unsupported('hash of a symbolic integer')
            return builtins.hash(obj)
        if len(syms) > 1:
            raise symex.Unsupported('hash of several symbolic values')
        sid = skeletons.setdefault(repr(sk), len(skeletons))
        return SInt(SALTED(z3.IntVal(getattr(env, 'process', 0)), z3.IntVal(sid), syms[0] if syms else z3.IntVal(0)))

    ns.update(alias_factory_subclass_from_arg=factory, read_signal=read_signal, torch=TorchStub, PyTorchDither=PyDither,
              PyTorchSTFTFrameComputer=PySTFT, PyTorchPostProcessorWrapper=PyPost, hash=proc_hash)
    return ns


class Manifest:
    """text file opened 'a+': durable content + buffered lines"""

    def __init__(s, lines):
        s.lines = list(lines)
        s.buffer = []
        s.events = []

    def seek(s, p):
        pass

    def __iter__(s):
        return iter([l + '\n' for l in s.lines])

    # the other ways of reading a text file from its start (after seek(0))
    def read(s, n=-1):
        return ''.join(l + '\n' for l in s.lines)

    def readlines(s):
        return [l + '\n' for l in s.lines]

    def readline(s):
        raise symex.Unsupported('Manifest.readline (position not modelled)')

    def tell(s):
        return 0

    def close(s):
        s.flush()

    def write(s, txt):
        s.buffer.append(txt)

    def flush(s):
        s.lines += [l for l in ''.join(s.buffer).split('\n') if l]
        s.buffer = []
        s.events.append('flush')


def run_torch_tool(ns, env, options, hooks=None):
    """run signals_to_torch_feat_dir with stubbed torch/DataLoader/os/print; hooks may raise to model a kill"""
    import sys
    hooks = hooks or {}
    fn = ns['signals_to_torch_feat_dir']

    class DataLoader:
        def __init__(s, dataset, num_workers=0):
            s.ds = dataset
            env.num_workers = num_workers

        def __iter__(s):
            for i in range(len(s.ds)):
                if 'step' in hooks:
                    hooks['step']('load', i)
                utt, feats = s.ds[i]
                yield [utt], [feats]

    class FileHandle:
        """binary file object on the stub file system (os.fdopen / open of a path created by tempfile.mkstemp)"""

        def __init__(s, path):
            s.path = path

        def __enter__(s):
            return s

        def __exit__(s, *a):
            return False

        def close(s):
            pass

        def flush(s):
            pass

    def save(obj, path):
        if isinstance(path, FileHandle):
            path = path.path
        if 'step' in hooks:
            hooks['step']('save-begin', path)
        env.files[path] = ('partial', None)
        if 'step' in hooks:
            hooks['step']('save-mid', path)
        env.files[path] = ('complete', obj.t)
        env.saved.append((path, obj.t))
        if 'step' in hooks:
            hooks['step']('save-end', path)

    tmod = cl.fake_module('torch', save=save, utils=cl.fake_module('torch.utils', data=cl.fake_module('torch.utils.data', DataLoader=DataLoader)))
    saved_mods = {k: sys.modules.get(k) for k in ('torch', 'torch.utils', 'torch.utils.data')}
    sys.modules['torch'] = tmod
    sys.modules['torch.utils'] = tmod.utils
    sys.modules['torch.utils.data'] = tmod.utils.data

    def fprint(*a, file=None, **k):
        if file is None or file is sys.stderr:
            return
        file.write(' '.join(str(x) for x in a) + '\n')
        env.printed.append(a[0])
        if 'step' in hooks:
            hooks['step']('printed', a[0])

    def os_replace(src, dst):
        # rename(2): atomic -- one step, before which only src and after which only dst exists
        if src not in env.files:
            raise FileNotFoundError(src)
        env.files[dst] = env.files.pop(src)
        if 'step' in hooks:
            hooks['step']('replace', dst)

    def os_remove(pth):
        if pth not in env.files:
            raise FileNotFoundError(pth)
        del env.files[pth]
        if 'step' in hooks:
            hooks['step']('remove', pth)

    def mkstemp(suffix='', prefix='tmp', dir=None, text=False):
        # a fresh name on every call and in every run (the real one is random)
        env.tmp_counter = getattr(env, 'tmp_counter', 0) + 1
        name = '%s/%s%s%s' % (dir if dir is not None else 'tmp', prefix, 'r%06d' % env.tmp_counter, suffix)
        env.files[name] = ('partial', None)
        if 'step' in hooks:
            hooks['step']('mkstemp', name)
        return FileHandle(name), name

    osmod = types.SimpleNamespace(path=types.SimpleNamespace(isdir=lambda d: True, join=lambda a, b: a + '/' + b, exists=lambda pth: pth in env.files,
                                                             isfile=lambda pth: pth in env.files, basename=lambda pth: pth.rsplit('/', 1)[-1],
                                                             dirname=lambda pth: pth.rsplit('/', 1)[0] if '/' in pth else ''),
                                  makedirs=lambda d, **kw: None, replace=os_replace, rename=os_replace, remove=os_remove, unlink=os_remove,
                                  fdopen=lambda fd, *a, **k: fd, close=lambda fd: None,
                                  listdir=lambda d: sorted(k_[len(d) + 1:] for k_ in env.files if k_.startswith(d + '/')))
    ns['tempfile'] = types.SimpleNamespace(mkstemp=mkstemp)
    ns['_signals_to_torch_feat_dir_parse_args'] = lambda args: options
    ns['os'] = osmod
    ns['print'] = fprint

    class _NPMeta(type):
        def __getattr__(cls, n):       # anything else (index bookkeeping on concrete data) is NumPy's own
            import numpy as _np
            return getattr(_np, n)

    class NPx(metaclass=_NPMeta):
        float64 = 'f64'
        int32 = 'i32'

        class random:
            @staticmethod
            def randint(n):
                env.random_draws = getattr(env, 'random_draws', 0) + 1
                return SInt(z3.Int('random_seed_draw%d' % env.random_draws))   # a fresh value per draw / per run

        @staticmethod
        def iinfo(t):
            return types.SimpleNamespace(max=2 ** 31 - 1)
    ns['np'] = NPx
    try:
        return fn(['x'])
    finally:
        for k, v in saved_mods.items():
            if v is None:
                sys.modules.pop(k, None)
            else:
                sys.modules[k] = v


def uid(u, n):
    """utterance id of map line u: NOT in lexicographic order (..., utt2, ..., utt0), so that file order, sorted order
    and list position are distinguishable; and the first id CONTAINS the second one as a substring ('autt2' / 'utt2'),
    so that matching manifest lines by anything weaker than equality shows"""
    if n <= 1:
        return 'utt0'
    base = 'utt%d' % ((u + 1) % n)
    return 'a' + 'utt%d' % (2 % n) if u == 0 else base


def make_options(env, seed, channel, manifest, num_workers=0):
    class Map(list):
        name = 'map'
    lines = Map('%s path%d\n' % (uid(u, env.nutt), u) for u in range(env.nutt))
    return types.SimpleNamespace(map=lines, computer_config=({'c': 1} if env.comp else None), dir='out', channel=channel,
                                 preprocess=[('pre', i) for i in range(env.npre)], postprocess=[('post', i) for i in range(env.npost)],
                                 force_as=None, seed=seed, file_prefix=getattr(env, 'file_prefix', ''), file_suffix=getattr(env, 'file_suffix', '.pt'), num_workers=num_workers, manifest=manifest)


def spec_term(env, u, seed_z, chan_z, mono_1d):
    nchan = env.nchan
    sig = F64(z3.Const('sig%d' % u, A))
    if nchan == 1 and mono_1d:
        t = sig
    else:
        t = CHAN(sig, z3.If(chan_z < 0, chan_z + nchan, chan_z))
    st = RNG(seed_z + u)
    for i in range(env.npre):
        t = PRE(z3.IntVal(i), t, st)
        st = NEXT(st)
    t = CF(t) if env.comp else COL(t)
    for i in range(env.npost):
        t = POST(z3.IntVal(i), t)
    return F32(t)


def run_torch(cfg):
    env = Env(cfg['nutt'], cfg['npre'], cfg['npost'], cfg['nchan'], cfg['comp'])
    ns = build_torch_ns(env)
    viol = []
    ob = dis = 0

    def body():
        c = Ctx.cur
        ch = z3.Int('channel')
        sd = z3.Int('seed')
        c.assume(ch >= -1, ch <= 3, sd >= 0, z3.Int('nsamples') >= 1)
        env.mono_1d = decide(z3.Bool('mono_is_1d'))
        has_seed = decide(z3.Bool('seed_given'))
        runs = []
        env.random_draws = 0
        for run_id in (1, 2):
            env.saved, env.printed, env.seeds, env.reads, env.files = [], [], [], [], {}
            env.read_args = []
            env.rng.state = z3.Const('unseeded_run%d' % run_id, cl.RNGS)
            opts = make_options(env, SInt(sd) if has_seed else None, SInt(ch), None)
            try:
                rc = run_torch_tool(ns, env, opts)
            except ValueError as e:
                return ('valueerror', str(e)[:80], ch)
            except Exception as e:
                symex.guard(e)
                return ('exception', '%s: %s' % (type(e).__name__, e))
            runs.append((rc, list(env.saved)))
        seed_z = sd if has_seed else z3.Int('random_seed_draw1')
        rc, saved = runs[0]
        if rc != 0:
            return ('exit code', rc)
        # every signal is read through read_signal(path, dtype=float64, force_as=<--force-as>, key=<utterance id>)
        want_reads = [('path%d' % u, 'f64', None, uid(u, env.nutt)) for u in range(env.nutt)]
        if sorted(env.read_args, key=str) != sorted(want_reads, key=str):
            return ('read_signal arguments', str(env.read_args)[:200])
        if sorted(p for p, _ in saved) != sorted('out/%s.pt' % uid(u, env.nutt) for u in range(env.nutt)):
            return ('files', [p for p, _ in saved])
        by_name = dict(saved)
        for u in range(env.nutt):
            p = 'out/%s.pt' % uid(u, env.nutt)
            t = by_name[p]
            if decide(t != spec_term(env, u, seed_z, ch, env.mono_1d)):
                return ('value', p, str(t)[:300])
        if has_seed:
            for (p1, t1), (p2, t2) in zip(runs[0][1], runs[1][1]):
                if decide(t1 != t2):
                    return ('not deterministic under --seed', p1)
        return ('ok',)

    for ctx, res in explore(body):
        if res is None:
            continue
        ob += 1
        if res[0] == 'ok':
            dis += 1
            continue
        m = ctx.model()
        chv = m.eval(z3.Int('channel'), True).as_long()
        mono1d = z3.is_true(m.eval(z3.Bool('mono_is_1d'), True))
        if res[0] == 'valueerror':
            # documented refusal: channel does not fit the signal (exclusion by error)
            nchan = env.nchan
            sig_1d = nchan == 1 and mono1d
            mismatch = (chv == -1 and not sig_1d and nchan > 1) or (chv != -1 and sig_1d) or (chv >= nchan and not sig_1d)
            if mismatch:
                dis += 1
                continue
        viol.append(dict(kind='torch', nutt=env.nutt, npre=env.npre, npost=env.npost, nchan=env.nchan, comp=env.comp, what=res[0], detail=str(res[1:])[:300],
                         channel=chv, mono_1d=mono1d, seed_given=z3.is_true(m.eval(z3.Bool('seed_given'), True)), seed=m.eval(z3.Int('seed'), True).as_long(),
                         **{'class': 'torch/%s' % res[0]}))
    return dict(obligations=ob, discharged=dis, violations=viol, samples=[{'config': cfg['name'], 'pipeline_term': str(spec_term(env, 0, z3.Int('seed'), z3.Int('channel'), False))[:300]}], twin=dis > 0)


def run_config(cfg):
    return run_kaldi(cfg) if cfg['kind'] == 'kaldi' else run_torch(cfg)


# ------------------------------------------------------------------ replay with the real console entry points

def _real_setup(work):
    import json
    import os
    import numpy as np
    os.makedirs(work, exist_ok=True)
    conf = {'name': 'stft', 'bank': {'name': 'fbank', 'num_filts': 5, 'sampling_rate': 8000}, 'frame_length_ms': 10, 'frame_shift_ms': 5, 'include_energy': True}
    # two DIFFERENT elements each, so that order and identity of the list elements matter
    pre = [{'name': 'preemph', 'coeff': 0.9}, {'name': 'preemph', 'coeff': -0.6}]
    post = [{'name': 'deltas', 'num_deltas': 1}, {'name': 'stack', 'num_vectors': 2}]
    return conf, pre, post


def replay(w):
    """real entry points on temporary Kaldi tables / npy files; stored features vs the library pipeline"""
    import json
    import os
    import shutil
    import tempfile
    import warnings
    import numpy as np
    from pydrobert.speech import command_line
    from pydrobert.speech.alias import alias_factory_subclass_from_arg as afs
    from pydrobert.speech.compute import FrameComputer
    from pydrobert.speech.pre import PreProcessor
    from pydrobert.speech.post import PostProcessor
    work = tempfile.mkdtemp(prefix='c09-', dir='/verif/.work' if os.path.isdir('/verif/.work') else None)
    try:
        conf, pre, post = _real_setup(work)
        randomised = 'deterministic' in w.get('what', '')
        if randomised:
            pre = [{'name': 'dither', 'coeff': 1.0}, {'name': 'preemph', 'coeff': 0.9}]
        seed = int(w.get('seed', 3)) if w.get('seed_given', True) else 3
        pre = pre[: max(0, min(2, w.get('npre', 1)))]
        post = post[: max(0, min(2, w.get('npost', 1)))]
        rng = np.random.RandomState(2)
        nchan = max(1, w.get('nchan', 1))
        at_min = any(w.get('at_min%d' % u) for u in range(max(1, w.get('nutt', 1))))
        nsamp = 2000 if at_min else 1200        # 2000 samples at 8 kHz = 0.25 s exactly (also in single precision)
        few = sorted(v for k_, v in w.items() if k_.startswith('nframes_') and isinstance(v, int) and 0 < v <= 3)
        if few and w['kind'] == 'kaldi':
            # the witness has an utterance with very few frames: a signal length for which the real computer gives as many
            probe = afs(FrameComputer, json.loads(json.dumps(conf)))
            for n_ in range(1, 400):
                if probe.compute_full(np.zeros(n_)).shape[0] == few[0]:
                    nsamp, at_min = n_, False
                    break
        sigs = {'utt%d' % u: (rng.randn(nchan, nsamp) * 1000).astype(np.float64) for u in range(max(1, w.get('nutt', 1)))}
        zero_frame = set()
        if w['kind'] == 'kaldi' and w.get('nutt', 1) > 1:
            # a witness in which some utterances yield no frame while others do: those get a signal too short for one frame
            zero_frame = {'utt%d' % u for u in range(w['nutt']) if w.get('nframes_utt%d' % u) == 0}
            if len(zero_frame) < w['nutt']:
                for k_ in zero_frame:
                    sigs[k_] = (rng.randn(nchan, 20) * 1000).astype(np.float64)
                at_min = False      # no --min-duration: the short utterance must reach the computer
            else:
                zero_frame = set()

        def pipeline(x, with_comp=True):
            for p in pre:
                x = afs(PreProcessor, dict(p)).apply(x.copy())
            if with_comp:
                f = afs(FrameComputer, json.loads(json.dumps(conf))).compute_full(x)
            else:
                f = np.asarray(x)[:, None]      # raw-sample mode: the (pre-processed) audio as one column
            for p in post:
                f = afs(PostProcessor, dict(p)).apply(f)
            return f.astype(np.float32)
        chan = w.get('channel', -1)
        if w['kind'] == 'kaldi':
            from pydrobert.kaldi.io import open as kopen
            import wave
            wavs = os.path.join(work, 'wav.scp')
            with open(wavs, 'w') as scp:
                for k, v in sigs.items():
                    rate = 8000 if not w.get('mismatch' + k[3:], False) else 16000
                    wp = os.path.join(work, k + '.wav')
                    wv = wave.open(wp, 'wb')
                    wv.setnchannels(nchan)
                    wv.setsampwidth(2)
                    wv.setframerate(rate)
                    wv.writeframes(np.ascontiguousarray(v.T).astype('<i2').tobytes())
                    wv.close()
                    scp.write('%s %s\n' % (k, wp))
                    sigs[k] = v.astype('<i2').astype(np.float64)
            feats = os.path.join(work, 'feats.ark')
            args = ['scp:' + wavs, 'ark:' + feats, json.dumps(conf), '--preprocess', json.dumps(pre), '--postprocess', json.dumps(post), '--seed', str(seed)]
            if chan != -1 or nchan > 1:
                args += ['--channel', str(max(chan, 0))]
            if at_min:
                args += ['--min-duration', '0.25']      # every utterance lasts exactly the minimum: none may be dropped
            with warnings.catch_warnings():
                warnings.simplefilter('ignore')
                try:
                    rc = command_line.compute_feats_from_kaldi_tables(args)
                except Exception as e:
                    return {'reproduced': True, 'detail': 'compute-feats-from-kaldi-tables raised %s: %s' % (type(e).__name__, e)}
            got = {}
            if os.path.exists(feats):
                with kopen('ark:' + feats, 'bm') as f:
                    got = {k_: np.array(v_) for k_, v_ in f.items()}
            if randomised:
                # same command twice with the same --seed must store identical features
                feats2 = os.path.join(work, 'feats2.ark')
                args2 = list(args)
                args2[1] = 'ark:' + feats2
                with warnings.catch_warnings():
                    warnings.simplefilter('ignore')
                    command_line.compute_feats_from_kaldi_tables(args2)
                with kopen('ark:' + feats2, 'bm') as f:
                    got2 = {k_: np.array(v_) for k_, v_ in f.items()}
                for k in got:
                    if k not in got2 or got[k].shape != got2[k].shape or not np.array_equal(got[k], got2[k]):
                        return {'reproduced': True, 'detail': 'two runs with --seed %d and dither store different features for %s (max diff %.3g)'
                                % (seed, k, float(np.abs(got[k] - got2[k]).max()) if k in got2 and got[k].shape == got2[k].shape else float('nan'))}
                return {'reproduced': False, 'detail': 'two runs with --seed %d are identical' % seed}
            for k, v in sigs.items():
                if w.get('mismatch' + k[3:], False):
                    if k in got:
                        return {'reproduced': True, 'detail': 'utterance with rate mismatch was written'}
                    continue
                if chan >= nchan:
                    if k in got:
                        return {'reproduced': True, 'detail': '--channel %d on a %d-channel utterance: %s was written (shape %s, rc=%s) instead of being skipped' % (chan, nchan, k, got[k].shape, rc)}
                    continue
                if k not in got:
                    return {'reproduced': True, 'detail': 'utterance %s missing from the feature table (rc=%s)' % (k, rc)}
                if k in zero_frame:
                    if got[k].shape[0] != 0:
                        return {'reproduced': True, 'detail': 'utterance %s (20 samples, too short for a frame) is stored with %d rows: the features of another utterance (rc=%s)' % (k, got[k].shape[0], rc)}
                    continue
                want = pipeline(sigs[k][max(chan, 0)])
                if got[k].shape[0] == 0 and want.shape[0] == 0:
                    continue        # a Kaldi table does not keep the column count of a matrix without rows
                if got[k].shape != want.shape or not np.allclose(got[k], want, rtol=1e-4, atol=1e-4):
                    return {'reproduced': True, 'detail': 'stored features for %s have shape %s, library pipeline (pre=%d, post=%d) gives %s%s'
                            % (k, got[k].shape, len(pre), len(post), want.shape, '' if got[k].shape != want.shape else ' (max diff %.3g)' % np.abs(got[k] - want).max())}
            return {'reproduced': False, 'detail': 'kaldi tool output equals the library pipeline'}
        import torch
        mp = os.path.join(work, 'map')
        archive = w.get('what') == 'read_signal arguments'
        with open(mp, 'w') as f:
            if archive:
                # all utterances in one .npz archive, keyed by utterance id (the tool passes key=utt_id)
                sigs = {'utt%d' % u: (rng.randn(nchan, 900 + 150 * u) * 1000).astype(np.float64) for u in range(3)}
                p = os.path.join(work, 'all.npz')
                np.savez(p, **{k: (v if nchan > 1 or not w.get('mono_1d', True) else v[0]) for k, v in sigs.items()})
                for k in sigs:
                    f.write('%s %s\n' % (k, p))
            else:
                for k, v in sigs.items():
                    p = os.path.join(work, k + '.npy')
                    np.save(p, v if nchan > 1 or not w.get('mono_1d', True) else v[0])
                    f.write('%s %s\n' % (k, p))
        out = os.path.join(work, 'out')
        args = [mp] + ([json.dumps(conf)] if w.get('comp', True) else []) + [out, '--preprocess', json.dumps(pre), '--postprocess', json.dumps(post), '--seed', str(seed)]
        if chan != -1:
            args += ['--channel', str(chan)]
        try:
            rc = command_line.signals_to_torch_feat_dir(args)
        except Exception as e:
            return {'reproduced': True, 'detail': 'signals-to-torch-feat-dir raised %s: %s' % (type(e).__name__, e)}
        if randomised:
            out2 = os.path.join(work, 'out2')
            args2 = list(args)
            args2[args2.index(out)] = out2
            command_line.signals_to_torch_feat_dir(args2)
            for k in sigs:
                a, b = torch.load(os.path.join(out, k + '.pt')), torch.load(os.path.join(out2, k + '.pt'))
                if a.shape != b.shape or not torch.equal(a, b):
                    return {'reproduced': True, 'detail': 'two runs with --seed %d and dither store different features for %s' % (seed, k)}
            return {'reproduced': False, 'detail': 'two runs with --seed %d identical' % seed}
        for k, v in sigs.items():
            fp = os.path.join(out, k + '.pt')
            if not os.path.exists(fp):
                return {'reproduced': True, 'detail': 'no output for %s (rc=%s)' % (k, rc)}
            got = torch.load(fp).numpy()
            x = v[chan] if v.ndim > 1 and (nchan > 1 or not w.get('mono_1d', True)) else v[0]
            want = pipeline(x, w.get('comp', True))
            if got.shape != want.shape or not np.allclose(got, want, rtol=1e-3, atol=1e-3):
                return {'reproduced': True, 'detail': 'torch tool features for %s (computer=%s, pre=%d, post=%d) have shape %s, library pipeline gives %s%s' % (
                    k, w.get('comp', True), len(pre), len(post), got.shape, want.shape, '' if got.shape != want.shape else ' (max diff %.3g)' % np.abs(got - want).max())}
        return {'reproduced': False, 'detail': 'torch tool output equals the library pipeline'}
    finally:
        shutil.rmtree(work, ignore_errors=True)
