"""C10 -- signals-to-torch-feat-dir survives kill/resume and parallelism unchanged (DESIGN 3/C10)."""
import itertools

import z3

from vlib import symex
from vlib.symex import Ctx, SInt, _z, decide, explore, check_sat
from checks import cl_common as cl
from checks import c09
from checks.c09 import Env, Manifest, build_torch_ns, run_torch_tool, make_options, spec_term, uid

PID = 'C10'
LEVEL = 'model_checking'
FUNCTIONS = ['command_line:signals_to_torch_feat_dir', 'command_line:_FeatureProcessorDataset.__getitem__',
             'command_line:_FeatureProcessorDataset.__init__']
EXPLANATION = (
    'signals_to_torch_feat_dir is executed from source under a crash model: the stubs of the loader step, torch.save '
    '(three steps: file absent / partial / complete -- a non-atomic write), print(..., file=manifest) and manifest.flush '
    'share a step counter and a SYMBOLIC crash point raises Killed at that step; the manifest is a buffered text file whose '
    'lines are durable only after flush() (hard kill) or after normal unwinding (soft interrupt). z3 decides over every '
    'crash point, kill kind and seed that (A) every id in the durable manifest has a complete file, (B) every utterance '
    'whose loop iteration finished before the kill is listed, (C) a second run on the post-crash directory and manifest '
    'ends with exactly the files (same set, same value terms, including the RNG state rng(seed expression) actually '
    'passed to torch.manual_seed) of an uninterrupted run, and (D) listed utterances are neither re-read nor rewritten.')
BOUNDS = {'quick': '1-4 utterances, 0-1 pre-processor (dither-like: consumes the RNG), with/without computer, every crash step, hard kill, soft interrupt and failing write (OSError raised by torch.save at the step), symbolic seed; utterance ids not in lexicographic order; default file names and --file-prefix feat_ / --file-suffix .bin',
          'thorough': 'up to 5 utterances, 2 pre-processors, 2 post-processors'}
OUTSIDE = ['real process kills and real multi-process DataLoader workers: order preservation is the DataLoader stub\'s contract, so independence of --num-workers is assumed, not shown',
           'file-system atomicity beyond the three-step write model', 'runs without --seed (a fresh random seed is drawn per run by design)']
ASSUMPTIONS = ['io.TextIOWrapper: lines printed are durable only after flush()/close(); a soft interrupt unwinds normally and the interpreter flushes at exit',
               'torch.save is not atomic: absent -> partial -> complete; a failing write leaves the partial file and raises OSError', 'DataLoader yields items in index order, one __getitem__ per index',
               'builtins.hash of anything containing a str / bytes is salted per interpreter process: the uninterrupted run, the killed run and its resume are three processes (replayed in separate interpreters)',
               'tempfile.mkstemp returns a fresh name on every call; os.replace is atomic']
CONFIG_TIME_LIMIT = {'quick': 600, 'thorough': 1800}


class Killed(BaseException):
    pass


def configs(tier, seed):
    cfgs = []
    for nutt in ((1, 2, 3, 4) if tier == 'quick' else (1, 2, 3, 4, 5)):
        for npre in ((0, 1) if tier == 'quick' else (0, 1, 2)):
            for comp in (True, False):
                if tier == 'quick' and nutt == 4 and not comp:
                    continue
                cfgs.append(dict(kind='crash', name='crash utt%d pre%d comp=%s' % (nutt, npre, comp), nutt=nutt, npre=npre, comp=comp,
                                 npost=0 if tier == 'quick' else 1))
    # non-default file names: the manifest lists utterance ids, the files carry --file-prefix / --file-suffix
    for nutt in (2, 3):
        cfgs.append(dict(kind='crash', name='crash utt%d pre1 comp=True file-prefix feat_ file-suffix .bin' % nutt, nutt=nutt, npre=1, comp=True,
                         npost=0 if tier == 'quick' else 1, prefix='feat_', suffix='.bin'))
    return cfgs


def run_config(cfg):
    nutt, npre, comp, npost = cfg['nutt'], cfg['npre'], cfg['comp'], cfg['npost']
    env = Env(nutt, npre, npost, 1, comp)
    env.mono_1d = True
    env.file_prefix, env.file_suffix = cfg.get('prefix', ''), cfg.get('suffix', '.pt')
    pre_, suf_ = env.file_prefix, env.file_suffix

    def fname(u):
        return 'out/%s%s%s' % (pre_, u, suf_)

    def fid(path):
        b = path[4:]
        return b[len(pre_):len(b) - len(suf_)] if b.startswith(pre_) and b.endswith(suf_) else None
    ns = build_torch_ns(env)
    viol = []
    ob = dis = 0
    max_steps = nutt * 9 + 2       # six steps per utterance in the present code; room for a few more (scratch file, rename)

    def fresh_run(manifest, files, seed, crash_at=None, fault=None):
        env.saved, env.printed, env.seeds, env.reads = [], [], [], []
        env.process = getattr(env, 'process', 0) + 1        # every invocation of the tool is another interpreter process
        env.files = dict(files)
        env.rng.state = z3.Const('unseeded', cl.RNGS)
        counter = [0]
        finished = []      # utterances whose loop iteration completed (line printed and whatever follows it in the loop)
        last_printed = [None]
        faulted = []

        def step(name, arg):
            if name == 'load' and last_printed[0] is not None:
                finished.append(last_printed[0])
                last_printed[0] = None
            if name == 'printed':
                last_printed[0] = arg
            counter[0] += 1
            if crash_at is not None and decide(_z(crash_at) == counter[0]):
                if fault == 'oserror':
                    # an ordinary failure of the write (disk full) instead of a kill: only at the steps inside torch.save
                    if name in ('save-begin', 'save-mid'):
                        faulted.append(arg)
                        raise OSError(28, 'No space left on device')
                    return
                raise Killed()
        opts = make_options(env, seed, SInt(z3.IntVal(-1)), manifest)
        # manifest.flush participates in the step counter
        orig_flush = manifest.flush

        def flush():
            orig_flush()
            step('flush', None)
        manifest.flush = flush
        killed = False
        try:
            if crash_at is not None and decide(_z(crash_at) == 0):
                raise Killed()
            rc = run_torch_tool(ns, env, opts, hooks={'step': step})
        except Killed:
            killed = True
            rc = None
        except OSError:
            if not faulted:
                raise
            killed = True        # the failure propagated: the run ends like a soft interruption (files closed normally)
            rc = None
        if not killed and last_printed[0] is not None:
            finished.append(last_printed[0])
        env.faulted = list(faulted)
        return rc, killed, finished, counter[0]

    def body():
        c = Ctx.cur
        sd = z3.Int('seed')
        crash = z3.Int('crash_at')
        hard = z3.Bool('hard_kill')
        c.assume(sd >= 0, crash >= 0, crash <= max_steps, z3.Int('nsamples') >= 1)
        is_hard = decide(hard)
        is_fault = (not is_hard) and decide(z3.Bool('write_fails'))      # soft variant: torch.save raises OSError instead of the process being interrupted
        # uninterrupted reference run
        mref = Manifest([])
        rc, _, _, total = fresh_run(mref, {}, SInt(sd))
        ref_files = dict(env.files)
        if rc != 0:
            return ('reference run failed', rc)
        # interrupted run
        m1 = Manifest([])
        try:
            rc1, killed, finished, steps = fresh_run(m1, {}, SInt(sd), crash_at=SInt(crash), fault='oserror' if is_fault else None)
        except Exception as e:
            symex.guard(e)
            return ('exception', '%s: %s' % (type(e).__name__, e))
        if not killed and not (is_fault and env.faulted):
            return ('ok-nocrash',)
        files1 = dict(env.files)
        durable = list(m1.lines) if is_hard else list(m1.lines) + [l for l in ''.join(m1.buffer).split('\n') if l]
        # (A) listed => complete file
        for u in durable:
            st = files1.get(fname(u))
            if st is None or st[0] != 'complete':
                return ('A: listed utterance without a complete file', u)
        # (B) finished before the kill => listed
        for u in finished:
            if u not in durable:
                return ('B: completed utterance missing from the manifest after the kill', u, 'hard' if is_hard else 'soft')
        # resume
        m2 = Manifest(durable)
        try:
            rc2, killed2, _, _ = fresh_run(m2, files1, SInt(sd))
        except Exception as e:
            symex.guard(e)
            return ('exception in resume', '%s: %s' % (type(e).__name__, e))
        if rc2 != 0:
            return ('resume failed', rc2)
        # (D) listed utterances neither recomputed nor rewritten
        for (path, key) in env.reads:
            if key in durable:
                return ('D: listed utterance recomputed', key)
        for (path, t) in env.saved:
            if fid(path) in durable:
                return ('D: listed utterance rewritten', path)
        # (C) same directory as the uninterrupted run
        final = dict(env.files)
        if set(final) != set(ref_files):
            return ('C: different set of files', sorted(final), sorted(ref_files))
        for pth, (st, t) in final.items():
            if st != 'complete':
                return ('C: incomplete file after resume', pth)
            if decide(t != ref_files[pth][1]):
                return ('C: file differs from the uninterrupted run', pth, str(t)[:200], str(ref_files[pth][1])[:200])
        listed = list(m2.lines) + [l for l in ''.join(m2.buffer).split('\n') if l]
        if sorted(listed) != sorted(uid(u, nutt) for u in range(nutt)):
            return ('manifest after resume', listed)
        return ('ok',)

    reached = False
    for ctx, res in explore(body):
        if res is None:
            continue
        ob += 1
        if res[0].startswith('ok'):
            dis += 1
            reached = reached or res[0] == 'ok'
            continue
        m = ctx.model()
        viol.append(dict(kind='crash', nutt=nutt, npre=npre, comp=comp, npost=npost, prefix=pre_, suffix=suf_, what=res[0], detail=str(res[1:])[:300],
                         crash_at=m.eval(z3.Int('crash_at'), True).as_long(), hard=z3.is_true(m.eval(z3.Bool('hard_kill'), True)),
                         write_fails=z3.is_true(m.eval(z3.Bool('write_fails'), True)),
                         seed=m.eval(z3.Int('seed'), True).as_long(),
                         **{'class': 'crash/%s/%s' % (res[0].split(':')[0], 'pre' if npre else 'nopre')}))
    return dict(obligations=ob, discharged=dis, violations=viol,
                samples=[{'config': cfg['name'], 'crash_points': max_steps + 1, 'steps': 'load, save-begin, save-mid, save-end, printed, flush per utterance'}], twin=reached)


# ------------------------------------------------------------------ replay: real tool, simulated kill at the same step

def replay(w):
    """the real entry point with torch.save / print wrapped so that the process 'dies' (exception, manifest buffer dropped
    for a hard kill) at the witness step; then the real command is re-run and the directory compared with an uninterrupted run."""
    import builtins
    import json
    import os
    import shutil
    import tempfile
    import numpy as np
    import torch
    from pydrobert.speech import command_line
    work = tempfile.mkdtemp(prefix='c10-', dir='/verif/.work' if os.path.isdir('/verif/.work') else None)
    try:
        rng = np.random.RandomState(1)
        nutt = w['nutt']
        mp = os.path.join(work, 'map')
        with open(mp, 'w') as f:
            for u in range(nutt):
                p = os.path.join(work, 'sig%d.npy' % u)
                np.save(p, rng.randn(900) * 100)
                f.write('%s %s\n' % (uid(u, nutt), p))        # ids not in lexicographic order, as in the harness
        conf = {'name': 'stft', 'bank': {'name': 'fbank', 'num_filts': 5, 'sampling_rate': 8000}, 'frame_length_ms': 10, 'frame_shift_ms': 5}
        pre = [{'name': 'dither', 'coeff': 1.0}] if w['npre'] else []

        fpre, fsuf = w.get('prefix', ''), w.get('suffix', '.pt')

        def args(out, man):
            extra = (['--file-prefix', fpre] if fpre else []) + (['--file-suffix', fsuf] if fsuf != '.pt' else [])
            return [mp] + ([json.dumps(conf)] if w['comp'] else []) + [out, '--preprocess', json.dumps(pre), '--seed', str(int(w.get('seed', 7))), '--manifest', man] + extra

        def fn_(u):
            return fpre + u + fsuf

        def _uid_of(base):
            b = base[len(fpre):] if fpre and base.startswith(fpre) else base
            return b.split('.')[0]
        ref = os.path.join(work, 'ref')
        command_line.signals_to_torch_feat_dir(args(ref, os.path.join(work, 'ref.manifest')))
        out, man = os.path.join(work, 'out'), os.path.join(work, 'manifest')
        # interrupted run: kill after `k` complete utterances (mid-save of the next one), hard or soft
        k = max(0, min(nutt - 1, (w['crash_at'] - 1) // 6 if not w['what'].startswith('C') else max(1, w['crash_at'] // 6)))
        if w['what'].startswith('C') or w['what'].startswith('B'):
            k = max(1, min(nutt - 1, k)) if nutt > 1 else 0
        real_save = torch.save
        count = [0]
        completed = []

        class Kill(BaseException):
            pass

        def save(obj, path, *a, **kw):
            if count[0] == k:
                if hasattr(path, 'write'):
                    path.write(b'partial')
                    path.flush()
                else:
                    with open(path, 'wb') as f:
                        f.write(b'partial')
                if w.get('write_fails'):
                    count[0] += 1
                    raise OSError(28, 'No space left on device')       # the write itself fails (disk full); no kill
                raise Kill()
            count[0] += 1
            r_ = real_save(obj, path, *a, **kw)
            completed.append(_uid_of(os.path.basename(str(getattr(path, 'name', path)))))       # processing order is the tool's business: record what was really completed
            return r_
        torch.save = save
        parse = command_line._signals_to_torch_feat_dir_parse_args
        opened = []

        def parse2(a):
            o = parse(a)
            opened.append(o.manifest)
            return o
        command_line._signals_to_torch_feat_dir_parse_args = parse2
        try:
            try:
                command_line.signals_to_torch_feat_dir(args(out, man))
            except Kill:
                pass
            except OSError:
                if not w.get('write_fails'):
                    raise
        finally:
            torch.save = real_save
            command_line._signals_to_torch_feat_dir_parse_args = parse
        mf = opened[0]
        if w.get('hard', True):
            # hard kill: whatever is still in the text buffer never reaches the disk
            fd = os.open(os.devnull, os.O_WRONLY)
            try:
                os.dup2(fd, mf.fileno())     # buffered lines go to /dev/null when the object is finalised
            finally:
                os.close(fd)
            mf.close()
        else:
            mf.close()
        with open(man) as f:
            listed = [l.strip() for l in f if l.strip()]
        done = list(completed)
        missing = [u for u in done if u not in listed]
        if missing:
            return {'reproduced': True, 'detail': 'after a %s kill during the save of utterance %d the manifest lists %s: completed utterances %s are lost'
                    % ('hard' if w.get('hard', True) else 'soft', k, listed, missing)}
        for u in listed:
            try:
                torch.load(os.path.join(out, fn_(u)))
            except Exception as e:
                return {'reproduced': True, 'detail': 'after %s the manifest lists %s, whose file cannot be loaded (%s)' % ('a failed write (OSError from torch.save)' if w.get('write_fails') else ('a hard kill' if w.get('hard', True) else 'a soft interruption'), u, type(e).__name__)}
        def tracked_rerun(a_):
            """re-run the real command; report which utterances it read and which files it wrote"""
            saved_, read_ = [], []
            real_read = command_line.read_signal

            def save2(obj, path, *a, **kw):
                saved_.append(_uid_of(os.path.basename(str(path))))
                return real_save(obj, path, *a, **kw)

            def read2(rfilename, *a, **kw):
                read_.append(str(rfilename))
                return real_read(rfilename, *a, **kw)
            torch.save = save2
            command_line.read_signal = read2
            try:
                command_line.signals_to_torch_feat_dir(a_)
            finally:
                torch.save = real_save
                command_line.read_signal = real_read
            return saved_, read_
        sig_of = {uid(u, nutt): os.path.join(work, 'sig%d.npy' % u) for u in range(nutt)}
        saved2, read2_ = tracked_rerun(args(out, man))
        again = [u for u in listed if u in saved2 or sig_of.get(u) in read2_]
        if again:
            return {'reproduced': True, 'detail': 'the manifest listed %s before the re-run, yet the re-run read / rewrote %s (files written: %s)' % (listed, again, saved2)}
        for u in range(nutt):
            try:
                a = torch.load(os.path.join(out, fn_(uid(u, nutt))))
            except Exception as e:
                return {'reproduced': True, 'detail': 'after kill (during utterance %d) + resume, the file of %s (map line %d) is missing or incomplete (%s)' % (k, uid(u, nutt), u, type(e).__name__)}
            b = torch.load(os.path.join(ref, fn_(uid(u, nutt))))
            if a.shape != b.shape or not torch.equal(a, b):
                return {'reproduced': True, 'detail': 'after kill (during utterance %d) + resume, %s (map line %d, ids not sorted) differs from the uninterrupted run (max diff %.3g)'
                        % (k, uid(u, nutt), u, float((a - b).abs().max()) if a.shape == b.shape else float('nan'))}
        if sorted(os.listdir(out)) != sorted(os.listdir(ref)):
            return {'reproduced': True, 'detail': 'after kill (during utterance %d) + resume the directory holds %s, an uninterrupted run leaves %s' % (k, sorted(os.listdir(out)), sorted(os.listdir(ref)))}
        # a second invocation over the completed, uninterrupted directory: everything is listed, nothing may be touched
        with open(os.path.join(work, 'ref.manifest')) as f:
            listed_ref = [l.strip() for l in f if l.strip()]
        saved3, read3 = tracked_rerun(args(ref, os.path.join(work, 'ref.manifest')))
        again = [u for u in listed_ref if u in saved3 or sig_of.get(u) in read3]
        if again:
            return {'reproduced': True, 'detail': 'after a complete run the manifest lists %s, yet running the same command again read / rewrote %s' % (listed_ref, again)}
        # the uninterrupted run, the killed run and its resume are different interpreter processes in reality: the same
        # command in two fresh interpreters (default hash randomisation) must leave identical files
        if w['npre']:
            import subprocess
            import sys
            src = os.path.dirname(os.path.dirname(os.path.dirname(os.path.abspath(command_line.__file__))))
            outs = []
            for tag in ('p1', 'p2'):
                o_ = os.path.join(work, tag)
                code = 'import sys, json; from pydrobert.speech import command_line as c; sys.exit(c.signals_to_torch_feat_dir(json.loads(sys.argv[1])) or 0)'
                env_ = dict(os.environ, PYTHONPATH=src)
                env_.pop('PYTHONHASHSEED', None)
                r_ = subprocess.run([sys.executable, '-c', code, json.dumps(args(o_, os.path.join(work, tag + '.manifest')))], env=env_, capture_output=True, text=True, timeout=600)
                if r_.returncode != 0:
                    return {'reproduced': True, 'detail': 'the tool failed in a fresh interpreter process: %s' % r_.stderr[-300:]}
                outs.append(o_)
            for u in range(nutt):
                a = torch.load(os.path.join(outs[0], fn_(uid(u, nutt))))
                b = torch.load(os.path.join(outs[1], fn_(uid(u, nutt))))
                if a.shape != b.shape or not torch.equal(a, b):
                    return {'reproduced': True, 'detail': 'the same command (--seed %s, dither) run in two separate interpreter processes stores different features for %s (max diff %.3g): an interrupted run resumed from the shell cannot reproduce the uninterrupted one'
                            % (w.get('seed', 7), uid(u, nutt), float((a - b).abs().max()) if a.shape == b.shape else float('nan'))}
        return {'reproduced': False, 'detail': 'kill/resume reproduces the uninterrupted directory (also across interpreter processes); listed utterances are neither read nor rewritten'}
    finally:
        shutil.rmtree(work, ignore_errors=True)
