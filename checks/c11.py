"""C11 -- read_signal returns what was stored (inference, dispatch, per-reader dataflow, never-raising hook) (DESIGN 3/C11)."""
import sys
import types

import z3

from vlib import loader, symex, nd
from vlib.nd import ND
from vlib.symex import Ctx, SBool, SInt, _z, conc, decide, explore, check_sat, slen, Inconclusive

PID = 'C11'
LEVEL = 'other'
TECHNIQUE = ('symbolic execution of util.py with z3: file-name inference over the theory of strings and regular expressions; dispatch and '
             'per-reader dataflow with the container libraries replaced by stubs and symbolic frame/channel counts')
FUNCTIONS = ['util:_infer_force_as_from_rfilename', 'util:read_signal', 'util:_wave_read_signal', 'util:_numpy_archive_read_signal',
             'util:_numpy_binary_read_signal', 'util:_hdf5_read_signal', 'util:_soundfile_read_signal', 'util:_torch_read_signal',
             'util:_numpy_fromfile_read_signal', 'util:wds_read_signal']
EXPLANATION = (
    'NOT claimed: bit-identical round trips through libsndfile / HDF5 / torch.load / np.load (C-library I/O, no symbolic model '
    'within reach). Decided on the real util.py: (S1) for every file name up to the bound (z3 strings + regular expressions) the '
    'inferred type is the documented one in the documented priority order and a name without a recognised suffix raises IOError; '
    '(S2) read_signal dispatch: exactly one reader is called with the given dtype/key, its result is returned, a stream without '
    'force_as / an unknown force_as / a Kaldi type on a stream raise ValueError; (S3) per-reader dataflow with the container '
    'library stubbed: wave -> (frames, channels) C-order with symbolic frame and channel counts, IOError on a ragged count, npz '
    'key vs arr_0, HDF5 key vs first dataset in sorted depth-first order, soundfile subtype -> dtype, dtype applied as the last '
    'cast; (S4) wds_read_signal returns None for anything the inner calls raise.')
BOUNDS = {'quick': 'file names up to 7 characters over the full character set; wave: any frame count and 1..4 channels (symbolic), sample width 1/2/4; all force_as values; 3 HDF5 trees; .pt tensors of symbolic element kind and item size 1/2/4/8',
          'thorough': 'file names up to 10 characters (8 with the soundfile type set: longer bounds time out in z3\'s string solver)'}
OUTSIDE = ['the container libraries themselves (central round-trip clause not claimed)', '8-bit soundfile subtypes (not among the containers the property lists)',
           'scipy wav backend (scipy is not installed: read_signal falls back to the stdlib wave reader, which is what is analysed)']
ASSUMPTIONS = ['`x in collection` / `not in` of the inference code are rewritten (AST, loaded copy) to a helper that compares a symbolic string with every member (Python would go through hash())',
               'the regular expression the code uses is translated from Python\'s own parse tree (subset: literals, classes, \\w \\d \\s over ASCII, groups, alternation, * + ? {m,n}, leading ^); names are ASCII',
               'stub contracts of wave.open / np.load / h5py.File / soundfile.SoundFile / torch.load as documented by those libraries',
               'np.frombuffer(readframes(n)) yields n*channels samples in file order']
CONFIG_TIME_LIMIT = {'quick': 900, 'thorough': 3000}
S = z3.StringSort()


class SStr:
    def __init__(s, z):
        s.z = z

    def endswith(s, suf):
        return SBool(z3.SuffixOf(z3.StringVal(suf), s.z))

    def rsplit(s, sep, maxsplit=-1):
        assert maxsplit == 1
        idx = z3.LastIndexOf(s.z, z3.StringVal(sep))
        last = z3.If(idx < 0, s.z, z3.SubString(s.z, idx + 1, z3.Length(s.z)))
        return [None, SStr(last)]

    def __eq__(s, o):
        return SBool(s.z == (o.z if isinstance(o, SStr) else z3.StringVal(o)))

    def __hash__(s):
        return 0

    def __format__(s, f):
        return '<name>'


class SymSet:
    def __init__(s, items):
        s.items = sorted(items)

    def __contains__(s, x):
        if isinstance(x, SStr):
            if not s.items:
                return False
            return bool(SBool(z3.Or([x.z == z3.StringVal(i) for i in s.items])))
        return x in s.items

    def __or__(s, o):
        return set(s.items) | set(o)

    __ror__ = __or__


def smatch(pat, s):
    """re.match(pat, name) on a symbolic name: the pattern the code really uses is parsed with Python's own regex
    parser and translated to a z3 regular expression (subset: literals, classes, \\w \\d \\s over ASCII, groups,
    alternation, * + ? {m,n}, ^ and a final $); anything else is Unsupported"""
    return SBool(z3.InRe(s.z, z3.Concat(re_to_z3(pat), z3.Full(z3.ReSort(S)))))


def re_to_z3(pat):
    import re
    parser = getattr(re, '_parser', None)
    if parser is None:
        import sre_parse as parser
    C = parser
    try:
        tree = parser.parse(pat)
    except Exception as e:
        raise symex.Unsupported('regular expression %r: %s' % (pat, e))
    anyc = z3.AllChar(z3.ReSort(S))
    empty = z3.Re('')

    def cat(parts):
        parts = [p_ for p_ in parts if p_ is not None]
        if not parts:
            return empty
        r = parts[0]
        for q in parts[1:]:
            r = z3.Concat(r, q)
        return r

    def category(c):
        if c == C.CATEGORY_WORD:
            return _w
        if c == C.CATEGORY_DIGIT:
            return z3.Range('0', '9')
        if c == C.CATEGORY_SPACE:
            return z3.Union(z3.Re(' '), z3.Re('\t'), z3.Re('\n'), z3.Re('\r'))
        raise symex.Unsupported('regular expression %r: category %s' % (pat, c))

    def conv(seq, top=False):
        out = []
        items = list(seq)
        for i, (op, av) in enumerate(items):
            if op == C.LITERAL:
                out.append(z3.Re(chr(av)))
            elif op == C.ANY:
                out.append(z3.Diff(anyc, z3.Re('\n')))
            elif op == C.IN:
                neg = False
                alts = []
                for (o2, a2) in av:
                    if o2 == C.NEGATE:
                        neg = True
                    elif o2 == C.LITERAL:
                        alts.append(z3.Re(chr(a2)))
                    elif o2 == C.RANGE:
                        alts.append(z3.Range(chr(a2[0]), chr(a2[1])))
                    elif o2 == C.CATEGORY:
                        alts.append(category(a2))
                    else:
                        raise symex.Unsupported('regular expression %r: class item %s' % (pat, o2))
                u = alts[0] if len(alts) == 1 else z3.Union(*alts)
                out.append(z3.Diff(anyc, u) if neg else u)
            elif op == C.BRANCH:
                brs = [conv(b) for b in av[1]]
                out.append(brs[0] if len(brs) == 1 else z3.Union(*brs))
            elif op == C.SUBPATTERN:
                out.append(conv(av[-1]))
            elif op in (C.MAX_REPEAT, C.MIN_REPEAT):
                lo, hi, sub = av
                r = conv(sub)
                if hi == C.MAXREPEAT:
                    rep = z3.Star(r) if lo == 0 else (z3.Plus(r) if lo == 1 else z3.Concat(cat([r] * lo), z3.Star(r)))
                else:
                    rep = z3.Loop(r, lo, hi)
                out.append(rep)
            elif op == C.AT:
                if av == C.AT_BEGINNING and top and i == 0:
                    continue
                raise symex.Unsupported('regular expression %r: anchor %s' % (pat, av))
            else:
                raise symex.Unsupported('regular expression %r: construct %s' % (pat, op))
        return cat(out)
    return conv(tree, top=True)


_w = z3.Union(z3.Range('a', 'z'), z3.Range('A', 'Z'), z3.Range('0', '9'), z3.Re('_'))
TABLE_RE = z3.Concat(z3.Union(z3.Re('ark'), z3.Re('scp')), z3.Star(z3.Concat(z3.Re(','), z3.Plus(_w))), z3.Re(':'), z3.Full(z3.ReSort(S)))


def configs(tier, seed):
    maxlen = 7 if tier == 'quick' else 10
    cfgs = [dict(kind='infer', name='inference soundfile=%s' % sf, sf=sf, maxlen=(maxlen if not sf else min(maxlen, 8))) for sf in (False, True)]
    cfgs += [dict(kind='dispatch', name='dispatch'), dict(kind='wave', name='wave reader'), dict(kind='npz', name='npz/npy/pt/file readers'),
             dict(kind='hdf5', name='hdf5 reader'), dict(kind='soundfile', name='soundfile reader'), dict(kind='wds', name='wds_read_signal')]
    return cfgs


def spec_infer(name, sf_types):
    """documented priority order, written independently over z3 strings"""
    idx = z3.LastIndexOf(name, z3.StringVal('.'))
    last = z3.If(idx < 0, name, z3.SubString(name, idx + 1, z3.Length(name)))
    r = z3.StringVal('ERR')
    for suf, val in reversed([('.wav', 'wav'), ('.hdf5', 'hdf5'), ('.npy', 'npy'), ('.npz', 'npz'), ('.pt', 'pt'), ('.sph', 'sph'), ('|', 'kaldi')]):
        r = z3.If(z3.SuffixOf(z3.StringVal(suf), name), z3.StringVal(val), r)
    for t in sf_types:
        r = z3.If(last == z3.StringVal(t), z3.StringVal(t), r)
    return z3.If(z3.InRe(name, TABLE_RE), z3.StringVal('table'), r)


def _membership_transform(tree):
    """AST rewrite on the loaded copy: `a in b` / `a not in b` become calls of __sym_in__, because Python's set and dict
    look-ups go through hash() and would never compare a symbolic string with the members"""
    import ast

    class T(ast.NodeTransformer):
        def visit_Compare(self, node):
            self.generic_visit(node)
            if len(node.ops) == 1 and isinstance(node.ops[0], (ast.In, ast.NotIn)):
                call = ast.Call(func=ast.Name(id='__sym_in__', ctx=ast.Load()), args=[node.left, node.comparators[0]], keywords=[])
                return ast.UnaryOp(op=ast.Not(), operand=call) if isinstance(node.ops[0], ast.NotIn) else call
            return node
    return T().visit(tree)


def _sym_in(x, coll):
    if isinstance(x, SStr) and isinstance(coll, (set, frozenset, list, tuple, dict)):
        members = [m for m in coll if isinstance(m, str)]
        return bool(SBool(z3.Or([x.z == z3.StringVal(m) for m in members]))) if members else False
    if isinstance(x, SStr) and isinstance(coll, str):
        return bool(SBool(z3.Contains(z3.StringVal(coll), x.z)))
    if isinstance(coll, SStr):
        return bool(SBool(z3.Contains(coll.z, x.z if isinstance(x, SStr) else z3.StringVal(x))))
    return x in coll


def run_infer(cfg):
    sf_types = ['aiff', 'flac', 'ogg', 'wav'] if cfg['sf'] else []
    ns = loader.load_unit('util', dict(match=smatch, __sym_in__=_sym_in), transform=_membership_transform, name='pydrobert.speech.util')
    ns['config'] = types.SimpleNamespace(SOUNDFILE_SUPPORTED_FILE_TYPES=SymSet(sf_types), _BASE_SOUNDFILE_SUPPORTED_TYPES=set(), _FULL_SOUNDFILE_SUPPORTED_TYPES=set())
    viol = []
    ob = dis = 0

    def body():
        name = z3.String('name')
        Ctx.cur.assume(z3.Length(name) <= cfg['maxlen'])
        try:
            r = ns['_infer_force_as_from_rfilename'](SStr(name))
        except IOError:
            r = 'ERR'
        except Exception as e:
            symex.guard(e)
            return ('exception', '%s: %s' % (type(e).__name__, e))
        return ('ok', r, name)

    for ctx, res in explore(body):
        if res is None:
            continue
        ob += 1
        if res[0] == 'exception':
            viol.append(dict(kind='infer', sf=cfg['sf'], what='exception ' + res[1], name=str(ctx.model().eval(z3.String('name'), True)), **{'class': 'infer/exception'}))
            continue
        _, r, name = res
        rz = r.z if isinstance(r, SStr) else z3.StringVal(r)
        s = ctx.solver
        s.push()
        s.add(rz != spec_infer(name, sf_types))
        rr = check_sat(s)
        if rr == 'sat':
            m = s.model()
            viol.append(dict(kind='infer', sf=cfg['sf'], what='inferred %s' % m.eval(rz, True), name=m.eval(name, True).as_string(), **{'class': 'infer/wrong'}))
        else:
            dis += 1
        s.pop()
    return dict(obligations=ob, discharged=dis, violations=viol, samples=[{'config': cfg['name'], 'paths': ob, 'obligation': 'forall name, |name| <= %d: inferred type == documented priority chain' % cfg['maxlen']}], twin=dis > 0)


FORCE = ['table', 'wav', 'hdf5', 'npy', 'npz', 'pt', 'sph', 'kaldi', 'file', 'soundfile', 'flac', 'bogus']
READER = {'table': '_kaldi_table_read_signal', 'wav': '_wave_read_signal', 'hdf5': '_hdf5_read_signal', 'npy': '_numpy_binary_read_signal',
          'npz': '_numpy_archive_read_signal', 'pt': '_torch_read_signal', 'sph': 'sphere_read_signal', 'kaldi': '_kaldi_input_read_signal',
          'file': '_numpy_fromfile_read_signal', 'soundfile': '_soundfile_read_signal', 'flac': '_soundfile_read_signal'}


def run_dispatch(cfg):
    import pydrobert.speech._sphere as sph
    ns = loader.load_unit('util', name='pydrobert.speech.util')
    ns['config'] = types.SimpleNamespace(SOUNDFILE_SUPPORTED_FILE_TYPES={'flac', 'wav', 'ogg', 'aiff'}, _BASE_SOUNDFILE_SUPPORTED_TYPES=set(), _FULL_SOUNDFILE_SUPPORTED_TYPES=set())
    calls = []

    def mk(name):
        def reader(rfilename, dtype, key, **kw):
            calls.append((name, rfilename, dtype, key, kw))
            return ('RESULT', name)
        return reader
    for r in set(READER.values()):
        if r != 'sphere_read_signal':
            ns[r] = mk(r)

    def scipy_reader(*a, **k):
        raise ImportError('no scipy')
    ns['_scipy_io_read_signal'] = scipy_reader
    viol = []
    ob = dis = 0
    saved = sph.sphere_read_signal
    sph.sphere_read_signal = lambda rfilename, dtype, key, **kw: (calls.append(('sphere_read_signal', rfilename, dtype, key, kw)) or ('RESULT', 'sphere_read_signal'))

    def body():
        del calls[:]
        fa = None
        if decide(z3.Bool('force_as_given')):
            fa = FORCE[-1]
            for f in FORCE[:-1]:
                if decide(z3.Bool('force_as_is_' + f)):
                    fa = f
                    break
        stream = decide(z3.Bool('is_stream'))
        rf = object() if stream else 'x.npy'
        dtype = 'DT' if decide(z3.Bool('dtype_given')) else None
        key = 'KEY' if decide(z3.Bool('key_given')) else None
        try:
            out = ns['read_signal'](rf, dtype=dtype, key=key, force_as=fa)
        except ValueError:
            ok = (stream and fa is None) or fa == 'bogus' or (stream and fa in ('kaldi', 'table'))
            return ('ok',) if ok and not calls else ('ValueError', fa, stream)
        except Exception as e:
            symex.guard(e)
            return ('exception %s' % type(e).__name__, fa, stream)
        if (stream and fa is None) or fa == 'bogus' or (stream and fa in ('kaldi', 'table')):
            return ('accepted invalid request', fa, stream)
        want = READER[fa if fa is not None else 'npy']
        if len(calls) != 1 or calls[0][:4] != (want, rf, dtype, key) or out != ('RESULT', want):
            return ('wrong reader / arguments / result', fa, str(calls)[:150])
        return ('ok',)
    try:
        for ctx, res in explore(body):
            if res is None:
                continue
            ob += 1
            if res[0] == 'ok':
                dis += 1
            else:
                viol.append(dict(kind='dispatch', what=res[0], detail=str(res[1:])[:200], **{'class': 'dispatch/' + res[0]}))
    finally:
        sph.sphere_read_signal = saved
    return dict(obligations=ob, discharged=dis, violations=viol, samples=[{'config': 'dispatch', 'cases': ob}], twin=dis > 0)


I = z3.IntSort()
SAMPLE = z3.Function('sample', I, z3.RealSort())


class DTok:
    def __init__(s, name):
        s.name = name

    def __eq__(s, o):
        return isinstance(o, DTok) and o.name == s.name

    def __hash__(s):
        return hash(s.name)


def run_wave(cfg):
    viol = []
    ob = dis = 0
    state = {}

    class WaveFile:
        def getsampwidth(s):
            return state['width']

        def getnframes(s):
            return SInt(state['nframes'])

        def getnchannels(s):
            return SInt(state['nchan'])

        def readframes(s, n):
            state['read'] = n
            return ('FRAMES', n)

        def close(s):
            state['closed'] = True

    class NP:
        @staticmethod
        def frombuffer(buf, dtype=None):
            assert buf[0] == 'FRAMES'
            n = state['nframes'] * state['nchan']
            state['dtype_in'] = dtype
            return ND.fresh((conc(SInt(n)),), lambda idx: SAMPLE(idx[0]), 'raw')
    nd.DTYPE_AWARE = True
    wave_stub = types.ModuleType('wave')
    wave_stub.open = lambda rfilename, **kw: WaveFile()
    ns = loader.load_unit('util', dict(np=NP, len=slen), name='pydrobert.speech.util')

    def body():
        c = Ctx.cur
        nf, nc = z3.Int('nframes'), z3.Int('nchan')
        c.assume(nf >= 0, nc >= 1, nc <= 4)
        state.update(nframes=nf, nchan=nc, closed=False)
        state['width'] = 2 if decide(z3.Bool('width16')) else (4 if decide(z3.Bool('width32')) else 1)
        dt = 'f4' if decide(z3.Bool('dtype_given')) else None
        saved = sys.modules.get('wave')
        sys.modules['wave'] = wave_stub
        try:
            out = ns['_wave_read_signal']('x.wav', dt, None)
        except IOError:
            return ('ioerror',)
        except Exception as e:
            symex.guard(e)
            return ('exception', '%s: %s' % (type(e).__name__, e))
        finally:
            if saved is not None:
                sys.modules['wave'] = saved
            else:
                sys.modules.pop('wave', None)
        bad = [z3.BoolVal(not state['closed']), z3.BoolVal(state['dtype_in'] != '<i%d' % state['width'])]
        mono = decide(nc == 1)
        if len(out.shape) != (1 if mono else 2):
            return ('rank', str(out.shape))
        bad.append(_z(out.shape[0]) != nf)
        if not mono:
            bad.append(_z(out.shape[1]) != nc)
        bad.append(z3.BoolVal(out.dtype != ('f4' if dt else 'raw')))
        i, ch = z3.Int('i'), z3.Int('ch')
        c.assume(i >= 0, i < nf, ch >= 0, ch < nc)
        if decide(nf > 0):
            got = out.get(i) if mono else out.get(i, ch)
            want = SAMPLE(i * nc + ch)
            if dt:
                want = nd.cast_fn('f4')(want)
            bad.append(got != want)
        return ('ok', bad)

    for ctx, res in explore(body):
        if res is None:
            continue
        ob += 1
        if res[0] == 'ioerror':
            # frames x channels samples are never ragged: an IOError here is a violation
            viol.append(dict(kind='wave', what='IOError on a well-formed file', **_wv(ctx.model())))
            continue
        if res[0] != 'ok':
            viol.append(dict(kind='wave', what='%s %s' % (res[0], res[1] if len(res) > 1 else ''), **_wv(ctx.model())))
            continue
        s = ctx.solver
        s.push()
        s.add(z3.Or(res[1]))
        r = check_sat(s)
        if r == 'sat':
            viol.append(dict(kind='wave', what='shape / order / dtype of the decoded frames', **_wv(s.model())))
        else:
            dis += 1
        s.pop()
    for w in viol:
        w['class'] = 'wave/%s/frames%s' % (w['what'].split()[0], '1' if w['nframes'] == 1 else 'n')
    return dict(obligations=ob, discharged=dis, violations=viol, samples=[{'config': 'wave', 'obligation': 'forall nframes >= 0, 1 <= channels <= 4: out[i, ch] == sample[i*channels + ch], shape (nframes, channels) / (nframes,)'}], twin=dis > 0)


def _wv(m):
    return dict(nframes=m.eval(z3.Int('nframes'), True).as_long(), nchan=m.eval(z3.Int('nchan'), True).as_long(),
                width=2 if z3.is_true(m.eval(z3.Bool('width16'), True)) else (4 if z3.is_true(m.eval(z3.Bool('width32'), True)) else 1))


class Arr:
    """array token with astype"""

    def __init__(s, name, dtype='stored'):
        s.name, s.dtype = name, dtype

    def astype(s, dt, copy=True, **kw):
        return Arr(s.name, dt)

    def numpy(s):
        return Arr(s.name + '.numpy()', s.dtype)

    def __eq__(s, o):
        return isinstance(o, Arr) and (o.name, o.dtype) == (s.name, s.dtype)

    def __repr__(s):
        return 'Arr(%s,%s)' % (s.name, s.dtype)


class TensorTok(Arr):
    """torch.load result: element type unknown (symbolic kind and item size); conversions change the dtype label"""

    def is_floating_point(s):
        return decide(z3.Bool('pt_is_float'))

    def is_complex(s):
        return False

    def element_size(s):
        from vlib.symex import SInt
        return SInt(z3.Int('pt_itemsize'))

    def _conv(s, to):
        return TensorTok(s.name, 'converted:%s' % to)

    def float(s):
        return s._conv('float32')

    def double(s):
        return s._conv('float64')

    def half(s):
        return s._conv('float16')

    def to(s, *a, **k):
        return s._conv(a[0] if a else k.get('dtype', '?'))

    type = to

    def cpu(s):
        return s

    detach = contiguous = cpu

    def numpy(s):
        return Arr(s.name + '.numpy()', s.dtype)


def run_npz(cfg):
    viol = []
    ob = dis = 0

    class Archive(dict):
        @property
        def files(s):
            return list(s.keys())

    class NP:
        @staticmethod
        def load(path, **kw):
            if path.endswith('.npz'):
                # keyword-named arrays come first in an archive written by np.savez(path, positional, name=...)
                return Archive([('rate', Arr('rate')), ('arr_0', Arr('arr_0')), ('KEY', Arr('KEY')), ('arr_1', Arr('arr_1'))])
            return Arr('npy')

        @staticmethod
        def fromfile(path, dtype=None, **kw):
            return Arr('raw', dtype if dtype is not None else 'float64-default')
    ns = loader.load_unit('util', dict(np=NP), name='pydrobert.speech.util')
    torch_stub = types.ModuleType('torch')
    torch_stub.load = lambda path, map_location=None, **kw: TensorTok('pt:%s' % map_location)
    cases = []
    for dt in (None, 'DT'):
        for key in (None, 'KEY'):
            cases.append(('_numpy_archive_read_signal', 'a.npz', dt, key, Arr(key or 'arr_0', dt or 'stored')))
        cases.append(('_numpy_binary_read_signal', 'a.npy', dt, None, Arr('npy', dt or 'stored')))
        cases.append(('_torch_read_signal', 'a.pt', dt, None, Arr('pt:cpu.numpy()', dt or 'stored')))
        cases.append(('_numpy_fromfile_read_signal', 'a.bin', dt, None, Arr('raw', dt or 'float64-default')))
    saved = sys.modules.get('torch')
    sys.modules['torch'] = torch_stub
    try:
        for fn, path, dt, key, want in cases:
            def body(fn=fn, path=path, dt=dt, key=key):
                Ctx.cur.assume(z3.Or([z3.Int('pt_itemsize') == k_ for k_ in (1, 2, 4, 8)]))
                try:
                    return ('ok', ns[fn](path, dt, key))
                except Exception as e:
                    symex.guard(e)
                    return ('raised', type(e).__name__)
            for ctx, res in explore(body, max_paths=64):
                if res is None:
                    continue
                ob += 1
                m = ctx.model()
                extra = dict(pt_is_float=z3.is_true(m.eval(z3.Bool('pt_is_float'), True)), pt_itemsize=m.eval(z3.Int('pt_itemsize'), True).as_long()) if fn == '_torch_read_signal' else {}
                if res[0] == 'raised':
                    viol.append(dict(kind='npz', what='%s(%r, dtype=%r, key=%r) raised %s' % (fn, path, dt, key, res[1]), fn=fn, **extra, **{'class': 'readers/' + fn}))
                elif res[1] == want:
                    dis += 1
                else:
                    viol.append(dict(kind='npz', what='%s(%r, dtype=%r, key=%r) returned %r, documented %r' % (fn, path, dt, key, res[1], want), fn=fn, **extra, **{'class': 'readers/' + fn}))
    finally:
        if saved is not None:
            sys.modules['torch'] = saved
        else:
            sys.modules.pop('torch', None)
    return dict(obligations=ob, discharged=dis, violations=viol, samples=[{'config': 'readers', 'cases': [c[0] for c in cases][:6]}], twin=dis > 0)


def run_hdf5(cfg):
    viol = []
    ob = dis = 0

    class Dataset:
        def __init__(s, name):
            s.name = name

    class Group(dict):
        pass

    class File(Group):
        def __enter__(s):
            return s

        def __exit__(s, *a):
            pass
    trees = [
        ({'b': Dataset('b'), 'a': Dataset('a')}, 'a'),
        ({'z': Dataset('z'), 'g': Group({'y': Dataset('g/y'), 'x': Dataset('g/x')})}, 'g/x'),
        ({'m': Group({'n': Group({})}), 'q': Group({'r': Dataset('q/r')}), 's': Dataset('s')}, 'q/r'),
    ]

    class NP:
        @staticmethod
        def array(d, dtype=None):
            return Arr(d.name, dtype or 'stored')
    ns = loader.load_unit('util', dict(np=NP), name='pydrobert.speech.util')
    saved = sys.modules.get('h5py')
    try:
        for tree, first in trees:
            h5 = types.ModuleType('h5py')
            h5.Dataset = Dataset
            h5.File = lambda path, mode, tree=tree, **kw: File(tree)
            sys.modules['h5py'] = h5
            for dt in (None, 'DT'):
                for key in (None, sorted(k for k in tree if isinstance(tree[k], Dataset))[-1] if any(isinstance(v, Dataset) for v in tree.values()) else None):
                    ob += 1
                    want = Arr(key if key else first, dt or 'stored')
                    try:
                        got = ns['_hdf5_read_signal']('a.hdf5', dt, key)
                    except Exception as e:
                        symex.guard(e)
                        viol.append(dict(kind='hdf5', what='raised %s: %s' % (type(e).__name__, e), **{'class': 'hdf5/raise'}))
                        continue
                    if got == want:
                        dis += 1
                    else:
                        viol.append(dict(kind='hdf5', what='returned %r, documented %r (key=%r)' % (got, want, key), **{'class': 'hdf5/wrong'}))
        # empty file -> IOError
        ob += 1
        h5 = types.ModuleType('h5py')
        h5.Dataset = Dataset
        h5.File = lambda path, mode, **kw: File({})
        sys.modules['h5py'] = h5
        try:
            ns['_hdf5_read_signal']('a.hdf5', None, None)
            viol.append(dict(kind='hdf5', what='empty archive accepted', **{'class': 'hdf5/empty'}))
        except IOError:
            dis += 1
    finally:
        if saved is not None:
            sys.modules['h5py'] = saved
        else:
            sys.modules.pop('h5py', None)
    return dict(obligations=ob, discharged=dis, violations=viol, samples=[{'config': 'hdf5', 'trees': len(trees)}], twin=dis > 0)


class _DTName(str):
    """canonical dtype name that also answers the questions code may ask a numpy.dtype (kind, itemsize, type, name)"""

    def __new__(cls, real):
        o = str.__new__(cls, real.name)
        o.kind, o.itemsize, o.name, o.char, o.str = real.kind, real.itemsize, real.name, real.char, real.str
        o.type = real.name          # the scalar type spelling: the canonical name again
        o.byteorder = real.byteorder
        return o


def run_soundfile(cfg):
    viol = []
    ob = dis = 0
    state = {}

    class SF:                                  # what was decoded is part of the token's identity
        def __init__(s, rfilename, **kw):
            s.subtype = state['subtype']

        def __enter__(s):
            return s

        def __exit__(s, *a):
            pass

        def read(s, dtype=None, **kw):
            # libsndfile rescales when asked for another sample type than the stored one: a different array
            return Arr('sf decoded as %s' % (dtype,), dtype)

    class NP:
        float32, float64, int8, uint8, int32, int16, int64 = 'float32', 'float64', 'int8', 'uint8', 'int32', 'int16', 'int64'

        @staticmethod
        def dtype(d):
            # canonical name of a real dtype spelling ('i2', '<i4', int, ...); abstract tokens ('DT') stay as they are
            import numpy as _np
            try:
                return _DTName(_np.dtype(d))
            except TypeError:
                return d
    ns = loader.load_unit('util', dict(np=NP), name='pydrobert.speech.util')
    sfm = types.ModuleType('soundfile')
    sfm.SoundFile = SF
    saved = sys.modules.get('soundfile')
    sys.modules['soundfile'] = sfm
    try:
        for sub, want in (('PCM_16', 'int16'), ('PCM_32', 'int32'), ('PCM_24', 'int32'), ('FLOAT', 'float32'), ('DOUBLE', 'float64')):
            for dt in (None, 'float16', 'uint8', 'int8', 'complex64', 'int16', 'int32', 'int64', 'float32', 'float64'):
                ob += 1
                state['subtype'] = sub
                got = ns['_soundfile_read_signal']('x.flac', dt, None)
                # decoded in the stored sample type, the requested dtype applied as a final cast
                if got == Arr('sf decoded as %s' % want, dt or want):
                    dis += 1
                else:
                    viol.append(dict(kind='soundfile', sub=sub, dt=dt, what='subtype %s dtype=%r: %r, documented %r' % (sub, dt, got, Arr('sf decoded as %s' % want, dt or want)),
                                     **{'class': 'soundfile/%s/%s' % (sub, dt)}))
    finally:
        if saved is not None:
            sys.modules['soundfile'] = saved
        else:
            sys.modules.pop('soundfile', None)
    return dict(obligations=ob, discharged=dis, violations=viol, samples=[{'config': 'soundfile'}], twin=dis > 0)


def run_wds(cfg):
    ns = loader.load_unit('util', name='pydrobert.speech.util')
    viol = []
    ob = dis = 0

    class Weird(BaseException):
        pass
    for exc in (None, Exception('x'), ValueError('x'), IOError('x'), KeyError('x'), MemoryError(), KeyboardInterrupt(), SystemExit(3), Weird(), RecursionError(), ImportError('x')):
        for where in ('infer', 'read'):
            ob += 1

            def infer(k):
                if where == 'infer' and exc is not None:
                    raise exc
                return 'npy'

            def read(f, force_as=None, **kw):
                if where == 'read' and exc is not None:
                    raise exc
                return ('ARRAY', force_as)
            ns['_infer_force_as_from_rfilename'] = infer
            ns['read_signal'] = read
            try:
                got = ns['wds_read_signal']('a.npy', b'1234')
            except BaseException as e:
                viol.append(dict(kind='wds', what='wds_read_signal raised %s (inner %s raised it)' % (type(e).__name__, where), **{'class': 'wds/raise'}))
                continue
            want = ('ARRAY', 'npy') if exc is None else None
            if got == want:
                dis += 1
            else:
                viol.append(dict(kind='wds', what='returned %r, expected %r' % (got, want), **{'class': 'wds/value'}))
    return dict(obligations=ob, discharged=dis, violations=viol, samples=[{'config': 'wds', 'cases': ob}], twin=dis > 0)


def run_config(cfg):
    return {'infer': run_infer, 'dispatch': run_dispatch, 'wave': run_wave, 'npz': run_npz, 'hdf5': run_hdf5, 'soundfile': run_soundfile, 'wds': run_wds}[cfg['kind']](cfg)


def replay(w):
    import io
    import os
    import shutil
    import tempfile
    import wave
    import numpy as np
    from pydrobert.speech import util
    k = w['kind']
    work = tempfile.mkdtemp(prefix='c11-', dir='/verif/.work' if os.path.isdir('/verif/.work') else None)
    try:
        rng = np.random.RandomState(1)
        if k == 'infer':
            name = w['name']
            exp = None
            import re
            if re.match(r'^(ark|scp)(,\w+)*:', name):
                exp = 'table'
            else:
                for suf, val in (('.wav', 'wav'), ('.hdf5', 'hdf5'), ('.npy', 'npy'), ('.npz', 'npz'), ('.pt', 'pt'), ('.sph', 'sph'), ('|', 'kaldi')):
                    if name.endswith(suf):
                        exp = val
                        break
            if exp is None:
                from pydrobert.speech import config as _cfg
                last = name.rsplit('.', 1)[-1]
                if last in set(_cfg.SOUNDFILE_SUPPORTED_FILE_TYPES):      # the installed soundfile's types (documented lowest priority)
                    exp = last
            try:
                got = util._infer_force_as_from_rfilename(name)
            except IOError:
                got = None
            return {'reproduced': got != exp, 'detail': 'name %r inferred as %r, documented %r' % (name, got, exp)}
        if k == 'wave':
            nf, nc, width = max(0, w['nframes']), w['nchan'], w['width'] if w['width'] in (2, 4) else 2
            for frames in sorted(set([nf, 0, 1, 2, 5])):
                data = rng.randint(-1000, 1000, size=(frames, nc)).astype('<i%d' % width)
                p = os.path.join(work, 'a.wav')
                wv = wave.open(p, 'wb')
                wv.setnchannels(nc)
                wv.setsampwidth(width)
                wv.setframerate(8000)
                wv.writeframes(data.tobytes())
                wv.close()
                want = data if nc > 1 else data[:, 0]
                for src in (p, open(p, 'rb')):
                    try:
                        got = util.read_signal(src, force_as='wav')
                    except Exception as e:
                        return {'reproduced': True, 'detail': 'wav %d frames x %d channels raised %s: %s' % (frames, nc, type(e).__name__, e)}
                    if got.shape != want.shape or not np.array_equal(got, want):
                        return {'reproduced': True, 'detail': 'wav with %d frame(s) x %d channel(s): read shape %s, stored %s' % (frames, nc, got.shape, want.shape)}
            return {'reproduced': False, 'detail': 'wav round trips'}
        if k == 'npz' and w.get('fn') == '_torch_read_signal':
            import torch
            for tdt in (torch.float16, torch.float32, torch.float64, torch.int8, torch.uint8, torch.int16, torch.int32, torch.int64):
                t = (torch.arange(12).reshape(4, 3) - 5).to(tdt) if tdt != torch.uint8 else torch.arange(12).reshape(4, 3).to(tdt)
                p = os.path.join(work, 'a.pt')
                torch.save(t, p)
                want = t.numpy()
                for how, got in (('path', lambda: util.read_signal(p)), ('stream', lambda: util.read_signal(open(p, 'rb'), force_as='pt'))):
                    try:
                        g = got()
                    except Exception as e:
                        return {'reproduced': True, 'detail': 'reading a %s tensor from a .pt %s raised %s: %s' % (tdt, how, type(e).__name__, e)}
                    if g.dtype != want.dtype or g.shape != want.shape or not np.array_equal(g, want):
                        return {'reproduced': True, 'detail': '.pt file holding a %s tensor read (by %s, no dtype) as %s%s, stored %s%s' % (tdt, how, g.dtype, g.shape, want.dtype, want.shape)}
                g = util.read_signal(p, dtype=np.float64)
                if g.dtype != np.float64:
                    return {'reproduced': True, 'detail': 'dtype argument ignored for .pt'}
            return {'reproduced': False, 'detail': '.pt files round trip for every element type'}
        if k == 'npz':
            p = os.path.join(work, 'a.npz')
            sig = rng.randn(50)
            np.savez(p, sig, rate=np.array([16000]), KEY=np.arange(3))
            got = util.read_signal(p)
            if got.shape != sig.shape or not np.array_equal(got, sig):
                return {'reproduced': True, 'detail': 'npz written as np.savez(path, signal, rate=...) read without key returns %s-shaped data, not arr_0' % (got.shape,)}
            if not np.array_equal(util.read_signal(p, key='KEY'), np.arange(3)):
                return {'reproduced': True, 'detail': 'npz key ignored'}
            if util.read_signal(p, dtype=np.float32).dtype != np.float32:
                return {'reproduced': True, 'detail': 'dtype not applied'}
            p2 = os.path.join(work, 'a.npy')
            np.save(p2, sig)
            if not np.array_equal(util.read_signal(p2), sig):
                return {'reproduced': True, 'detail': 'npy mismatch'}
            return {'reproduced': False, 'detail': 'numpy readers fine'}
        if k in ('dispatch', 'hdf5'):
            import wave
            stored = (rng.randn(40) * 1000).astype(np.int16)
            files = {}
            np.save(os.path.join(work, 'a.npy'), stored)
            files['npy'] = os.path.join(work, 'a.npy')
            np.savez(os.path.join(work, 'a.npz'), stored)
            files['npz'] = os.path.join(work, 'a.npz')
            wv = wave.open(os.path.join(work, 'a.wav'), 'wb')
            wv.setnchannels(1); wv.setsampwidth(2); wv.setframerate(8000); wv.writeframes(stored.astype('<i2').tobytes()); wv.close()
            files['wav'] = os.path.join(work, 'a.wav')
            try:
                import torch
                torch.save(torch.tensor(stored), os.path.join(work, 'a.pt'))
                files['pt'] = os.path.join(work, 'a.pt')
            except ImportError:
                pass
            try:
                import h5py
                with h5py.File(os.path.join(work, 'a.hdf5'), 'w') as h:
                    g = h.create_group('grp')
                    g.create_dataset('second', data=stored[::-1].copy())
                    h.create_dataset('first', data=stored)
                files['hdf5'] = os.path.join(work, 'a.hdf5')
            except ImportError:
                pass
            for fmt, pth in files.items():
                for how in ('inferred', 'forced', 'stream'):
                    try:
                        if how == 'inferred':
                            got = util.read_signal(pth)
                        elif how == 'forced':
                            got = util.read_signal(pth, force_as=fmt)
                        else:
                            with open(pth, 'rb') as f:
                                got = util.read_signal(f, force_as=fmt)
                    except Exception as e:
                        return {'reproduced': True, 'detail': 'read_signal of a .%s file (%s) raised %s: %s' % (fmt, how, type(e).__name__, str(e)[:80])}
                    if fmt == 'hdf5' and not (np.array_equal(got, stored) or np.array_equal(got, stored[::-1])):
                        return {'reproduced': True, 'detail': 'hdf5 file read (%s) returns neither data set' % how}
                    if fmt != 'hdf5' and (got.shape != stored.shape or not np.array_equal(got, stored)):
                        return {'reproduced': True, 'detail': '.%s file read (%s) returns %s %s, stored %s %s' % (fmt, how, got.dtype, got.shape, stored.dtype, stored.shape)}
                if fmt == 'hdf5':
                    for key, want in (('first', stored), ('grp/second', stored[::-1])):
                        got = util.read_signal(pth, key=key)
                        if not np.array_equal(got, want):
                            return {'reproduced': True, 'detail': 'hdf5 key %r returns other data' % key}
                with open(pth, 'rb') as f:
                    for fa in (None, 'bogus'):
                        try:
                            util.read_signal(f, force_as=fa)
                            return {'reproduced': True, 'detail': 'read_signal(stream, force_as=%r) accepted' % fa}
                        except ValueError:
                            pass
                        except Exception as e:
                            return {'reproduced': True, 'detail': 'read_signal(stream, force_as=%r) raised %s, not ValueError' % (fa, type(e).__name__)}
            return {'reproduced': False, 'detail': 'every container dispatches to its reader (path inferred, forced, stream), invalid requests raise ValueError'}
        if k == 'wds':
            for key, data in (('a.npy', b'garbage'), ('a.wav', b''), ('a.unknown', b'123'), ('a.sph', b'NIST_1A\n   1024\n' + b'x' * 2000), ('a.npz', b'PK\x03\x04xx')):
                try:
                    r = util.wds_read_signal(key, data)
                except BaseException as e:
                    return {'reproduced': True, 'detail': 'wds_read_signal(%r) raised %s' % (key, type(e).__name__)}
                if r is not None:
                    return {'reproduced': True, 'detail': 'wds_read_signal(%r, garbage) returned data' % key}
            return {'reproduced': False, 'detail': 'wds_read_signal swallows everything'}
        if k == 'soundfile':
            import soundfile as sf
            sub, dt = w['sub'], w.get('dt')
            stored = {'PCM_16': np.int16, 'PCM_32': np.int32, 'PCM_24': np.int32, 'FLOAT': np.float32, 'DOUBLE': np.float64}[sub]
            fmt = 'FLAC' if sub in ('PCM_16', 'PCM_24') else 'WAV'
            dts = [np.int16, np.int32, np.int64, np.float32, np.float64] if dt == 'DT' else [None if dt is None else np.dtype(dt).type]
            for nch in (1, 2):
                if stored in (np.float32, np.float64):
                    data = rng.uniform(-1, 1, size=(7, nch)).astype(stored)
                elif sub == 'PCM_24':
                    data = (rng.randint(-2 ** 23, 2 ** 23, size=(7, nch)) * 256).astype(np.int32)     # soundfile: 24-bit samples in the upper bytes
                else:
                    info = np.iinfo(stored)
                    data = rng.randint(info.min, info.max, size=(7, nch)).astype(stored)
                path = os.path.join(work, 'a%d.%s' % (nch, 'flac' if fmt == 'FLAC' else 'sfwav'))
                sf.write(path, data, 16000, subtype=sub, format=fmt)
                for d in dts:
                    want = data if d is None else data.astype(d)
                    for how in ('path', 'stream'):
                        try:
                            if how == 'path':
                                got = util.read_signal(path, dtype=d, force_as='flac' if fmt == 'FLAC' else 'soundfile')
                            else:
                                with open(path, 'rb') as f:
                                    got = util.read_signal(f, dtype=d, force_as='flac' if fmt == 'FLAC' else 'soundfile')
                        except Exception as e:
                            return {'reproduced': True, 'detail': 'reading a %s %s file (%s, dtype=%s) raised %s: %s' % (sub, fmt, how, d, type(e).__name__, e)}
                        got = np.asarray(got)
                        if got.shape != want.shape and got.reshape(want.shape).shape == want.shape and nch == 1:
                            got = got.reshape(want.shape)
                        if got.dtype != want.dtype or got.shape != want.shape or not np.array_equal(got, want):
                            return {'reproduced': True, 'detail': '%s %s file written from %s data, read (%s) with dtype=%s: %s %s, first sample %r; written data cast gives %r' % (
                                sub, fmt, np.dtype(stored).name, how, None if d is None else np.dtype(d).name, got.dtype, got.shape, got.ravel()[:1].tolist(), want.ravel()[:1].tolist())}
            return {'reproduced': False, 'detail': 'soundfile-backed containers read back bit-identically, dtype applied as a final cast'}
        return {'reproduced': True, 'detail': w['what']}
    finally:
        shutil.rmtree(work, ignore_errors=True)
