"""C12 -- uncompressed NIST SPHERE audio decodes exactly (DESIGN 3/C12)."""
import builtins

import z3

from vlib import loader, symex
from vlib.nd import ND
from vlib.symex import (Ctx, SInt, _z, conc, decide, explore, smax, smin, srange, Inconclusive, check_sat, sint)

PID = 'C12'
LEVEL = 'model_checking'
FUNCTIONS = ['_sphere:copy_samples', '_sphere:read_header', '_sphere:sphere_read_signal']
EXPLANATION = (
    'Symbolic execution of the real copy_samples read loop: the data section is an uninterpreted byte function, '
    'sample_count and the number of bytes actually present are symbolic integers, file.read() returns symbolic-length '
    'buffers, np.frombuffer element j of a read that started at file offset o IS the term SAMP(o+j*size,size); z3 '
    'decides on every path that the result has min(frames present, sample_count) rows and that element (i,ch) is '
    'SAMP((i*C+ch)*size) (through the G.711 table iff a wider dtype is requested), that a warning is issued iff the data '
    'is short and that no exception occurs. G.711 tables: for a symbolic 8-bit code, z3 proves table[c] == ITU-T G.711 '
    'expansion (bit-vector formula) for both tables. Header: real read_header run on a structured header whose numeric '
    'field values (header size, counts) are symbolic.')
BOUNDS = {
    'quick': 'channels 1..8 (both byte orders for 1..3) and 8193 / 16385 channels (one sample frame larger than the 16 KiB read buffer), sample_n_bytes in {1,2}, codings pcm/ulaw/alaw, requested dtype None/uint8/int8/int16/int32, headers of 1024 bytes (any declared size) and of 2048 bytes whose fields cross byte 1024 at every position of the mandatory fields (positions splitting a number excluded), data section <= 3*16384+64 bytes (>= 3 loop iterations), any sample_count / any truncation inside that',
    'thorough': 'same with data section <= 6*16384+64 bytes and channels 1..12',
}
OUTSIDE = ['narrowing casts of 16-bit PCM into a requested 1-byte dtype (C cast semantics)', 'sample_n_bytes == 4',
           'file objects that return short reads before EOF (regular files and BytesIO do not)',
           'shorten-compressed payloads (C13)', 'header fields other than the mandatory ones; malformed field lines']
ASSUMPTIONS = [
    'samples are arbitrary: any read block, the first included, may begin with the four bytes of the shorten magic (symbolic Boolean per block); the decoder entering the shorten path for a file whose header declares it uncompressed is a violation (data offset 0: known finding C12-ajkg-prefix)',
    'file.read(n) returns min(n, remaining) bytes (io.BufferedReader / BytesIO contract)',
    'np.frombuffer(buf, dtype, count) element j = bytes [j*size,(j+1)*size) of buf in the given byte order (uninterpreted SAMP(offset,size,order)), ValueError if buf is too small',
    'ndarray.byteswap() of an item that holds `itemsize` bytes decoded in one order = the same bytes decoded in the other order; of any other item: an unresolved BSWAP term',
    'fancy indexing TABLE[arr] is element-wise table look-up (uninterpreted TAB, tables themselves proved against G.711 separately)',
    'assignment into the result array of a wider or equal integer dtype preserves values',
]
CONFIG_TIME_LIMIT = {'quick': 600, 'thorough': 3000}

I = z3.IntSort()
SAMP3 = z3.Function('samp', I, I, I, I)   # (byte offset in the data section, sample size, byte order 0=little 1=big) -> raw decoded sample
BSWAP = z3.Function('bswap', I, I, I)     # (item size, value) -> value of the byte-swapped item (only where it cannot be resolved)


def SAMP(off, size, order=0):
    sz = z3.simplify(size) if isinstance(size, z3.ExprRef) else z3.IntVal(size)
    if z3.is_int_value(sz) and sz.as_long() == 1:
        order = 0                         # a single byte has no order
    return SAMP3(off, sz, z3.IntVal(order))


def _swap_term(t, itemsize):
    """value of an item after ndarray.byteswap(): a sample decoded from `itemsize` bytes in one order becomes the same
    bytes decoded in the other order; anything else (a value-converted sample, a wider item) is an unresolved BSWAP"""
    if z3.is_app(t) and t.decl().name() == 'if':
        c_, a_, b_ = t.children()
        return z3.If(c_, _swap_term(a_, itemsize), _swap_term(b_, itemsize))
    if z3.is_app(t) and t.decl().eq(SAMP3):
        off, sz, o = t.children()
        if z3.is_int_value(sz) and sz.as_long() == itemsize and z3.is_int_value(o):
            return SAMP(off, sz, 0 if itemsize == 1 else 1 - o.as_long())
    return BSWAP(z3.IntVal(itemsize), t)
TAB = z3.Function('tab', I, I, I)     # (table id, code) -> expanded value


class DT:
    def __init__(s, name, itemsize, order=0):
        s.name = name
        s.itemsize = itemsize
        s.order = order          # 0 little-endian (native here), 1 big-endian

    def newbyteorder(s, o='S'):
        if o in ('<', 'L', '=', 'N', '|', 'I') or s.itemsize == 1:
            new = 0 if o != '|' and o != 'I' else s.order
        elif o in ('>', 'B'):
            new = 1
        elif o == 'S':
            new = 1 - s.order
        else:
            raise ValueError('%s is an unrecognized byteorder' % o)
        return DT(s.name, s.itemsize, new)

    def __eq__(s, o):
        return isinstance(o, DT) and o.name == s.name

    def __hash__(s):
        return hash(s.name)

    def __repr__(s):
        return s.name


class Buf:
    """bytes returned by file.read: offset into the data section and symbolic length"""

    def __init__(s, off, n):
        s.off = off
        s.n = n

    def __getitem__(s, k):
        assert isinstance(k, slice) and k.start is None
        return Buf(s.off, smin(s.n, k.stop))

    def __eq__(s, o):
        # comparison of the first four bytes with b"ajkg": the file is declared uncompressed by its header, its samples are
        # arbitrary, so any block -- the first one included -- may begin with these four bytes (symbolic Boolean per block)
        off = z3.simplify(s.off)
        if not decide(_z(s.n) >= 4):
            return False        # fewer than four bytes cannot equal the four-byte magic
        return decide(z3.Bool('block_at_%s_starts_with_ajkg' % off))

    def _slen(s):
        return s.n


class File:
    def __init__(s, total, start=0):
        s.pos = z3.IntVal(0)
        s.total = total
        s.reads = 0

    def read(s, n):
        k = smin(SInt(s.total - s.pos), n)
        k = smax(k, 0)
        b = Buf(s.pos, conc(k))
        s.pos = z3.simplify(s.pos + _z(k))
        s.reads += 1
        if s.reads > 64:
            raise Inconclusive('read loop bound exceeded (unwinding assertion)')
        return b


class ShortenEntered(Exception):
    pass


def slen(a):
    if hasattr(a, '_slen'):
        return a._slen()
    if isinstance(a, ND):
        return a.shape[0]
    return builtins.len(a)


class Table:
    def __init__(s, tid):
        s.tid = tid

    def __getitem__(s, arr):
        g = arr.snapshot()
        t = s.tid
        return ND.fresh(arr.shape, lambda idx: TAB(z3.IntVal(t), g(idx)), DT('i2', 2))


class NP:
    uint8 = DT('u1', 1)
    int8 = DT('i1', 1)
    int16 = DT('i2', 2)
    int32 = DT('i4', 4)

    @staticmethod
    def dtype(d):
        return d

    @staticmethod
    def empty(n, dtype=None):
        J = z3.Function('uninit', I, I)
        return ND.fresh((conc(n) if isinstance(n, SInt) else n,), lambda idx: J(idx[0]), dtype)

    @staticmethod
    def frombuffer(buf, dtype=None, count=-1):
        off = buf.off
        sz = dtype.itemsize
        ok = SInt(_z(count) * sz) <= SInt(_z(buf.n))
        if not ok:
            raise ValueError('buffer is smaller than requested size')
        return ND.fresh((conc(count) if isinstance(count, SInt) else count,), lambda idx: SAMP(off + idx[0] * sz, z3.IntVal(sz), getattr(dtype, 'order', 0)), DT(dtype.name, dtype.itemsize))


class Warn:
    log = []

    @staticmethod
    def warn(msg, *a, **k):
        Warn.log.append(msg)


def _reshape2(self, shape, order='C'):
    assert self.ndim == 1 and len(shape) == 2 and isinstance(shape[1], int)
    g = self.snapshot()
    c = shape[1]
    ok = SInt(_z(self.shape[0])) == SInt(_z(shape[0]) * c)
    if not ok:
        raise ValueError('cannot reshape array')
    r0 = conc(shape[0]) if isinstance(shape[0], SInt) else shape[0]
    return ND.fresh((r0, c), lambda idx: g((idx[0] * c + idx[1],)), self.dtype)


ND.reshape = _reshape2


def _byteswap(self, inplace=False):
    sz = self.dtype.itemsize
    snap = self.snapshot()
    src = ND.fresh(self.shape, lambda idx: _swap_term(z3.simplify(snap(idx)), sz), self.dtype)
    if inplace:
        self[(slice(None),) * self.ndim] = src
        return self
    return src


ND.byteswap = _byteswap


def load():
    ns = loader.load_unit('_sphere', dict(np=NP, len=slen, max=smax, min=smin, range=srange, warnings=Warn),
                          name='sphere_under_test')
    ns['ALAW2PCM'] = Table(0)
    ns['ULAW2PCM'] = Table(1)

    def shorten(inpbuf, *a, **k):
        raise ShortenEntered(str(z3.simplify(inpbuf.off)) if hasattr(inpbuf, 'off') else '?')
    ns['copy_shortened_samples'] = shorten
    return ns


def configs(tier, seed):
    cfgs = []
    chans = range(1, 9) if tier == 'quick' else range(1, 13)
    maxbytes = (3 if tier == 'quick' else 6) * 16384 + 64
    for ch in chans:
        for (coding, size) in (('pcm', 2), ('ulaw', 1), ('alaw', 1), ('pcm', 1)):
            for dt in (None, 'u1', 'i1', 'i2', 'i4'):
                if dt == 'i1' and coding == 'pcm':
                    continue
                if coding == 'pcm' and dt == 'u1':
                    continue  # narrowing cast: outside the claim
                if coding == 'pcm' and size == 1 and dt is not None:
                    continue
                for order in (('10', '01') if size == 2 and (ch <= 3 or tier != 'quick') else ('10',)):
                    cfgs.append(dict(kind='copy', name='copy ch%d %s%d dtype=%s%s' % (ch, coding, size, dt, '' if order == '10' else ' little-endian'), ch=ch, coding=coding,
                                     size=size, dt=dt, maxbytes=maxbytes, order=order))
    # a sample frame larger than the 16 KiB read buffer (more than 8192 16-bit channels): each read is then one frame
    for ch, coding, size, dt in ((8193, 'pcm', 2, None), (16385, 'ulaw', 1, None), (16385, 'alaw', 1, 'u1')):
        cfgs.append(dict(kind='copy', name='copy ch%d %s%d dtype=%s (frame larger than the read buffer)' % (ch, coding, size, dt), ch=ch, coding=coding,
                         size=size, dt=dt, maxbytes=maxbytes, order='10'))
    cfgs.append(dict(kind='tables', name='g711 tables'))
    cfgs.append(dict(kind='header', name='header'))
    offs = list(range(-160, 12))
    n = 4 if tier == 'quick' else 8
    for i in range(n):
        cfgs.append(dict(kind='header_long', name='long header %d/%d' % (i + 1, n), offsets=offs[i::n], hs=2048 if tier == 'quick' else 3072))
    return cfgs


DTS = {'u1': NP.uint8, 'i1': NP.int8, 'i2': NP.int16, 'i4': NP.int32, None: None}


def run_copy(cfg):
    chan, sampsize, samptype, maxbytes = cfg['ch'], cfg['size'], cfg['coding'], cfg['maxbytes']
    dt = DTS[cfg['dt']]
    order = cfg.get('order', '10')
    ns = load()
    viol, samples = [], []
    ob = dis = 0
    fs = chan * sampsize

    def body():
        c = Ctx.cur
        sc = z3.Int('sample_count')
        present = z3.Int('present_bytes')
        c.inputs = [sc, present]
        c.assume(sc >= 1, sc * fs <= maxbytes, present >= 0, present <= sc * fs)
        Warn.log = []
        f = File(present)
        hdr = (samptype, sampsize, SInt(sc), 8000, chan, order if sampsize > 1 else '1')
        try:
            data = ns['copy_samples'](f, hdr, dt, IOError('x'))
        except ShortenEntered as e:
            return ('magic', 'the shorten decoder is entered for the block at data offset %s of an uncompressed file' % e, str(e))
        except Exception as e:
            symex.guard(e)
            return ('exception', '%s: %s' % (type(e).__name__, e))
        nfr = present / fs
        want_len = z3.If(nfr < sc, nfr, sc)
        shape = data.shape
        if len(shape) != (2 if chan > 1 else 1):
            return ('rank', str(shape))
        if not decide(_z(shape[0]) == want_len):
            return ('length', str(z3.simplify(_z(shape[0]))))
        if chan > 1 and not decide(_z(shape[1]) == chan):
            return ('shape',)
        short = decide(want_len < sc)
        if short != bool(Warn.log):
            return ('warning', 'short=%s warnings=%d' % (short, len(Warn.log)))
        i = z3.Int('i')
        ch = z3.Int('ch')
        c.assume(i >= 0, i < want_len, ch >= 0, ch < chan)
        if not decide(want_len > 0):
            return ('ok-empty',)
        val = data.get(i, ch) if chan > 1 else data.get(i)
        raw = SAMP((i * chan + ch) * sampsize, z3.IntVal(sampsize), 1 if order == '10' else 0)
        through_table = samptype in ('alaw', 'ulaw') and (dt is None or dt.itemsize > 1)
        want = TAB(z3.IntVal(0 if samptype == 'alaw' else 1), raw) if through_table else raw
        if decide(val != want):
            return ('value', None)
        return ('ok',)

    for ctx, res in explore(body):
        if res is None:
            continue
        ob += 1
        if res[0].startswith('ok'):
            dis += 1
            if len(samples) < 1 and res[0] == 'ok':
                m = ctx.model()
                samples.append({'config': cfg['name'], 'sample_count': m.eval(z3.Int('sample_count'), True).as_long(),
                                'present_bytes': m.eval(z3.Int('present_bytes'), True).as_long()})
            continue
        m = ctx.model()
        w = dict(kind='copy', ch=chan, size=sampsize, coding=samptype, dt=cfg['dt'], order=order, what=res[0], detail=res[1] if len(res) > 1 else None,
                 sample_count=m.eval(z3.Int('sample_count'), True).as_long(), present_bytes=m.eval(z3.Int('present_bytes'), True).as_long())
        if res[0] == 'magic':
            try:
                w['magic_offset'] = int(res[2])
            except Exception:
                w['magic_offset'] = 16384
        if res[0] == 'value':
            w['i'] = m.eval(z3.Int('i'), True).as_long()
            w['chan_idx'] = m.eval(z3.Int('ch'), True).as_long()
        w['truncated'] = w['present_bytes'] < w['sample_count'] * fs
        w['frame_divides_read'] = (16384 % fs == 0)
        w['class'] = 'copy/%s/ch%s/%s/%s' % (res[0], 'mono' if chan == 1 else ('div' if 16384 % fs == 0 else 'nodiv'),
                                             'trunc' if w['truncated'] else 'full', samptype)
        viol.append(w)
    return dict(obligations=ob, discharged=dis, violations=viol, samples=samples, twin=dis > 0)


def run_tables(cfg):
    """forall 8-bit codes: real table entry == ITU-T G.711 expansion (z3 bit-vectors; tables loaded from the current source)"""
    ns = loader.load_unit('_sphere', name='sphere_tables')
    viol = []
    ob = dis = 0
    c = z3.BitVec('code', 8)

    def arr(tab):
        a = z3.K(z3.BitVecSort(8), z3.BitVecVal(0, 32))
        for k in range(256):
            a = z3.Store(a, z3.BitVecVal(k, 8), z3.BitVecVal(int(tab[k]), 32))
        return a
    c32 = z3.ZeroExt(24, c)
    # mu-law
    u = (~c32) & 0xFF
    sign = u & 0x80
    e = z3.LShR(u, 4) & 7
    mant = u & 0x0F
    v = (((mant << 3) + 0x84) << e) - 0x84
    ulaw = z3.If(sign != 0, -v, v)
    # A-law
    a8 = c32 ^ 0x55
    sg = a8 & 0x80
    ea = z3.LShR(a8, 4) & 7
    ma = a8 & 0x0F
    va = z3.If(ea == 0, (ma << 4) + 8, ((ma << 4) + 0x108) << (ea - 1))
    alaw = z3.If(sg != 0, va, -va)
    for name, tab, spec in (('ULAW2PCM', ns['ULAW2PCM'], ulaw), ('ALAW2PCM', ns['ALAW2PCM'], alaw)):
        ob += 1
        if len(tab) != 256 or str(tab.dtype) != 'int16':
            viol.append(dict(kind='tables', what='%s has shape %s dtype %s' % (name, tab.shape, tab.dtype), table=name, code=-1, **{'class': 'tables/' + name}))
            continue
        s = z3.Solver()
        s.add(z3.Select(arr(tab), c) != spec)
        r = check_sat(s)
        if r == 'sat':
            code = s.model().eval(c, True).as_long()
            viol.append(dict(kind='tables', what='%s[%d] = %d differs from G.711' % (name, code, int(tab[code])), table=name, code=code,
                             **{'class': 'tables/' + name}))
        else:
            dis += 1
    return dict(obligations=ob, discharged=dis, violations=viol,
                samples=[{'config': 'g711', 'obligation': 'forall code:BV8. Select(TABLE, code) == G711(code)'}], twin=True)


class HFile:
    """file whose first 1024 bytes are a concrete header skeleton with placeholder numbers"""

    def __init__(s, first, hdrsize):
        s.first = first
        s.hdrsize = hdrsize
        s.pos = 0
        s.calls = []

    def read(s, n):
        s.calls.append(n)
        if len(s.calls) == 1:
            s.pos = len(s.first)
            return s.first
        # second read: remaining header bytes (padding); position becomes hdrsize if n == hdrsize - 1024
        s.pos = s.pos + n
        return b''


def run_header(cfg):
    """real read_header on a skeleton header whose numbers are symbolic (placeholders resolved by a stand-in int())."""
    viol = []
    ob = dis = 0
    place = {}

    def hint(v, *a):
        if isinstance(v, (bytes, str)):
            key = v.decode() if isinstance(v, bytes) else v
            key = key.strip()
            if key in place:
                return place[key]
        return sint(v, *a)
    ns = loader.load_unit('_sphere', dict(int=hint), name='sphere_header')
    err = IOError('bad header')

    def mkhdr(magic=b'NIST_1A', fields=None, end=True):
        lines = [magic, b'   @HS@']
        for f in fields:
            lines.append(f)
        if end:
            lines.append(b'end_head')
        raw = b'\n'.join(lines) + b'\n'
        return raw + b' ' * (1024 - len(raw))

    base_fields = [b'channel_count -i @CC@', b'sample_count -i @SC@', b'sample_rate -i @SR@', b'sample_n_bytes -i 2',
                   b'sample_byte_format -s2 10', b'sample_coding -s3 pcm']

    def body_ok():
        c = Ctx.cur
        hs, cc, scn, sr = z3.Int('hdrsize'), z3.Int('cc'), z3.Int('sc'), z3.Int('sr')
        place.clear()
        place.update({'@HS@': SInt(hs), '@CC@': SInt(cc), '@SC@': SInt(scn), '@SR@': SInt(sr)})
        c.assume(hs >= 0, hs <= 1 << 20, cc >= 0, cc <= 64, scn >= 0, scn <= 1 << 30, sr >= 0, sr <= 200000)
        f = HFile(mkhdr(fields=base_fields), hs)
        try:
            res = ns['read_header'](f, err)
        except IOError as e:
            if e is not err:
                raise
            return ('ioerror', hs, cc, scn, sr, f)
        except Exception as e:
            symex.guard(e)
            return ('exception', '%s: %s' % (type(e).__name__, e))
        return ('ok', hs, cc, scn, sr, f, res)

    for ctx, res in explore(body_ok):
        if res is None:
            continue
        ob += 1
        s = ctx.solver
        if res[0] == 'exception':
            viol.append(dict(kind='header', what='exception ' + res[1], **{'class': 'header/exception'}))
            continue
        if res[0] == 'ioerror':
            _, hs, cc, scn, sr, f = res
            # IOError is required for hdrsize < 1024; permitted (documented mandatory fields) when a count is zero
            bad = z3.And(hs >= 1024, cc >= 1, scn >= 1, sr >= 1)
        else:
            _, hs, cc, scn, sr, f, out = res
            samptype, sampsize, sampcount, samprate, chancount, inporder = out
            bad = z3.Or(hs < 1024, _z(sampcount) != scn, _z(chancount) != cc, _z(samprate) != sr,
                        z3.BoolVal(samptype != 'pcm'), z3.BoolVal(sampsize != 2), z3.BoolVal(inporder != '10'),
                        _z(f.pos) != hs)
        s.push()
        s.add(bad)
        r = check_sat(s)
        if r == 'sat':
            mm = s.model()
            viol.append(dict(kind='header', what='header parse (%s path)' % res[0], hs=mm.eval(hs, True).as_long(), cc=mm.eval(cc, True).as_long(),
                             sc=mm.eval(scn, True).as_long(), sr=mm.eval(sr, True).as_long(), **{'class': 'header/' + res[0]}))
        else:
            dis += 1
        s.pop()
    # malformed: wrong magic, short file, missing end_head -> the supplied IOError
    for name, f in (('bad magic', HFile(mkhdr(magic=b'NIST_1B', fields=base_fields), 1024)),
                    ('short file', HFile(mkhdr(fields=base_fields)[:1000], 1024)),
                    ('RIFF', HFile(b'RIFF' + b'\0' * 1020, 1024))):
        ob += 1
        place.clear()
        place.update({'@HS@': 1024, '@CC@': 1, '@SC@': 10, '@SR@': 8000})
        try:
            ns['read_header'](f, err)
            viol.append(dict(kind='header', what='%s accepted' % name, **{'class': 'header/malformed'}))
        except IOError as e:
            if e is err:
                dis += 1
            else:
                viol.append(dict(kind='header', what='%s: other IOError' % name, **{'class': 'header/malformed'}))
        except Exception as e:
            viol.append(dict(kind='header', what='%s: %s instead of IOError' % (name, type(e).__name__), **{'class': 'header/malformed'}))
    return dict(obligations=ob, discharged=dis, violations=viol, samples=[{'config': 'header', 'fields': [f.decode() for f in base_fields]}], twin=dis > 0)


LONG_FIELDS = [b'channel_count -i @CC@', b'sample_count -i @SC@', b'sample_rate -i @SR@', b'sample_n_bytes -i 2',
               b'sample_byte_format -s2 10', b'sample_coding -s3 pcm']


def long_header(off, hs, nums=None):
    """header of hs (> 1024) bytes whose fields run past the first 1024-byte block: comment fields first, then the
    mandatory fields and end_head, laid out so that byte 1024 of the file is `off` bytes after the end of the
    end_head line (negative: inside the mandatory fields).  nums: concrete numbers instead of placeholders."""
    fields = LONG_FIELDS
    if nums is not None:
        fields = [f.replace(b'@CC@', b'%d' % nums['cc']).replace(b'@SC@', b'%d' % nums['sc']).replace(b'@SR@', b'%d' % nums['sr']) for f in fields]
    tail = b'\n'.join(fields) + b'\nend_head\n'
    head = b'NIST_1A\n   %d\n' % hs if nums is not None else b'NIST_1A\n   @HS@\n'
    room = 1024 - off - len(tail) - len(head)      # bytes of comment fields in front
    assert room >= 40
    com = b''
    k = 0
    while len(com) < room:
        left = room - len(com)
        if left >= 120:
            line = (b'comment%02d -s40 ' % k) + b'x' * 40 + b'\n'
        else:
            line = None
            for K in range(left, 0, -1):
                for sp in (b'', b' '):
                    cand = (b'comment%02d -s%d ' % (k, K)) + b'x' * K + sp + b'\n'
                    if len(cand) == left and line is None:
                        line = cand
            assert line is not None
        com += line
        k += 1
    assert len(com) == room, (len(com), room)
    raw = head + com + tail
    assert len(raw) <= hs
    return raw + b' ' * (hs - len(raw))


class HFile2:
    """file with concrete header bytes; read(n) returns the next n bytes"""

    def __init__(s, blob):
        s.blob = blob
        s.pos = 0

    def read(s, n):
        if not isinstance(n, int):
            raise Inconclusive('symbolic read size on a concrete header')
        r = s.blob[s.pos:s.pos + max(n, 0)]
        s.pos += len(r)
        return r


def run_header_long(cfg):
    """real read_header on headers longer than 1024 bytes whose fields cross the first block at every byte position of
    the mandatory fields; channel / sample counts and rate symbolic."""
    viol, samples = [], []
    ob = dis = 0
    place = {}
    hs = cfg['hs']

    def hint(v, *a):
        if isinstance(v, (bytes, str)):
            key = (v.decode() if isinstance(v, bytes) else v).strip()
            if key in place:
                return place[key]
        return sint(v, *a)
    ns = loader.load_unit('_sphere', dict(int=hint), name='sphere_header_long')
    err = IOError('bad header')
    for off in cfg['offsets']:
        blob = long_header(off, hs)
        if any(ph in (blob[1024 - 3:1024 + 3]) and ph not in blob[:1024] and ph not in blob[1024:] for ph in (b'@CC@', b'@SC@', b'@SR@')):
            continue       # the block boundary would split a placeholder number: layout skipped (stated in BOUNDS)

        def body():
            c = Ctx.cur
            cc, scn, sr = z3.Int('cc'), z3.Int('sc'), z3.Int('sr')
            place.clear()
            place.update({'@HS@': hs, '@CC@': SInt(cc), '@SC@': SInt(scn), '@SR@': SInt(sr)})
            c.assume(cc >= 1, cc <= 64, scn >= 1, scn <= 1 << 30, sr >= 1, sr <= 200000)
            f = HFile2(blob)
            try:
                res = ns['read_header'](f, err)
            except Exception as e:
                symex.guard(e)
                return ('exception', '%s: %s' % (type(e).__name__, e))
            return ('ok', f.pos, res)

        for ctx, res in explore(body):
            if res is None:
                continue
            ob += 1
            cc, scn, sr = z3.Int('cc'), z3.Int('sc'), z3.Int('sr')
            if res[0] == 'exception':
                m = ctx.model()
                viol.append(dict(kind='header_long', what='well-formed %d-byte header rejected: %s' % (hs, res[1][:80]), off=off, hs=hs, cc=m.eval(cc, True).as_long(),
                                 sc=m.eval(scn, True).as_long(), sr=m.eval(sr, True).as_long(), **{'class': 'header_long/exception'}))
                continue
            samptype, sampsize, sampcount, samprate, chancount, inporder = res[2]
            bad = z3.Or(_z(sampcount) != scn, _z(chancount) != cc, _z(samprate) != sr, z3.BoolVal(samptype != 'pcm'), z3.BoolVal(sampsize != 2),
                        z3.BoolVal(inporder != '10'), z3.BoolVal(res[1] != hs))
            s = ctx.solver
            s.push()
            s.add(bad)
            r = check_sat(s)
            if r == 'sat':
                m = s.model()
                viol.append(dict(kind='header_long', what='fields of a %d-byte header mis-parsed' % hs, off=off, hs=hs, cc=m.eval(cc, True).as_long(),
                                 sc=m.eval(scn, True).as_long(), sr=m.eval(sr, True).as_long(), **{'class': 'header_long/value'}))
            else:
                dis += 1
            s.pop()
    samples.append({'config': cfg['name'], 'offsets of byte 1024 relative to the end of end_head': [cfg['offsets'][0], cfg['offsets'][-1]], 'header_bytes': hs})
    return dict(obligations=ob, discharged=dis, violations=viol, samples=samples, twin=dis > 0)


def run_config(cfg):
    return {'copy': run_copy, 'tables': run_tables, 'header': run_header, 'header_long': run_header_long}[cfg['kind']](cfg)


# ------------------------------------------------------------------ replay

def make_sphere(data_bytes, sample_count, channels, size, coding, hdrsize=1024, order='10'):
    coding_s = {'pcm': 'pcm', 'ulaw': 'ulaw', 'alaw': 'alaw'}[coding]
    lines = ['NIST_1A', '   %d' % hdrsize, 'channel_count -i %d' % channels, 'sample_count -i %d' % sample_count,
             'sample_rate -i 8000', 'sample_n_bytes -i %d' % size, 'sample_byte_format -s%d %s' % (len(order if size == 2 else '1'), order if size == 2 else '1'),
             'sample_coding -s%d %s' % (len(coding_s), coding_s), 'end_head']
    h = ('\n'.join(lines) + '\n').encode()
    return h + b' ' * (hdrsize - len(h)) + data_bytes


def replay(w):
    import io
    import warnings
    import numpy as np
    from pydrobert.speech.util import read_signal
    import pydrobert.speech._sphere as sph
    if w['kind'] == 'tables':
        return {'reproduced': True, 'detail': w['what']}
    if w['kind'] == 'header_long':
        nums = dict(cc=w['cc'], sc=w['sc'], sr=w['sr'])
        blob = long_header(w['off'], w['hs'], nums) + b'\0' * 64
        f = io.BytesIO(blob)
        try:
            out = sph.read_header(f, IOError('x'))
        except Exception as e:
            return {'reproduced': True, 'detail': 'well-formed %d-byte header (end_head ends %d bytes %s byte 1024) rejected with %s: %s' % (
                w['hs'], abs(w['off']), 'before' if w['off'] >= 0 else 'after', type(e).__name__, e)}
        ok = out == ('pcm', 2, w['sc'], w['sr'], w['cc'], '10') and f.tell() == w['hs']
        return {'reproduced': not ok, 'detail': 'read_header -> %s at position %d for a %d-byte header with counts %s' % (out, f.tell(), w['hs'], nums)}
    if w['kind'] == 'header':
        if 'hs' not in w:
            return {'reproduced': True, 'detail': w['what']}
        lines = ['NIST_1A', '   %d' % w['hs'], 'channel_count -i %d' % w['cc'], 'sample_count -i %d' % w['sc'], 'sample_rate -i %d' % w['sr'],
                 'sample_n_bytes -i 2', 'sample_byte_format -s2 10', 'sample_coding -s3 pcm', 'end_head']
        h = ('\n'.join(lines) + '\n').encode()
        blob = h + b' ' * (max(w['hs'], 1024) - len(h)) + b'\0' * 64
        f = io.BytesIO(blob)
        err = IOError('x')
        valid = w['hs'] >= 1024 and w['cc'] >= 1 and w['sc'] >= 1 and w['sr'] >= 1
        try:
            out = sph.read_header(f, err)
        except IOError:
            return {'reproduced': valid, 'detail': 'IOError for header %s' % lines[1:5]}
        except Exception as e:
            return {'reproduced': True, 'detail': '%s for header %s' % (type(e).__name__, lines[1:5])}
        ok = valid and out == ('pcm', 2, w['sc'], w['sr'], w['cc'], '10') and f.tell() == w['hs']
        return {'reproduced': not ok, 'detail': 'read_header -> %s, position %d, header %s' % (out, f.tell(), lines[1:5])}
    ch, size, coding, dt = w['ch'], w['size'], w['coding'], w['dt']
    sc, present = w['sample_count'], w['present_bytes']
    rng = np.random.RandomState(3)
    raw = rng.randint(0, 256, size=present).astype(np.uint8).tobytes()
    if w.get('magic_offset') is not None and w['magic_offset'] + 4 <= len(raw):
        raw = raw[:w['magic_offset']] + b'ajkg' + raw[w['magic_offset'] + 4:]       # samples that happen to spell the shorten magic
    order = w.get('order', '10')
    blob = make_sphere(raw, sc, ch, size, coding, order=order)
    dtype = {None: None, 'u1': np.uint8, 'i1': np.int8, 'i2': np.int16, 'i4': np.int32}[dt]
    with warnings.catch_warnings(record=True) as wl:
        warnings.simplefilter('always')
        try:
            got = read_signal(io.BytesIO(blob), dtype=dtype, force_as='sph')
        except Exception as e:
            return {'reproduced': True, 'detail': 'read_signal raised %s: %s' % (type(e).__name__, e)}
    nfr = min(present // (ch * size), sc)
    src = np.frombuffer(raw[:nfr * ch * size], dtype=(('>i2' if order == '10' else '<i2') if size == 2 else np.uint8))
    if coding in ('ulaw', 'alaw') and (dtype is None or np.dtype(dtype).itemsize > 1):
        src = (sph.ULAW2PCM if coding == 'ulaw' else sph.ALAW2PCM)[src]
    elif dtype is not None and np.dtype(dtype).itemsize == 1:
        src = src.astype(dtype)      # the raw codes, bit for bit, in the requested 1-byte dtype
    want = src.reshape((nfr, ch)) if ch > 1 else src
    if got.shape != want.shape:
        return {'reproduced': True, 'detail': 'channels=%d %s sample_count=%d present=%d bytes: shape %s, expected %s' % (ch, coding, sc, present, got.shape, want.shape)}
    if not np.array_equal(got.astype(np.int64), want.astype(np.int64)):
        bad = np.argwhere(got.astype(np.int64) != want.astype(np.int64))[0]
        return {'reproduced': True, 'detail': 'channels=%d %s (byte format %s) dtype=%s sample_count=%d: first wrong sample at %s' % (ch, coding, order if size == 2 else '1', dt, sc, tuple(int(b) for b in bad))}
    if (nfr < sc) != bool(wl):
        return {'reproduced': True, 'detail': 'short=%s but %d warnings' % (nfr < sc, len(wl))}
    return {'reproduced': False, 'detail': 'real reader matches'}


def conformance(tier, seed, results):
    """encoding validation: the one shipped uncompressed vector and synthetic files through the real reader; and the
    symbolic model's prediction for 2-channel/1-channel full files equals the real output (SAMP = big-endian int16)."""
    import io
    import numpy as np
    from pydrobert.speech.util import read_signal
    n = 0
    rng = np.random.RandomState(seed)
    for ch, size, coding in ((1, 2, 'pcm'), (2, 2, 'pcm'), (2, 1, 'alaw'), (4, 1, 'ulaw')):
        for sc in (1, 100, 8192, 16384 // (ch * size) + 5):
            raw = rng.randint(0, 256, size=sc * ch * size).astype(np.uint8).tobytes()
            got = read_signal(io.BytesIO(make_sphere(raw, sc, ch, size, coding)), force_as='sph', dtype=(np.uint8 if size == 1 else None))
            src = np.frombuffer(raw, dtype=('>i2' if size == 2 else np.uint8))
            want = src.reshape((sc, ch)) if ch > 1 else src
            assert got.shape == want.shape and np.array_equal(got, want), ('frombuffer/SAMP model', ch, size, coding, sc)
            n += 1
    return n
