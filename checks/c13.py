"""C13 -- shorten-compressed SPHERE audio decodes losslessly (DESIGN 3/C13)."""
import builtins
import itertools

import z3

from vlib import loader, symex
from vlib import nd
from vlib.nd import ND
from vlib.symex import Ctx, decide, explore, Inconclusive, check_sat, SInt, _z
from checks import shn_ref as R

PID = 'C13'
LEVEL = 'model_checking'
FUNCTIONS = ['_sphere:copy_shortened_samples', '_sphere:fix_bitshift', '_sphere:c99_div', '_sphere:copy_samples']
EXPLANATION = (
    'The whole real decoder (copy_shortened_samples with its nested bit reader, fix_bitshift, c99_div) is executed '
    'symbolically on encoder-shaped streams: an independent encoder written from the format description emits the '
    'header and a command program with concrete structure, and the residual codes are symbolic bit-vector fields packed '
    'into the byte stream; python ints are 64-bit bit-vectors, struct.unpack(">l") is sign extension of four symbolic '
    'bytes, NumPy scalars follow NEP 50. On every path z3 decides that the decoded samples equal those of an independent '
    'reference decoder of the program, for all residual values. Truncated streams, unknown commands / versions / types '
    'must raise the supplied IOError on every path. The reference encoder/decoder pair is itself validated by decoding '
    'the six shipped sph2pipe vectors to their reference WAVs. Independently of any stream, ONE STEP of the nested bit '
    'reader is decided from an arbitrary reader state (AST-exposed closures of the loaded copy): for every number of '
    'unread bits 0..32 of a symbolic current word followed by symbolic words, uvar_get / var_get(nbin) return exactly the '
    'unary+mantissa code word at the current bit position and leave the reader exactly behind it.')
BOUNDS = {
    'quick': '15 programs: versions 1-2; types S16HL/S16LH/AU1/AU2; 1-2 channels; block sizes 2-4 incl. BLOCKSIZE to a shorter final block; '
             'nmean 0/1/2/4; DIFF0-3, QLPC order 1-2 (concrete quantised coefficients), ZERO, BITSHIFT 1-2, QUIT; residual width 0-5 bits '
             'with 0-1 extra unary bit; <= 3 blocks x <= 4 samples per channel (<= 2^8 sign paths per program); every truncation point of 4 programs; '
             'bit-reader step: unread bits 0..32, mantissa widths 0,1,2,5,8,16,31,32, unary runs <= 3 (thorough: 13 widths, runs <= 8), any word contents',
    'thorough': 'same grammar, 54 programs (incl. a grid of predictor order x residual width 1 or 3 bits x nmean x version), QLPC order up to 3',
}
OUTSIDE = ['streams longer than the bound; nskip > 0; unsigned / 8-bit linear sample types (do not occur in SPHERE files)',
           'int32 overflow inside the decoder for out-of-range streams (values here stay below 2^20)',
           'symbolic QLPC coefficients (concrete per program)']
ASSUMPTIONS = [
    'int(float(a)/b) == C truncating division for |a| < 2^40, 1 <= b < 2^12 (QF_FP lemma, discharged with cvc5/z3 in the thorough tier)',
    'NEP 50: a python int operand of a NumPy uint32 scalar must lie in [0, 2^32) else OverflowError',
    'table look-ups ULAW_OUTWARD / ULAW2PCM are uninterpreted functions of their index (same on both sides)',
    'file.read at end of stream returns b""',
]
CONFIG_TIME_LIMIT = {'quick': 900, 'thorough': 3400}
WID = R.WID
OUTW = z3.Function('ULAW_OUTWARD', z3.BitVecSort(WID), z3.BitVecSort(WID), z3.BitVecSort(WID))
U2P = z3.Function('ULAW2PCM', z3.BitVecSort(WID), z3.BitVecSort(WID))


def bv(v):
    if isinstance(v, SBV):
        return v.z
    if isinstance(v, bool):
        v = int(v)
    if isinstance(v, int):
        return z3.BitVecVal(v, WID)
    if z3.is_bv(v):
        return v
    raise TypeError(type(v))


def mk(z):
    z = z3.simplify(z)
    if z3.is_bv_value(z):
        return z.as_signed_long()
    return SBV(z)


class NpU32:
    """NumPy uint32 scalar (NEP 50 semantics for python-int operands)"""

    def __init__(s, v):
        s.v = v

    def __rand__(s, o):
        if isinstance(o, int):
            if not (0 <= o < (1 << 32)):
                raise OverflowError('Python integer %d out of bounds for uint32' % o)
            return o & s.v
        return NotImplemented

    def __and__(s, o):
        return s.__rand__(o)


class SBV:
    def __init__(s, z):
        s.z = z3.simplify(z)

    def __and__(s, o):
        if isinstance(o, NpU32):
            ok = z3.And(s.z >= 0, s.z < (1 << 32))
            if not decide(ok):
                raise OverflowError('Python integer out of bounds for uint32')
            return mk(s.z & bv(o.v))
        return mk(s.z & bv(o))

    __rand__ = __and__

    def __or__(s, o):
        return mk(s.z | bv(o))

    __ror__ = __or__

    def __lshift__(s, k):
        return mk(s.z << bv(k))

    def __rshift__(s, k):
        return mk(s.z >> bv(k))   # arithmetic shift = python semantics for ints

    def __invert__(s):
        return mk(~s.z)

    def bit_length(s):
        """int.bit_length(): a path decision per possible position of the highest set bit"""
        z = z3.If(s.z < 0, -s.z, s.z)
        for k in range(0, WID):
            if decide(z3.ULT(z, z3.BitVecVal(1 << k, WID))):
                return k
        return WID

    def bit_count(s):
        raise symex.Unsupported('int.bit_count of a symbolic word')

    def __add__(s, o):
        return mk(s.z + bv(o))

    __radd__ = __add__

    def __sub__(s, o):
        return mk(s.z - bv(o))

    def __rsub__(s, o):
        return mk(bv(o) - s.z)

    def __mul__(s, o):
        return mk(s.z * bv(o))

    __rmul__ = __mul__

    def __neg__(s):
        return mk(-s.z)

    def __bool__(s):
        return decide(s.z != 0)

    def __eq__(s, o):
        return decide(s.z == bv(o))

    def __ne__(s, o):
        return decide(s.z != bv(o))

    def __ge__(s, o):
        return decide(s.z >= bv(o))

    def __gt__(s, o):
        return decide(s.z > bv(o))

    def __le__(s, o):
        return decide(s.z <= bv(o))

    def __lt__(s, o):
        return decide(s.z < bv(o))

    def __hash__(s):
        return hash(s.z)

    def __index__(s):
        z = z3.simplify(s.z)
        if not z3.is_bv_value(z):
            raise symex.Unsupported('symbolic bit-vector used as an index')
        return z.as_signed_long()


class FloatTok:
    def __init__(s, a):
        s.a = a

    def __truediv__(s, b):
        return DivTok(s.a, b)


class DivTok:
    def __init__(s, a, b):
        s.a = a
        s.b = b


def sfloat(a):
    if isinstance(a, SBV) or z3.is_bv(a):
        return FloatTok(a)
    return builtins.float(a)


def sint(a, *r):
    if isinstance(a, DivTok):
        # trunc toward zero == bvsdiv; exactness of the double division is a stated lemma
        return mk(bv(a.a) / bv(a.b))
    if isinstance(a, SBV):
        return a
    return builtins.int(a, *r)


class SymBytes:
    def __init__(s, bs):
        s.bs = list(bs)   # python ints or BV8 exprs

    def __len__(s):
        return len(s.bs)

    def __getitem__(s, k):
        assert isinstance(k, slice)
        return SymBytes(s.bs[k])

    def tobytes(s):
        return s

    def __add__(s, o):
        return SymBytes(s.bs + (o.bs if isinstance(o, SymBytes) else list(o)))

    def __eq__(s, o):
        return all(isinstance(b, int) for b in s.bs) and bytes(s.bs) == o

    def __ne__(s, o):
        return not s.__eq__(o)


class Struct:
    @staticmethod
    def unpack(fmt, b):
        if fmt == 'b':
            v = b.bs[0]
            return (v - 256 if v > 127 else v,)
        assert fmt == '>l' and len(b.bs) == 4
        w = z3.Concat(*[x if z3.is_bv(x) else z3.BitVecVal(x, 8) for x in b.bs])
        return (mk(z3.SignExt(WID - 32, w)),)


class File:
    def __init__(s, more=None):
        s.more = more or []

    def read(s, n):
        out, s.more = s.more[:n], s.more[n:]
        return SymBytes(out)


class MaskTab(list):
    """np.empty(n, dtype=np.uint32): element reads give NumPy uint32 scalars"""

    def __init__(s, n):
        super().__init__([0] * n)

    def __getitem__(s, k):
        return NpU32(list.__getitem__(s, k))


class DTok:
    def __init__(s, itemsize):
        s.itemsize = itemsize


class NDB(ND):
    """integer array whose elements are BV64 terms; scalar reads come back as python ints / SBV"""
    itemsize = 4

    def __init__(s, shape, v=0, store=None, axes=None):
        if store is None:
            vz = bv(v)
            if not isinstance(shape, tuple):
                shape = (shape,)
            ND.__init__(s, nd.Store(shape, lambda idx: vz), dtype='i4')
        else:
            ND.__init__(s, store, axes, 'i4')

    def _wrap(s, v):
        r = NDB(None, store=v.store, axes=v.axes)
        r.itemsize = s.itemsize
        return r

    def __getitem__(s, key):
        if isinstance(key, tuple):
            key = tuple(k.__index__() if isinstance(k, SBV) else k for k in key)
        elif isinstance(key, SBV):
            key = key.__index__()
        v = s._view(key)
        if v.ndim == 0:
            return mk(v.get())
        return s._wrap(v)

    def __setitem__(s, key, val):
        if isinstance(val, SBV):
            val = val.z
        elif isinstance(val, int):
            val = bv(val)
        ND.__setitem__(s, key, val)

    def __len__(s):
        n = s.shape[0]
        return n if isinstance(n, int) else n.__index__()

    def sum(s):
        n = s.shape[0]
        assert isinstance(n, int)
        g = s.snapshot()
        r = z3.BitVecVal(0, WID)
        for i in range(n):
            r = r + g((z3.IntVal(i),))
        return mk(r)

    def _map(s, f):
        g = s.snapshot()
        return NDB._mk(s.shape, lambda idx: f(g(idx)))

    def __isub__(s, o):
        oz = bv(o)
        s[(slice(None),) * s.ndim] = s._map(lambda a: a - oz)
        return s

    def __iadd__(s, o):
        oz = bv(o)
        s[(slice(None),) * s.ndim] = s._map(lambda a: a + oz)
        return s

    def __ilshift__(s, k):
        kz = bv(k)
        s[(slice(None),) * s.ndim] = s._map(lambda a: a << kz)
        return s

    def __add__(s, o):
        oz = bv(o)
        return s._map(lambda a: a + oz)

    @staticmethod
    def _mk(shape, get):
        r = NDB(shape)
        r.store.get = get
        return r

    @property
    def T(s):
        g = s.snapshot()
        a, b = s.shape
        return NDB._mk((b, a), lambda idx: g((idx[1], idx[0])))

    @property
    def flat(s):
        g = s.snapshot()
        a, b = s.shape
        return NDB._mk((a * b,), lambda idx: g((idx[0] / b, idx[0] % b)))

    @property
    def dtype(s):
        return DTok(s.itemsize)

    @dtype.setter
    def dtype(s, v):
        pass


class OutwardTable:
    """ULAW_OUTWARD[bitshift, idx]"""

    def __getitem__(s, key):
        bs, idx = key
        bz = bv(bs)
        if isinstance(idx, NDB):
            return idx._map(lambda a: OUTW(bz, a))
        return mk(OUTW(bz, bv(idx)))


class U2PTable:
    def __getitem__(s, arr):
        return arr._map(lambda a: U2P(a))


class NPs:
    uint32 = 'u4'
    int32 = 'i4'

    @staticmethod
    def empty(n, dtype=None):
        if dtype == 'u4':
            return MaskTab(n)
        return NDB(n)

    @staticmethod
    def zeros(shape, dtype=None):
        return NDB(shape)

    @staticmethod
    def full(shape, v, dtype=None):
        return NDB(shape, v)

    @staticmethod
    def dot(a, b):
        """inner product of two 1-D integer arrays of equal concrete length (same word arithmetic as the scalar loop)"""
        if not (isinstance(a, NDB) and isinstance(b, NDB) and a.ndim == 1 and b.ndim == 1):
            raise symex.Unsupported('np.dot of %s, %s' % (type(a).__name__, type(b).__name__))
        n, m = a.shape[0], b.shape[0]
        if not (isinstance(n, int) and isinstance(m, int)):
            raise symex.Unsupported('np.dot of arrays of symbolic length')
        if n != m:
            raise ValueError('shapes (%d,) and (%d,) not aligned' % (n, m))
        ga, gb = a.snapshot(), b.snapshot()
        r = z3.BitVecVal(0, WID)
        for i in range(n):
            r = r + ga((z3.IntVal(i),)) * gb((z3.IntVal(i),))
        return mk(r)


class Warn:
    @staticmethod
    def warn(*a, **k):
        pass


def load():
    ns = loader.load_unit('_sphere', dict(np=NPs, struct=Struct, memoryview=lambda x: x, float=sfloat, int=sint,
                                          warnings=Warn), name='sphere_under_test')
    ns['ULAW_OUTWARD'] = OutwardTable()
    ns['ULAW2PCM'] = U2PTable()
    return ns


# ------------------------------------------------------------------ programs

def _res(tag, n, resn, zs=None):
    """n symbolic residual fields of width resn+1 with the given extra unary bits"""
    zs = zs or [0] * n
    return [(zs[i], z3.BitVec('u_%s_%d' % (tag, i), resn + 1)) for i in range(n)]


def _res_mixed(tag, n, resn, nsym, fill=(3, 1, 2, 5, 4, 6)):
    """first nsym residual fields symbolic, the rest concrete"""
    out = []
    for i in range(n):
        if i < nsym:
            out.append((0, z3.BitVec('u_%s_%d' % (tag, i), resn + 1)))
        else:
            out.append((0, fill[i % len(fill)] & ((1 << (resn + 1)) - 1)))
    return out


def programs(tier):
    P = []

    def add(name, hdr, prog_fn, itemsize=2):
        h = dict(version=2, ftype=R.TYPE_S16HL, nchan=1, blocksize=3, maxnlpc=0, nmean=4, nskip=0)
        h.update(hdr)
        P.append(dict(name=name, hdr=h, prog_fn=prog_fn, itemsize=itemsize))
    add('v2 diff0+diff1 nmean4', {}, lambda: [('diff', 0, 2, _res('a', 3, 2)), ('diff', 1, 2, _res('b', 3, 2)), ('quit',)])
    add('v2 diff2+diff3 nmean0 LH', dict(nmean=0, ftype=R.TYPE_S16LH), lambda: [('diff', 2, 1, _res('a', 3, 1)), ('diff', 3, 1, _res('b', 3, 1)), ('quit',)])
    add('v1 diff0+diff1 nmean1', dict(version=1, nmean=1, blocksize=2), lambda: [('diff', 0, 3, _res('a', 2, 3)), ('diff', 0, 1, _res('b', 2, 1)), ('diff', 1, 1, _res('c', 2, 1)), ('quit',)])
    add('v2 2ch nmean1', dict(nchan=2, nmean=1, blocksize=2), lambda: [('diff', 1, 2, _res('a', 2, 2)), ('diff', 0, 2, _res('b', 2, 2)),
                                                                       ('diff', 2, 1, _res('c', 2, 1)), ('diff', 0, 1, _res('d', 2, 1)), ('quit',)])
    add('v2 qlpc2 nmean2', dict(maxnlpc=2, nmean=2), lambda: [('diff', 1, 2, _res('a', 3, 2)), ('qlpc', 1, [20, -9], _res('b', 3, 1)), ('quit',)])
    add('v2 qlpc1 nmean0', dict(maxnlpc=1, nmean=0), lambda: [('diff', 0, 3, _res('a', 3, 3)), ('qlpc', 2, [-31], _res('b', 3, 2)), ('quit',)])
    add('v2 bitshift zero', dict(nmean=2), lambda: [('bitshift', 1), ('diff', 0, 2, _res('a', 3, 2)), ('zero',), ('diff', 1, 1, _res('b', 3, 1)), ('quit',)])
    add('v2 bitshift2 nmean4', dict(nmean=4, blocksize=2), lambda: [('diff', 0, 3, _res('a', 2, 3)), ('bitshift', 2), ('diff', 0, 2, _res('b', 2, 2)), ('diff', 1, 1, _res('c', 2, 1)), ('quit',)])
    add('v2 blocksize shorter final', dict(nmean=1, blocksize=4), lambda: [('diff', 1, 1, _res('a', 4, 1)), ('blocksize', 2), ('diff', 2, 2, _res('b', 2, 2)), ('quit',)])
    add('v2 wide residuals extra unary', dict(nmean=0), lambda: [('diff', 1, 5, _res('a', 3, 5, [1, 0, 1])), ('diff', 0, 0, _res('b', 3, 0, [0, 1, 0])), ('quit',)])
    add('v2 AU1 convert', dict(ftype=R.TYPE_AU1, nmean=0, blocksize=2), lambda: [('diff', 0, 2, _res('a', 2, 2)), ('diff', 1, 1, _res('b', 2, 1)), ('quit',)], itemsize=2)
    add('v2 AU2 raw', dict(ftype=R.TYPE_AU2, nmean=0, blocksize=2), lambda: [('diff', 0, 2, _res('a', 2, 2)), ('bitshift', 1), ('diff', 1, 1, _res('b', 1, 1) + _res('c', 1, 1)), ('quit',)], itemsize=1)
    add('v2 diff3 history across blocks', dict(nmean=0, blocksize=2), lambda: [('diff', 1, 2, _res('a', 2, 2)), ('diff', 3, 1, _res('b', 2, 1)), ('diff', 2, 1, _res('c', 2, 1)), ('quit',)])
    add('v2 qlpc maxnlpc4 nmean2 history>3', dict(maxnlpc=4, nmean=2, blocksize=4), lambda: [('diff', 0, 3, _res_mixed('a', 4, 3, 2)), ('qlpc', 1, [17, -6], _res_mixed('b', 4, 1, 2)), ('quit',)])
    add('v1 qlpc nmean0', dict(version=1, maxnlpc=2, nmean=0), lambda: [('diff', 1, 2, _res('a', 3, 2)), ('qlpc', 1, [12, 3], _res('b', 3, 1)), ('quit',)])
    add('v2 qlpc order 2 then 1 (2 channels)', dict(nchan=2, maxnlpc=2, nmean=0, blocksize=2),
        lambda: [('qlpc', 1, [11, -5], _res('a', 2, 1)), ('qlpc', 1, [7], _res('b', 2, 1)), ('qlpc', 1, [-3], _res('c', 2, 1)), ('diff', 1, 1, _res('d', 2, 1)), ('quit',)])
    add('v2 blocksize change mid-stream, later blocks against the running mean', dict(nmean=2, blocksize=4),
        lambda: [('diff', 1, 1, _res_mixed('a', 4, 1, 2)), ('blocksize', 2), ('diff', 0, 2, _res('b', 2, 2)), ('diff', 0, 1, _res('c', 2, 1)), ('diff', 0, 1, _res('d', 2, 1)), ('quit',)])
    add('v2 2ch BITSHIFT between the channel blocks of a frame', dict(nchan=2, nmean=0, blocksize=2),
        lambda: [('diff', 0, 2, _res('a', 2, 2)), ('bitshift', 1), ('diff', 0, 1, _res('b', 2, 1)), ('diff', 1, 1, _res('c', 2, 1)), ('bitshift', 0), ('diff', 0, 1, _res('d', 2, 1)), ('quit',)])
    add('v2 BITSHIFT with a running mean: DIFF0 blocks after the mean history has shifted entries', dict(nmean=2, blocksize=2),
        lambda: [('bitshift', 1), ('diff', 0, 2, _res('a', 2, 2)), ('diff', 0, 2, _res('b', 2, 2)), ('diff', 0, 1, _res('c', 2, 1)), ('diff', 0, 1, _res('d', 2, 1)), ('quit',)])
    add('v2 blocksize change mid-stream, then predictors that use the wrapped history', dict(nmean=0, blocksize=4),
        lambda: [('diff', 1, 1, _res_mixed('a', 4, 1, 2)), ('blocksize', 2), ('diff', 2, 1, _res('b', 2, 1)), ('diff', 3, 1, _res('c', 2, 1)), ('diff', 1, 1, _res('d', 2, 1)), ('quit',)])
    add('v1 BITSHIFT with a running mean (version 1 keeps unshifted block means)', dict(version=1, nmean=1, blocksize=2),
        lambda: [('bitshift', 2), ('diff', 0, 2, _res('a', 2, 2)), ('diff', 0, 1, _res('b', 2, 1)), ('diff', 0, 1, _res('c', 2, 1)), ('quit',)])
    add('v2 maxnlpc1 with DIFF3 / DIFF2 blocks (the history is max(maxnlpc, 3) samples)', dict(maxnlpc=1, nmean=0, blocksize=2),
        lambda: [('diff', 1, 2, _res('a', 2, 2)), ('diff', 3, 1, _res('b', 2, 1)), ('diff', 2, 1, _res('c', 2, 1)), ('quit',)])
    add('v2 AU1 with a ZERO block (mu-law zero is code 0xFF)', dict(ftype=R.TYPE_AU1, nmean=0, blocksize=2),
        lambda: [('diff', 0, 2, _res('a', 2, 2)), ('zero',), ('diff', 1, 1, _res('b', 2, 1)), ('quit',)], itemsize=2)
    add('v2 AU2 raw with a ZERO block after BITSHIFT', dict(ftype=R.TYPE_AU2, nmean=0, blocksize=2),
        lambda: [('bitshift', 1), ('diff', 0, 2, _res('a', 2, 2)), ('zero',), ('diff', 0, 1, _res('b', 2, 1)), ('quit',)], itemsize=1)
    if tier == 'thorough':
        add('v2 qlpc3 nmean4', dict(maxnlpc=3, nmean=4, blocksize=3), lambda: [('diff', 2, 2, _res_mixed('a', 3, 2, 2)), ('qlpc', 1, [25, -14, 4], _res_mixed('b', 3, 1, 2)), ('qlpc', 1, [-7], _res_mixed('c', 3, 1, 2)), ('quit',)])
        add('v2 2ch qlpc bitshift', dict(nchan=2, maxnlpc=1, nmean=1, blocksize=2), lambda: [('bitshift', 1), ('diff', 1, 1, _res('a', 2, 1)), ('qlpc', 1, [9], _res('b', 2, 1)),
                                                                                           ('zero',), ('diff', 0, 1, _res('c', 2, 1)), ('quit',)])
        for order, resn, nm, ver in itertools.product((0, 1, 2, 3), (0, 2), (0, 4), (1, 2)):
            add('grid diff%d r%d nmean%d v%d' % (order, resn, nm, ver), dict(version=ver, nmean=nm, blocksize=2),
                (lambda order=order, resn=resn: [('diff', 1, 2, _res('a', 2, 2)), ('diff', order, resn, _res('b', 2, resn)), ('diff', order, resn, _res('c', 2, resn)), ('quit',)]))
    return P


def configs(tier, seed):
    cfgs = []
    for i, p in enumerate(programs(tier)):
        cfgs.append(dict(kind='roundtrip', name='roundtrip ' + p['name'], prog=i))
    for i in (0, 3, 4, 8):
        cfgs.append(dict(kind='truncated', name='truncated ' + programs(tier)[i]['name'], prog=i))
    cfgs.append(dict(kind='errors', name='errors'))
    nbs = list(range(0, 33))
    ngrp = 11
    for i in range(ngrp):
        cfgs.append(dict(kind='bitreader', name='bit reader step, unread bits %s' % nbs[i::ngrp], nbitgets=nbs[i::ngrp], zmax=3 if tier == 'quick' else 8,
                         nbins=(0, 1, 2, 5, 8, 16, 31, 32) if tier == 'quick' else (0, 1, 2, 3, 4, 5, 7, 8, 13, 16, 24, 31, 32)))
    # long unary runs: the zeros cover the rest of the current word and at least one whole following word
    for nbg in ((0, 7, 32) if tier == 'quick' else (0, 1, 7, 16, 31, 32)):
        cfgs.append(dict(kind='bitreader', name='bit reader step, unary runs of 30-70 zeros, unread bits %d' % nbg, nbitgets=[nbg], zmin=30, zmax=70,
                         nbins=(0, 2) if tier == 'quick' else (0, 2, 5)))
    cfgs.append(dict(kind='divlemma', name='c99_div lemma'))
    for v in (['123_1pcbe', '123_2ulaw'] if tier == 'quick' else ['123_1pcbe', '123_1pcle', '123_1ulaw', '123_2pcbe', '123_2pcle', '123_2ulaw']):
        cfgs.append(dict(kind='prefix', name='prefix ' + v, vector=v, blocks=1 if tier == 'quick' else 2))
    return cfgs


def _total(hdr, prog):
    bs = hdr['blocksize']
    n = 0
    chan = 0
    for c in prog:
        if c[0] == 'blocksize':
            bs = c[1]
        elif c[0] in ('diff', 'qlpc', 'zero'):
            if chan == hdr['nchan'] - 1:
                n += bs
            chan = (chan + 1) % hdr['nchan']
    return n


def _outward_sym(ftype):
    if ftype == R.TYPE_AU1:
        return lambda bs, v: OUTW(bv(bs), v + 128)
    if ftype == R.TYPE_AU2:
        return lambda bs, v: z3.If(v >= 0, OUTW(bv(bs), v + 128), z3.If(v == -1, z3.BitVecVal(0x7F, WID), OUTW(bv(bs), v + 129)))
    return None


def run_roundtrip(cfg, tier):
    p = programs(tier)[cfg['prog']]
    ns = load()
    viol, samples = [], []
    ob = dis = 0
    hdr = p['hdr']

    def body():
        prog = p['prog_fn']()
        stream = R.encode(hdr, prog, pad_words=1)
        nsamp = _total(hdr, prog)
        data = NDB((nsamp * hdr['nchan'],))
        data.itemsize = p['itemsize']
        err = IOError('bad')
        try:
            done = ns['copy_shortened_samples'](SymBytes(stream), File(), data, err)
        except Exception as e:
            symex.guard(e)
            return ('exception', '%s: %s' % (type(e).__name__, e), prog)
        ref = R.ref_decode(hdr, prog, ops=R.BVOps, outward=_outward_sym(hdr['ftype']))
        convert = p['itemsize'] > 1 and hdr['ftype'] in (R.TYPE_AU1, R.TYPE_AU2)
        flat = [v for fr in ref for v in fr]
        if convert:
            flat = [U2P(v) for v in flat]
        bad = []
        for i, want in enumerate(flat):
            got = z3.simplify(data.get(z3.IntVal(i)))
            bad.append(got != z3.simplify(want))
        return ('cmp', done, nsamp, bad, prog)

    for ctx, res in explore(body):
        if res is None:
            continue
        ob += 1
        base = dict(kind='roundtrip', prog=cfg['prog'], name=p['name'])
        if res[0] == 'exception':
            w = dict(base, what='exception', detail=res[1])
            w['residuals'] = _model_fields(ctx.model(), res[2])
            viol.append(w)
            continue
        _, done, nsamp, bad, prog = res
        if done != nsamp:
            viol.append(dict(base, what='sample count', detail='returned %s, expected %d' % (done, nsamp), residuals=_model_fields(ctx.model(), prog)))
            continue
        s = ctx.solver
        s.push()
        s.add(z3.Or(bad))
        r = check_sat(s)
        if r == 'sat':
            viol.append(dict(base, what='value', detail=None, residuals=_model_fields(s.model(), prog)))
        else:
            dis += 1
        s.pop()
        if r != 'sat' and len(samples) < 1:
            samples.append({'config': cfg['name'], 'header': hdr, 'program': [c[:3] if c[0] in ('diff', 'qlpc') else c for c in prog],
                            'path_witness_residuals': _model_fields(ctx.model(), prog)})
    for w in viol:
        w['class'] = 'roundtrip/%s/%s' % (w['what'], (w['detail'] or '').split(':')[0] if w['what'] == 'exception' else p['name'])
    return dict(obligations=ob, discharged=dis, violations=viol, samples=samples, twin=dis > 0)


def _model_fields(m, prog):
    out = []
    for c in prog:
        if c[0] in ('diff', 'qlpc'):
            res = c[-1]
            out.append([(z, m.eval(f, True).as_long() if z3.is_bv(f) else f) for z, f in res])
    return out


def _concretize(prog, fields):
    out, k = [], 0
    for c in prog:
        if c[0] in ('diff', 'qlpc'):
            out.append(c[:-1] + ([(z, int(f)) for z, f in fields[k]],))
            k += 1
        else:
            out.append(c)
    return out


def run_truncated(cfg, tier):
    """every truncation point (whole 32-bit words removed from the end, nothing more to read) must raise the supplied IOError"""
    p = programs(tier)[cfg['prog']]
    ns = load()
    hdr = p['hdr']
    viol = []
    ob = dis = 0
    nwords = len(R.encode(hdr, p['prog_fn']())) - 5
    nwords //= 4
    for keep in range(0, nwords):
        def body():
            prog = p['prog_fn']()
            stream = R.encode(hdr, prog)[:5 + 4 * keep]
            data = NDB((_total(hdr, prog) * hdr['nchan'],))
            data.itemsize = p['itemsize']
            err = IOError('bad')
            try:
                ns['copy_shortened_samples'](SymBytes(stream), File(), data, err)
            except IOError as e:
                return ('ioerror', e is err)
            except Exception as e:
                symex.guard(e)
                return ('exception', '%s: %s' % (type(e).__name__, e))
            return ('returned',)
        for ctx, res in explore(body):
            if res is None:
                continue
            ob += 1
            if res[0] == 'ioerror' and res[1]:
                dis += 1
            else:
                viol.append(dict(kind='truncated', prog=cfg['prog'], name=p['name'], keep_words=keep, what='truncated stream: ' + str(res),
                                 residuals=_model_fields(ctx.model(), p['prog_fn']()), **{'class': 'truncated/%s' % res[0]}))
    return dict(obligations=ob, discharged=dis, violations=viol, samples=[{'config': cfg['name'], 'truncation_points': nwords}], twin=dis > 0)


def run_errors(cfg, tier):
    ns = load()
    viol = []
    ob = dis = 0
    base = dict(version=2, ftype=R.TYPE_S16HL, nchan=1, blocksize=2, maxnlpc=0, nmean=0, nskip=0)
    cases = []
    for v in (0, 3, 7):
        cases.append(('version %d' % v, dict(base, version=v), [('quit',)]))
    for ft in (9, 12):
        cases.append(('ftype %d' % ft, dict(base, ftype=ft), [('quit',)]))
    for cmd in (9, 10, 13):
        cases.append(('command %d' % cmd, base, [('diff', 0, 1, [(0, 1), (0, 2)]), ('rawcmd', cmd)]))
    for name, hdr, prog in cases:
        def body():
            stream = R.encode(hdr, prog, pad_words=2)
            data = NDB((8,))
            data.itemsize = 2
            err = IOError('bad')
            try:
                ns['copy_shortened_samples'](SymBytes(stream), File(), data, err)
            except IOError as e:
                return ('ioerror', e is err)
            except Exception as e:
                symex.guard(e)
                return ('exception', '%s: %s' % (type(e).__name__, e))
            return ('returned',)
        for ctx, res in explore(body):
            if res is None:
                continue
            ob += 1
            if res[0] == 'ioerror' and res[1]:
                dis += 1
            else:
                viol.append(dict(kind='errors', case=name, what='%s: %s' % (name, res), **{'class': 'errors/%s' % name.split()[0]}))
    return dict(obligations=ob, discharged=dis, violations=viol, samples=[{'config': 'errors', 'cases': [c[0] for c in cases]}], twin=dis > 0)


def run_divlemma(cfg, tier):
    """int(float(a)/b) == C truncating division, the model of c99_div used by the harness.  QF_FPBV query per divisor b
    that occurs (nmean / block sizes of the programs): a, b exactly representable doubles, q = RNE(a/b),
    claim RTZ-to-int(q) == a bvsdiv b for |a| < 2^bits.  Decided by the cvc5 binary (z3 for powers of two)."""
    import os
    import subprocess
    bits = 24 if tier == 'quick' else 40
    divisors = [1, 2, 3, 4] if tier == 'quick' else [1, 2, 3, 4, 5, 6, 7, 256]
    ob = dis = 0
    viol = []
    work = os.path.join('/verif', '.work')
    os.makedirs(work, exist_ok=True)
    for b in divisors:
        ob += 1
        smt = """(set-logic QF_FPBV)
(declare-const a (_ BitVec 64))
(assert (bvsgt a (bvneg (_ bv%d 64))))
(assert (bvslt a (_ bv%d 64)))
(define-fun fa () (_ FloatingPoint 11 53) ((_ to_fp 11 53) RNE a))
(define-fun fb () (_ FloatingPoint 11 53) ((_ to_fp 11 53) RNE %d.0))
(define-fun q () (_ FloatingPoint 11 53) (fp.div RNE fa fb))
(assert (not (= ((_ fp.to_sbv 64) RTZ q) (bvsdiv a (_ bv%d 64)))))
(check-sat)
(get-value (a))
""" % (1 << bits, 1 << bits, b, b)
        path = os.path.join(work, 'c99div_%d_%d_%d.smt2' % (b, bits, os.getpid()))
        with open(path, 'w') as f:
            f.write(smt)
        try:
            out = subprocess.run(['cvc5', '--produce-models', '--tlimit=%d' % (280000 if tier == 'quick' else 1500000), path],
                                 capture_output=True, text=True).stdout
        finally:
            os.unlink(path)
        first = out.strip().split('\n')[0] if out.strip() else ''
        if first not in ('sat', 'unsat') or (first == 'sat' and '(error' in out):
            raise Inconclusive('c99_div lemma b=%d: cvc5 said %r' % (b, out[:100]))
        if first == 'unsat':
            dis += 1
        else:
            import re
            m = re.search(r'#b([01]+)|#x([0-9a-f]+)', out)
            av = int(m.group(1), 2) if m and m.group(1) else (int(m.group(2), 16) if m else 0)
            if av >= 1 << 63:
                av -= 1 << 64
            viol.append(dict(kind='divlemma', a=av, b=b, what='int(float(a)/b) != trunc(a/b)', **{'class': 'divlemma'}))
    return dict(obligations=ob, discharged=dis, violations=viol, twin=True,
                samples=[{'config': 'c99_div lemma', 'bound': '|a| < 2^%d, b in %s' % (bits, divisors), 'solver': 'cvc5 (binary) QF_FPBV'}],
                notes=['c99_div lemma proved for |a| < 2^%d, b in %s' % (bits, divisors)])


def run_prefix(cfg, tier):
    """translator validation as an obligation: the symbolic harness (SBV/NDB/struct/c99_div proxies) run on the CONCRETE
    first blocks of a shipped vector must yield exactly the reference decoder's samples (no forks)."""
    import os
    name = cfg['vector']
    aud = os.path.join(loader.REPO, 'tests', 'audio')
    b = open(os.path.join(aud, name + '_shn.sph'), 'rb').read()
    hs = int(b.split(b'\n')[1])
    hdr, prog = R.parse(b[hs:])
    nblk = cfg['blocks'] * hdr['nchan']
    pre, k = [], 0
    for c in prog:
        pre.append(c)
        if c[0] in ('diff', 'qlpc', 'zero'):
            k += 1
            if k == nblk:
                break
    pre.append(('quit',))
    ns = load()

    def body():
        stream = R.encode(hdr, pre, pad_words=1)
        data = NDB((_total(hdr, pre) * hdr['nchan'],))
        data.itemsize = 1
        ns['copy_shortened_samples'](SymBytes(stream), File(), data, IOError('x'))
        return [z3.simplify(data.get(z3.IntVal(i))) for i in range(_total(hdr, pre) * hdr['nchan'])]
    paths = [r for _, r in explore(body)]
    if len(paths) != 1 or paths[0] is None:
        raise Inconclusive('concrete stream forked or aborted')
    want = R.ref_decode(hdr, pre, ops=R.BVOps, outward=_outward_sym(hdr['ftype']))
    flat = [z3.simplify(v) for fr in want for v in fr]
    s = z3.Solver()
    s.add(z3.Or([a != b2 for a, b2 in zip(paths[0], flat)]))
    if check_sat(s) != 'unsat':
        raise Inconclusive('symbolic harness on concrete prefix of %s disagrees with the reference decoder (encoding error)' % name)
    return dict(obligations=1, discharged=1, violations=[], samples=[{'config': cfg['name'], 'samples_compared': len(flat)}], twin=True)



# ------------------------------------------------------------------ one step of the bit reader from an arbitrary state

def _expose_bitreader(tree):
    """AST insertion (on the loaded copy only): right after the nested `def var_get` of copy_shortened_samples,
    `if __BITREADER_HOOK__ is not None: return __BITREADER_HOOK__(word_get, uvar_get, var_get)` -- the closures of the
    real bit reader become callable on a state of our choosing."""
    import ast
    for node in ast.walk(tree):
        if isinstance(node, ast.FunctionDef) and node.name == 'copy_shortened_samples':
            for i, st in enumerate(node.body):
                if isinstance(st, ast.FunctionDef) and st.name == 'var_get':
                    hook = ast.parse('if __BITREADER_HOOK__ is not None:\n    return __BITREADER_HOOK__(word_get, uvar_get, var_get)').body[0]
                    node.body.insert(i + 1, hook)
                    return tree
    raise Inconclusive('nested var_get not found in copy_shortened_samples (bit reader restructured)')


NWORDS = 4      # words after the current one that the step may fetch


def run_bitreader(cfg, tier):
    """Inductive step of the Rice / unary bit reader.  State: the current 32-bit word (symbolic), the number of its bits
    still unread (concrete 0..32, every value is a configuration), the following words (symbolic).  One call of the
    real uvar_get(nbin) / var_get(nbin) must return the code word that starts at the current bit position of the
    stream -- z zero bits, a one, nbin mantissa bits -- and leave the reader exactly behind it (position, current
    word).  Together with the stream-start state (nbitget = 0) this covers every alignment a stream can produce."""
    zmax = cfg['zmax']
    zmin = cfg.get('zmin', 0)
    subs = dict(np=NPs, struct=Struct, memoryview=lambda x: x, float=sfloat, int=sint, warnings=Warn)
    got = {}
    subs['__BITREADER_HOOK__'] = lambda *fns: fns
    ns = loader.load_unit('_sphere', subs, transform=_expose_bitreader, name='sphere_bitreader')
    viol = []
    ob = dis = 0
    for nb0, nbin, which in itertools.product(cfg['nbitgets'], cfg['nbins'], ('uvar', 'var')):
        if which == 'var' and nbin >= 32:
            continue
        width = nbin + 1 if which == 'var' else nbin

        def body():
            c = Ctx.cur
            g = z3.BitVec('g', 32)
            ws = [z3.BitVec('w%d' % i, 32) for i in range(NWORDS)]
            B = z3.Concat(g, *ws)                      # bit 0 = most significant bit of g
            total = 32 * (NWORDS + 1)
            pos = 32 - nb0

            def bit(i):
                return z3.Extract(total - 1 - i, total - 1 - i, B)
            c.assume(z3.Or([bit(pos + i) == 1 for i in range(zmin, zmax + 1)]))      # unary run of at most zmax zeros
            for i in range(zmin):
                c.assume(bit(pos + i) == 0)                                         # ... and of at least zmin
            more = []
            for w in ws:
                more += [z3.Extract(31 - 8 * k, 24 - 8 * k, w) for k in range(4)]
            try:
                word_get, uvar_get, var_get = ns['copy_shortened_samples'](SymBytes(list(b'ajkg') + [2]), File(), NDB((1,)), IOError('x'))
                word_get.inpbuf = SymBytes(more)
                uvar_get.gbuffer = mk(z3.SignExt(WID - 32, g))
                uvar_get.nbitget = nb0
                res = (uvar_get if which == 'uvar' else var_get)(nbin)
                g1, nb1, left = uvar_get.gbuffer, uvar_get.nbitget, len(word_get.inpbuf)
            except Exception as e:
                symex.guard(e)
                return ('exception', '%s: %s' % (type(e).__name__, e))
            z = None
            for i in range(zmin, zmax + 1):
                if decide(bit(pos + i) == 1):
                    z = i
                    break
            start = pos + z + 1
            if width:
                field = z3.ZeroExt(WID - width, z3.Extract(total - 1 - start, total - start - width, B))
            else:
                field = z3.BitVecVal(0, WID)
            u = (z3.BitVecVal(z, WID) << width) | field
            want = u if which == 'uvar' else z3.If(u & 1 == 1, ~(u >> 1), u >> 1)
            end = start + width
            if not isinstance(nb1, int) or not isinstance(left, int):
                return ('state', 'symbolic reader state after the call')
            k = (len(more) - left) // 4                    # words fetched by this call
            bad = [bv(res) != want, z3.BoolVal(not (0 <= nb1 <= 32)), z3.BoolVal(32 * (k + 1) - nb1 != end)]
            if nb1 > 0:
                cur = g if k == 0 else ws[k - 1]
                bad.append(bv(g1) != z3.SignExt(WID - 32, cur))
            return ('cmp', bad, z)

        for ctx, res in explore(body, max_paths=200):
            if res is None:
                continue
            ob += 1
            base = dict(kind='bitreader', nbitget=nb0, nbin=nbin, fn=which)
            s = ctx.solver
            if res[0] != 'cmp':
                m = ctx.model()
                viol.append(dict(base, what=res[0], detail=res[1][:160], words=[m.eval(z3.BitVec(n, 32), True).as_long() for n in ['g'] + ['w%d' % i for i in range(NWORDS)]]))
                continue
            s.push()
            s.add(z3.Or(res[1]))
            r = check_sat(s)
            if r == 'sat':
                m = s.model()
                viol.append(dict(base, what='value/state', detail='unary run %d' % res[2], words=[m.eval(z3.BitVec(n, 32), True).as_long() for n in ['g'] + ['w%d' % i for i in range(NWORDS)]]))
            else:
                dis += 1
            s.pop()
    for w in viol:
        w['class'] = 'bitreader/%s/%s/%s' % (w['fn'], w['what'], 'aligned' if w['nbitget'] in (0, 32) else 'unaligned')
    return dict(obligations=ob, discharged=dis, violations=viol, twin=dis > 0,
                samples=[{'config': cfg['name'], 'obligation': 'forall current word, following words: uvar_get/var_get(nbin) from nbitget in %s returns the code word at the current position and advances exactly past it' % (cfg['nbitgets'],)}])


def _replay_bitreader(w):
    """the real closures (same AST exposure, but real numpy / struct / memoryview, concrete words) against a plain bit-string reference"""
    import struct as _struct
    import numpy as np
    ns = loader.load_unit('_sphere', {'__BITREADER_HOOK__': (lambda *fns: fns)}, transform=_expose_bitreader, name='sphere_bitreader_real')
    words = w['words']
    bits = ''.join(format(x & 0xFFFFFFFF, '032b') for x in words)
    more = b''.join(_struct.pack('>L', x & 0xFFFFFFFF) for x in words[1:])

    class F:
        def read(self, n):
            return b''
    try:
        word_get, uvar_get, var_get = ns['copy_shortened_samples'](b'ajkg' + bytes([2]), F(), np.zeros(1, dtype=np.int16), IOError('x'))
        word_get.inpbuf = memoryview(more)
        (g,) = _struct.unpack('>l', _struct.pack('>L', words[0] & 0xFFFFFFFF))
        uvar_get.gbuffer = g
        uvar_get.nbitget = w['nbitget']
        res = int((uvar_get if w['fn'] == 'uvar' else var_get)(w['nbin']))
        nb1, left = int(uvar_get.nbitget), len(word_get.inpbuf)
    except Exception as e:
        return {'reproduced': True, 'detail': 'real bit reader raised %s: %s (nbitget=%d nbin=%d words=%s)' % (type(e).__name__, e, w['nbitget'], w['nbin'], [hex(x) for x in words])}
    pos = 32 - w['nbitget']
    z = bits[pos:].index('1')
    width = w['nbin'] + (1 if w['fn'] == 'var' else 0)
    start = pos + z + 1
    u = (z << width) | (int(bits[start:start + width], 2) if width else 0)
    want = u if w['fn'] == 'uvar' else (~(u >> 1) if u & 1 else u >> 1)
    end = start + width
    k = (len(more) - left) // 4
    if res != want or 32 * (k + 1) - nb1 != end:
        return {'reproduced': True, 'detail': '%s_get(%d) with %d unread bits of word %s followed by %s returned %d and stands at bit %d; the stream holds %d ending at bit %d' % (
            w['fn'], w['nbin'], w['nbitget'], hex(words[0]), [hex(x) for x in words[1:3]], res, 32 * (k + 1) - nb1, want, end)}
    return {'reproduced': False, 'detail': 'real bit reader agrees with the bit-string reference'}


def run_config(cfg):
    tier = cfg.get('_tier', 'quick')
    return {'roundtrip': run_roundtrip, 'truncated': run_truncated, 'errors': run_errors, 'divlemma': run_divlemma, 'prefix': run_prefix, 'bitreader': run_bitreader}[cfg['kind']](cfg, tier)


_configs0 = configs


def configs(tier, seed):  # noqa: F811  (tier is carried in the config so workers regenerate the same programs)
    out = _configs0(tier, seed)
    for c in out:
        c['_tier'] = tier
    return out


# ------------------------------------------------------------------ replay on the real library

def _sphere_blob(stream_bytes, nsamp, nchan, ftype, itemsize_hint=2):
    coding = 'ulaw' if ftype in (R.TYPE_AU1, R.TYPE_AU2, R.TYPE_ULAW) else 'pcm'
    size = 1 if coding == 'ulaw' else 2
    lines = ['NIST_1A', '   1024', 'channel_count -i %d' % nchan, 'sample_count -i %d' % nsamp, 'sample_rate -i 8000',
             'sample_n_bytes -i %d' % size, 'sample_byte_format -s%d %s' % ((2, '10') if size == 2 else (1, '1')),
             'sample_coding -s%d %s,embedded-shorten-v2.00' % (len(coding) + 23, coding), 'end_head']
    h = ('\n'.join(lines) + '\n').encode()
    return h + b' ' * (1024 - len(h)) + stream_bytes


def replay(w):
    import io
    import numpy as np
    from pydrobert.speech.util import read_signal
    import pydrobert.speech._sphere as sph
    tier = 'thorough' if w.get('prog', 0) >= len(programs('quick')) else 'quick'
    if w['kind'] == 'bitreader':
        return _replay_bitreader(w)
    if w['kind'] == 'divlemma':
        a, b = w['a'], w['b']
        got = sph.c99_div(a, b)
        want = abs(a) // b * (1 if a >= 0 else -1)
        return {'reproduced': got != want, 'detail': 'c99_div(%d,%d)=%d, C gives %d' % (a, b, got, want)}
    if w['kind'] == 'errors':
        base = dict(version=2, ftype=R.TYPE_S16HL, nchan=1, blocksize=2, maxnlpc=0, nmean=0, nskip=0)
        name = w['case']
        kind, val = name.split()
        hdr, prog = dict(base), [('quit',)]
        if kind == 'version':
            hdr['version'] = int(val)
        elif kind == 'ftype':
            hdr['ftype'] = int(val)
        else:
            prog = [('diff', 0, 1, [(0, 1), (0, 2)]), ('rawcmd', int(val))]
        blob = _sphere_blob(bytes(R.encode(hdr, prog, pad_words=2)), 2, 1, R.TYPE_S16HL)
        try:
            out = read_signal(io.BytesIO(blob), force_as='sph')
            return {'reproduced': True, 'detail': '%s: decoder returned data of shape %s instead of raising IOError' % (name, out.shape)}
        except IOError:
            return {'reproduced': False, 'detail': 'IOError raised'}
        except Exception as e:
            return {'reproduced': True, 'detail': '%s: %s instead of IOError: %s' % (name, type(e).__name__, e)}
    p = programs(tier)[w['prog']]
    hdr = p['hdr']
    prog = _concretize(p['prog_fn'](), w['residuals'])
    stream = bytes(R.encode(hdr, prog))
    if w['kind'] == 'truncated':
        stream = stream[:5 + 4 * w['keep_words']]
    nsamp = _total(hdr, prog)
    blob = _sphere_blob(stream, nsamp, hdr['nchan'], hdr['ftype'])
    dtype = None if p['itemsize'] > 1 else np.uint8
    try:
        got = read_signal(io.BytesIO(blob), dtype=dtype, force_as='sph')
    except IOError as e:
        if w['kind'] == 'truncated':
            return {'reproduced': False, 'detail': 'IOError raised'}
        return {'reproduced': True, 'detail': 'valid stream (%s) raised IOError: %s' % (p['name'], e)}
    except Exception as e:
        return {'reproduced': True, 'detail': 'program "%s": real decoder raised %s: %s' % (p['name'], type(e).__name__, e)}
    if w['kind'] == 'truncated':
        return {'reproduced': True, 'detail': 'truncated stream returned data of shape %s' % (got.shape,)}
    outward = None
    if hdr['ftype'] == R.TYPE_AU1:
        outward = lambda bs, v: int(sph.ULAW_OUTWARD[bs, v + 128])
    elif hdr['ftype'] == R.TYPE_AU2:
        outward = lambda bs, v: int(sph.ULAW_OUTWARD[bs, v + 128]) if v >= 0 else (0x7F if v == -1 else int(sph.ULAW_OUTWARD[bs, v + 129]))
    ref = np.array(R.ref_decode(hdr, prog, outward=outward), dtype=np.int64)
    if hdr['ftype'] in (R.TYPE_AU1, R.TYPE_AU2) and p['itemsize'] > 1:
        ref = sph.ULAW2PCM[ref].astype(np.int64)
    ref = ref if hdr['nchan'] > 1 else ref[:, 0]
    g = got.astype(np.int64)
    if g.shape != ref.shape or not np.array_equal(g, ref):
        return {'reproduced': True, 'detail': 'program "%s": decoded %s, reference %s' % (p['name'], g.tolist(), ref.tolist())}
    return {'reproduced': False, 'detail': 'real decoder agrees with the reference'}


def conformance(tier, seed, results):
    """translator validation: (1) the reference parser+decoder reproduces the reference WAVs of the six shipped vectors
    (independently of the code under test); (2) the symbolic harness run on CONCRETE streams (first two blocks of each
    vector re-encoded) gives the reference samples, i.e. the proxies (SBV, NDB, struct, c99_div model) are faithful."""
    import wave
    import numpy as np
    import os
    ns0 = loader.load_unit('_sphere', name='sphere_tables')
    n = 0
    aud = os.path.join(loader.REPO, 'tests', 'audio')
    for name in ['123_1pcbe', '123_1pcle', '123_1ulaw', '123_2pcbe', '123_2pcle', '123_2ulaw']:
        b = open(os.path.join(aud, name + '_shn.sph'), 'rb').read()
        hs = int(b.split(b'\n')[1])
        hdr, prog = R.parse(b[hs:])
        OW = ns0['ULAW_OUTWARD']
        outward = None
        if hdr['ftype'] == R.TYPE_AU2:
            outward = lambda bs, v: int(OW[bs, v + 128]) if v >= 0 else (0x7F if v == -1 else int(OW[bs, v + 129]))
        out = np.array(R.ref_decode(hdr, prog, outward=outward))
        if hdr['ftype'] == R.TYPE_AU2:
            out = ns0['ULAW2PCM'][out]
        wv = wave.open(os.path.join(aud, name + '.wav'))
        ref = np.frombuffer(wv.readframes(wv.getnframes()), dtype='<i2').reshape(-1, wv.getnchannels())
        assert np.array_equal(out, ref), 'reference decoder disagrees with reference WAV ' + name
        n += 1
    return n
