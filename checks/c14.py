"""C14 -- PyTorch modules compute what their NumPy counterparts compute (DESIGN 3/C14)."""
import itertools
import math

import z3

from vlib import loader, symex
from vlib.symex import (Ctx, SArr, SBool, SInt, SReal, _z, conc, decide, explore, slen, smax, smin, srange, rv,
                        Inconclusive, check_sat, ssqrt, sint)
from checks import stft_common as sc
from checks import c02

PID = 'C14'
LEVEL = 'model_checking'
FUNCTIONS = ['torch:pytorch_stft_frame_computer', 'torch:PyTorchShortTimeFourierTransformFrameComputer.from_stft_frame_computer',
             'torch:PyTorchShortTimeFourierTransformFrameComputer.forward', 'torch:PyTorchPostProcessorWrapper._postprocessor_appy',
             'torch:PyTorchShortIntegrationFrameComputer._compute_full', 'compute:ShortTimeFourierTransformFrameComputer._compute_frame',
             'compute:ShortTimeFourierTransformFrameComputer.compute_full']
EXPLANATION = (
    'Differential symbolic execution: the unchanged body of pytorch_stft_frame_computer runs on a torch-lite shim (lazy '
    'symbolic tensors: cat/flip/as_strided/new_empty/rfft/stack) and the NumPy computer runs in the C02 harness, on the same '
    'symbolic signal length N, the same (L, S, style, kaldi_shift), the same symbolic start bin / truncated length and '
    'symbolic flags. z3 decides that the framed rows are the same source samples, that the bin<->tap pairing is the '
    'documented one (hence equal to NumPy\'s, which C02 proves), that the energy / power / log-floor / doubling dataflow '
    'gives equal terms, and that the output shapes agree, including N < L//2+1 (zero rows, same number of columns). '
    'Wrappers: dataflow with stub objects (input handed to the NumPy object, result re-wrapped with device and dtype).')
BOUNDS = {'quick': 'framing: (L,S) grid of C02 x 3 styles plus causal+kaldi_shift at (5,2) (7,3) and frame shifts beyond twice the frame length (2,6) (3,7), N <= 3L; pairing: D in 2..17, 32, 64, any start/len; flags: all combinations (symbolic); parameter transfer: all flag combinations x padded / unpadded DFT size; NumPy-backed wrappers: tensor of symbolic extents (rows, cols >= 0)',
          'thorough': 'pairing D in 2..40 and {64,127,128,255,256,512}; framing L<=9, N<=4L'}
OUTSIDE = ['signal lengths with frame_length//2+1 <= N < frame_length (not covered by the property; the torch port raises there when the padding exceeds the signal)', 'TorchScript compilation (compiler out of reach)', 'float32 working precision', 'statistics of PyTorchDither noise',
           'numerical FFT; PyTorchPreemphasize / PyTorchDither functional forms are decided in C18']
ASSUMPTIONS = ['torch.cat/flip/as_strided/stack/rfft index semantics as modelled by the shim (validated against real torch in conformance)',
               'torch.linalg.norm(x, 2, 1) = sqrt(sum |x|^2) along dim 1',
               'torch.fft.rfft rejects a batch of zero transforms (RuntimeError from the CPU FFT back end of the installed torch): a path that reaches it with no frame is a violation candidate and is replayed on real torch']
CONFIG_TIME_LIMIT = {'quick': 600, 'thorough': 3000}
R = z3.RealSort()


# ------------------------------------------------------------------ torch-lite

class TSig(SArr):
    """1-D tensor: lazy array with torch method names"""

    @property
    def ndim(self):
        return 1

    def size(self, d):
        return self.n

    def new_empty(self, shape):
        return TOut(shape[0], shape[1], [])

    def new_zeros(self, n):
        return SReal(0)

    def flip(self, d):
        g = self.snapshot()
        n = _z(self.n)
        return TSig(self.n, lambda i: g(n - 1 - i), self.dtype)

    def __getitem__(self, k):
        v = SArr.__getitem__(self, k)
        if isinstance(v, SArr):
            return TSig(v.n, v.snapshot(), v.dtype)
        return v

    def as_strided(self, size, stride):
        nf, L = size
        S, one = stride
        assert one == 1
        return TFrames(self, nf, L, S)


class TFrames:
    def __init__(self, base, nf, L, S, windowed=False):
        self.base, self.nf, self.L, self.S, self.windowed = base, nf, L, S, windowed

    def __mul__(self, w):
        return TFrames(self.base, self.nf, self.L, self.S, True)

    def rows(self):
        nf = self.nf.__index__() if isinstance(self.nf, SInt) else self.nf
        g = self.base.snapshot()
        n = _z(self.base.n)
        out = []
        for k in range(nf):
            row = []
            for j in range(self.L):
                idx = z3.IntVal(k * self.S + j)
                if not decide(idx < n):
                    raise RuntimeError('as_strided reads beyond the storage')   # torch would read out of bounds
                row.append(Ctx.cur.simp(g(idx)))
            out.append(row)
        return out


class TOut:
    def __init__(self, rows, cols, cols_terms):
        self.rows, self.cols, self.terms = rows, cols, cols_terms

    def clamp_min(self, eps):
        fl = rv(eps)
        return TOut(self.rows, self.cols, [SReal(z3.If(rv(t) >= fl, rv(t), fl)) for t in self.terms])

    def log(self):
        return TOut(self.rows, self.cols, [SReal(c02.LOG(rv(t))) for t in self.terms])


class NormTok:
    """torch.linalg.norm(x, 2, 1) of frames or of a spectrum segment"""

    def __init__(self, term):
        self.term = term

    def __truediv__(self, o):
        return NormTok(self.term / rv(o))

    def square(self):
        return SReal(self.term * self.term)

    def __mul__(self, o):
        return SReal(self.term * rv(o))


def _clamp_min(self, eps):
    fl = rv(eps)
    t = rv(self)
    return SReal(z3.If(t >= fl, t, fl))


# torch method names on scalar terms (a column of the output): a rewritten log / floor placement stays executable
SReal.clamp_min = _clamp_min
SReal.log = lambda self: SReal(c02.LOG(rv(self)))
SReal.square = lambda self: SReal(rv(self) * rv(self))
NormTok.clamp_min = lambda self, eps: _clamp_min(SReal(self.term), eps)
NormTok.log = lambda self: SReal(c02.LOG(self.term))
NormTok.__rmul__ = lambda self, o: SReal(self.term * rv(o))


def _as_real(v):
    if isinstance(v, NormTok):
        return SReal(v.term)
    return v


class SpecRow:
    """torch.fft.rfft(frames, D, 1): element m of every row IS the integer m (pairing recorder)"""

    def __init__(self, half_len, arr=None):
        self.half_len = half_len
        self.arr = arr if arr is not None else SArr(half_len, lambda i: i, 'c16')
        self.conjd = False

    def size(self, d):
        assert d == 1
        return self.half_len

    def __getitem__(self, key):
        assert isinstance(key, tuple) and key[0] is Ellipsis
        r = SpecRow(self.half_len, self.arr[key[1]])
        return r

    def conj(self):
        r = SpecRow(self.half_len, self.arr)
        r.conjd = True
        return r

    def flip(self, d):
        a = self.arr
        g = a.snapshot()
        n = _z(a.n)
        r = SpecRow(self.half_len, SArr(a.n, lambda i: g(n - 1 - i), 'c16'))
        r.conjd = self.conjd
        return r

    def __mul__(self, filt):
        return SegProd(self.arr * filt)


class SegProd:
    segs = []

    def __init__(self, prod):
        self.prod = prod

    def abs(self):
        return self

    def sum(self, d):
        SegProd.segs.append(self.prod)
        return SReal(SEGV(z3.IntVal(len(SegProd.segs)), z3.IntVal(0)))


SEGV = z3.Function('SEGVAL', z3.IntSort(), z3.IntSort(), R)


class TLinalg:
    frames_norm = z3.Real('norm_frames')

    @staticmethod
    def norm(x, p, d):
        assert p == 2 and d == 1
        if isinstance(x, TFrames):
            assert not x.windowed, 'energy must use the unwindowed frame'
            return NormTok(TLinalg.frames_norm)
        if isinstance(x, SegProd):
            SegProd.segs.append(x.prod)
            return NormTok(symex.SQRT(SEGV(z3.IntVal(len(SegProd.segs)), z3.IntVal(1))))
        raise symex.Unsupported('norm of %r' % type(x))


class TFFT:
    D = None

    @staticmethod
    def rfft(x, n, dim, norm):
        assert isinstance(x, TFrames) and dim == 1 and norm == 'backward'
        # the CPU FFT back end (MKL) of the installed torch rejects a batch of zero transforms
        if decide(_z(x.nf) <= 0):
            raise RuntimeError('MKL FFT error: Intel oneMKL DFTI ERROR: Inconsistent configuration parameters (batch of 0 transforms)')
        TFFT.last = (x, n)
        return SpecRow(n // 2 + 1)


class TorchLite:
    linalg = TLinalg
    fft = TFFT
    Tensor = object

    @staticmethod
    def cat(ts, dim=0):
        out = ts[0]
        for b in ts[1:]:
            a = out
            an = _z(a.n)
            ag, bg = a.snapshot(), b.snapshot()
            out = TSig(conc(SInt(z3.simplify(an + _z(b.n)))), (lambda an, ag, bg: lambda i: z3.If(i < an, ag(i), bg(i - an)))(an, ag, bg), a.dtype)
        return out

    @staticmethod
    def stack(ys, dim):
        assert dim == 1
        return TOut(None, len(ys), [_as_real(y) for y in ys])


def load_torch():
    ns = loader.load_unit('torch', dict(len=slen, max=smax, min=smin, range=srange, zip=zip, int=sint), name='pydrobert.speech.torch')
    ns['torch'] = TorchLite
    fn = ns['pytorch_stft_frame_computer']
    return ns, getattr(fn, '__wrapped__', fn)


def tsig(N):
    return TSig(conc(N) if isinstance(N, SInt) else N, lambda i: sc.x(i), 'f8', readonly=True)


class TFilt(SArr):
    pass


def configs(tier, seed):
    cfgs = []
    Ds = list(range(2, 18)) + [32, 64] if tier == 'quick' else list(range(2, 41)) + [64, 127, 128, 255, 256, 512]
    for D in Ds:
        for real in (False, True):
            # frame lengths the constructor can give for this DFT size: L = D, and D - 1 under padding to a power of two
            # (frame length and DFT size then differ in parity)
            Ls = [D] + ([D - 1] if D >= 4 and D & (D - 1) == 0 else [])
            for L in Ls:
                cfgs.append(dict(kind='walk', name='walk D%d%s %s' % (D, '' if L == D else ' L%d' % L, 'real' if real else 'complex'), D=D, L=L, real=real))
    grid = [(4, 2), (5, 2), (5, 3), (6, 3), (4, 4), (5, 5), (7, 3)] if tier == 'quick' else \
        [(2, 1), (2, 2), (3, 2), (3, 3), (4, 1), (4, 2), (4, 3), (4, 4), (5, 2), (5, 3), (5, 5), (6, 3), (6, 4), (7, 2), (7, 3), (7, 7), (8, 3), (9, 4)]
    # kaldi_shift is documented to matter for centered frames only: causal + kaldi_shift at two grid points
    extra = [((L, S), ('causal', True)) for (L, S) in ((5, 2), (7, 3))]
    # frame shifts beyond twice the frame length: signals of at least frame_length samples that still yield no frame
    extra += [((L, S), sk) for (L, S) in ((2, 6), (3, 7)) for sk in (('causal', False), ('centered', False), ('centered', True))]
    for (L, S), (style, kaldi) in list(itertools.product(grid, [('causal', False), ('centered', False), ('centered', True)])) + extra:
        cfgs.append(dict(kind='frames', name='frames L%d S%d %s%s' % (L, S, style, '+kaldi' if kaldi else ''), L=L, S=S, style=style,
                         kaldi=kaldi, NMAX=(3 if tier == 'quick' else 4) * L))
    cfgs.append(dict(kind='flow', name='flow'))
    cfgs.append(dict(kind='wrappers', name='wrappers'))
    cfgs.append(dict(kind='params', name='from_stft_frame_computer parameter transfer'))
    return cfgs


# ------------------------------------------------------------------ framing differential (torch vs NumPy compute_full)

def run_frames(cfg):
    L, S, style, kaldi, NMAX = cfg['L'], cfg['S'], cfg['style'], cfg['kaldi'], cfg['NMAX']
    ns, fn = load_torch()
    nsn = sc.load_compute()
    viol, samples = [], []
    ob = dis = 0
    reached = False

    def body():
        c = Ctx.cur
        N = z3.Int('N')
        ie = z3.Bool('include_energy')
        c.inputs = [N]
        c.assume(N >= 0, N <= NMAX)
        # the property speaks about signals of at least frame_length samples and about signals shorter than
        # frame_length//2+1; lengths in between are left unspecified (the torch port cannot reflect more than once)
        c.assume(z3.Or(N >= L, N < L // 2 + 1))
        inc = decide(ie)
        SegProd.segs = []
        TFFT.last = None
        filt = TFilt(1, lambda j: j)
        try:
            out = fn(tsig(SInt(N)), [filt, filt], [0, 0], L, S, style == 'centered', None, L, False, False, inc, kaldi, True)
            frames_t = TFFT.last[0].rows() if TFFT.last is not None else []
        except Exception as e:
            symex.guard(e)
            return ('exception', 'torch: %s: %s' % (type(e).__name__, e))
        o, fr = sc.mk_stft(nsn, L, S, style, kaldi, 'A')
        o._include_energy = inc
        o._bank = sc._Bank(2)
        res = o.compute_full(sc.sig(z3.IntVal(0), SInt(N)))
        return ('ok', N, frames_t, fr, out, res, inc)

    for ctx, res in explore(body):
        if res is None:
            continue
        ob += 1
        base = dict(kind='frames', L=L, S=S, style=style, kaldi=kaldi)
        m = ctx.model()
        Nv = m.eval(z3.Int('N'), True).as_long()
        if res[0] == 'exception':
            viol.append(dict(base, what='exception', detail=res[1], N=Nv, include_energy=z3.is_true(m.eval(z3.Bool('include_energy'), True))))
            continue
        _, N, ft, fnp, out, resn, inc = res
        base['include_energy'] = inc
        # shapes: torch (rows, cols) vs numpy (rows, cols)
        t_rows = out.rows if out.rows is not None else len(ft)
        t_cols = out.cols
        n_rows, n_cols = resn.shape
        s = ctx.solver
        bad = [_z(t_rows) != _z(n_rows), _z(t_cols) != _z(n_cols), z3.BoolVal(len(ft) != len(fnp))]
        if len(ft) == len(fnp):
            for a, b in zip(ft, fnp):
                for p, q in zip(a, b):
                    if not p.eq(q):
                        bad.append(p != q)
        reached = reached or bool(fnp)
        s.push()
        s.add(z3.Or(bad))
        r = check_sat(s)
        if r == 'sat':
            mm = s.model()
            Nw = mm.eval(z3.Int('N'), True).as_long()
            what = 'shape' if (len(ft) != len(fnp) or not ft) else 'frames'
            viol.append(dict(base, what=what, N=Nw, detail='torch %s x %s, numpy %s x %s' % (t_rows, t_cols, n_rows, n_cols)))
        else:
            dis += 1
            if len(samples) < 1 and ft:
                samples.append({'config': cfg['name'], 'N': Nv, 'frames': len(ft), 'last_frame_torch': [str(t) for t in ft[-1]]})
        s.pop()
    for w in viol:
        w['class'] = 'frames/%s/%s/%s' % (w['what'], 'short' if w['N'] < L // 2 + 1 else 'long', 'energy' if w.get('include_energy') else 'noenergy')
    return dict(obligations=ob, discharged=dis, violations=viol, samples=samples, twin=reached)


# ------------------------------------------------------------------ pairing walk of the torch port

def run_walk(cfg):
    D, real = cfg['D'], cfg['real']
    L = cfg.get('L', D)
    half_len = D // 2 + 1
    ns, fn = load_torch()
    viol = []
    ob = dis = 0
    reached = False

    def body():
        c = Ctx.cur
        start, tl = z3.Int('start'), z3.Int('tl')
        if real:
            c.assume(start >= 0, tl >= 1, start + tl <= half_len)
        else:
            c.assume(start >= 0, start < D, tl >= 1, tl <= D)
        SegProd.segs = []
        filt = TFilt(SInt(tl), lambda j: j)
        N = L + 2
        try:
            fn(tsig(N), [filt], [SInt(start)], L, L, False, None, D, False, True, False, False, real)
        except Exception as e:
            symex.guard(e)
            return ('exception', '%s: %s' % (type(e).__name__, e))
        return ('ok', start, tl, list(SegProd.segs))

    for ctx, res in explore(body):
        if res is None:
            continue
        ob += 1
        base = dict(kind='walk', D=D, L=L, real=real)
        if res[0] == 'exception':
            m = ctx.model()
            viol.append(dict(base, what='exception', detail=res[1], start=m.eval(z3.Int('start'), True).as_long(), tl=m.eval(z3.Int('tl'), True).as_long()))
            continue
        _, start, tl, segs = res
        reached = True
        s = ctx.solver
        tot = z3.Sum([_z(g.n) for g in segs]) if segs else z3.IntVal(0)
        t = z3.Int('t')
        bad = [tot != tl]
        pref = z3.IntVal(0)
        for g in segs:
            b, tap = g.get(t)
            k = (start + tap) % D
            mm = z3.If(k < half_len, k, D - k)
            bad.append(z3.And(t >= 0, t < _z(g.n), z3.Or(tap != pref + t, b != mm)))
            pref = pref + _z(g.n)
        s.push()
        s.add(z3.Or(bad))
        r = check_sat(s)
        if r == 'sat':
            m = s.model()
            viol.append(dict(base, what='pairing', start=m.eval(start, True).as_long(), tl=m.eval(tl, True).as_long()))
        else:
            dis += 1
        s.pop()
    for w in viol:
        w['class'] = 'walk/%s/%s/parity%d%d' % ('real' if real else 'complex', w['what'], half_len % 2, D % 2)
    return dict(obligations=ob, discharged=dis, violations=viol, samples=[{'config': cfg['name']}], twin=reached)


# ------------------------------------------------------------------ dataflow: energy / power / log floor / doubling

def run_flow(cfg):
    ns, fn = load_torch()
    viol = []
    ob = dis = 0
    L = 4          # sqrt(4) exact: the 1/sqrt(L) factor is a rational

    def body():
        c = Ctx.cur
        ul, up, ie, real = z3.Bool('use_log'), z3.Bool('use_power'), z3.Bool('include_energy'), z3.Bool('is_real')
        SegProd.segs = []
        inner = c02.INNER
        c.assume(inner >= 0, TLinalg.frames_norm >= 0, TLinalg.frames_norm * TLinalg.frames_norm == inner)
        flags = [decide(b) for b in (ul, up, ie, real)]
        filt = TFilt(2, lambda j: j)
        try:
            class Win:
                shape = (L,)
            out = fn(tsig(L), [filt, filt], [1, 1], L, 3, False, Win(), L, flags[0], flags[1], flags[2], False, flags[3])
        except Exception as e:
            symex.guard(e)
            return ('exception', '%s: %s' % (type(e).__name__, e))
        return ('ok', flags, out)

    for ctx, res in explore(body):
        if res is None:
            continue
        ob += 1
        if res[0] == 'exception':
            viol.append(dict(kind='flow', what='exception ' + res[1], **{'class': 'flow/exception'}))
            continue
        _, (ul, up, ie, real), out = res
        s = ctx.solver
        fl = rv(1e-5)

        def fin(v):
            return c02.LOG(z3.If(v >= fl, v, fl)) if ul else v
        want = []
        if ie:
            e = c02.INNER / L
            want.append(fin(e if up else symex.SQRT(e)))
        for f in range(2):
            sid = f + 1
            v = SEGV(z3.IntVal(sid), z3.IntVal(1)) if up else SEGV(z3.IntVal(sid), z3.IntVal(0))
            want.append(fin(2 * v if real else v))
        e = c02.INNER / L
        s.add(symex.SQRT(e) >= 0, symex.SQRT(e) * symex.SQRT(e) == e)
        for sid in (1, 2):
            q = SEGV(z3.IntVal(sid), z3.IntVal(1))
            s.add(q >= 0, symex.SQRT(q) >= 0, symex.SQRT(q) * symex.SQRT(q) == q)
        bad = [z3.BoolVal(out.cols != len(want))]
        if out.cols == len(want):
            for a, b in zip(out.terms, want):
                bad.append(rv(a) != b)
        flags = dict(use_log=ul, use_power=up, include_energy=ie, is_real=real)
        r, s2 = symex.nra_check(list(s.assertions()) + [z3.Or(bad)], timeout_ms=60000)
        if r == 'sat':
            viol.append(dict(kind='flow', what='dataflow', **flags, **{'class': 'flow/dataflow'}))
        elif r == 'unsat':
            dis += 1
        else:
            raise Inconclusive('flow query %s' % r)
    return dict(obligations=ob, discharged=dis, violations=viol, samples=[{'config': 'flow', 'paths': ob}], twin=ob > 0)


# ------------------------------------------------------------------ wrappers

def run_wrappers(cfg):
    """PyTorchPostProcessorWrapper._postprocessor_appy and PyTorchSIFrameComputer._compute_full on a tensor stub whose
    element count, rank and extents are symbolic (decisions forked by the solver): on EVERY path the result must be
    torch.tensor(<numpy routine>(sig.cpu().numpy()), device=sig.device, dtype=sig.dtype) -- in particular also for an
    empty tensor, whose post-processed shape is the post-processor's business."""
    ns = loader.load_unit('torch', name='pydrobert.speech.torch')
    log = []

    class FakeTorch:
        @staticmethod
        def tensor(data, device=None, dtype=None):
            log.append(('tensor', data, device, dtype))
            return ('T', data, device, dtype)

    class Dev:
        type = 'cpu'

    class Sig:
        device = Dev()
        dtype = 'float32'
        is_cuda = False

        def __init__(self):
            self.n0 = SInt(z3.Int('rows'))
            self.n1 = SInt(z3.Int('cols'))
            Ctx.cur.assume(z3.Int('rows') >= 0, z3.Int('cols') >= 0)

        @property
        def shape(self):
            return (self.n0, self.n1)

        def size(self, d=None):
            return self.shape if d is None else self.shape[d]

        def numel(self):
            return self.n0 * self.n1

        def nelement(self):
            return self.numel()

        def dim(self):
            return 2

        ndim = 2

        def __len__(self):
            return self.n0.__index__()

        def cpu(self):
            return self

        def detach(self):
            return self

        def numpy(self):
            return 'NUMPY(sig)'

    class Post:
        def apply(self, a, **kw):
            log.append(('apply', a, kw))
            return 'APPLY(%s)' % a

    class SI:
        def compute_full(self, a):
            log.append(('compute_full', a))
            return 'FULL(%s)' % a
    ns['torch'] = FakeTorch
    viol = []
    ob = dis = 0
    Wp = ns['PyTorchPostProcessorWrapper']
    Ws = ns['PyTorchShortIntegrationFrameComputer']

    def body(which):
        def f():
            sig = Sig()
            try:
                if which == 'post':
                    w = Wp.__new__(Wp)
                    w.__dict__['postprocessor'] = Post()
                    r = Wp._postprocessor_appy(w, sig)
                    want = ('T', 'APPLY(NUMPY(sig))', sig.device, 'float32')
                else:
                    w2 = Ws.__new__(Ws)
                    w2.__dict__['si_frame_computer'] = SI()
                    r = Ws._compute_full(w2, sig)
                    want = ('T', 'FULL(NUMPY(sig))', sig.device, 'float32')
            except Exception as e:
                symex.guard(e)
                return ('raised %s: %s' % (type(e).__name__, e),)
            if r is sig:
                return ('returned its input unprocessed',)
            if r != want:
                return ('result %r' % (r,),)
            return None
        return f

    for which in ('post', 'si'):
        for ctx, res in explore(body(which), max_paths=64):
            if ctx.aborted:
                continue
            ob += 1
            if res is None:
                dis += 1
                continue
            m = ctx.model()
            rows, cols = m.eval(z3.Int('rows'), True).as_long(), m.eval(z3.Int('cols'), True).as_long()
            viol.append(dict(kind='wrappers', which=which, rows=rows, cols=cols, what='%s wrapper %s (input of shape (%d, %d))' % (which, res[0][:120], rows, cols),
                             **{'class': 'wrappers/%s/%s' % (which, 'empty' if rows * cols == 0 else 'nonempty')}))
    return dict(obligations=ob, discharged=dis, violations=viol, samples=[{'config': 'wrappers', 'log': [str(x)[:80] for x in log[:4]]}], twin=dis > 0)


def run_params(cfg):
    """from_stft_frame_computer: every parameter of the functional port must come from the corresponding field of the
    NumPy computer.  A stub computer exposes the private fields AND the public properties consistently; the bank's
    is_real / is_analytic / is_zero_phase are varied independently (solver-forked booleans), so a parameter derived
    from the wrong property shows up.  The real classmethod and the real module constructor run unchanged."""
    import numpy as np
    ns = loader.load_unit('torch', name='pydrobert.speech.torch')
    cls = ns['PyTorchShortTimeFourierTransformFrameComputer']
    viol = []
    ob = dis = 0

    def body():
        flags = {k: decide(z3.Bool(k)) for k in ('use_log', 'use_power', 'include_energy', 'kaldi_shift', 'is_real', 'is_analytic', 'is_zero_phase', 'centered', 'padded')}
        dft = 8 if flags['padded'] else 6        # an unpadded computer has dft_size == frame_length (not a power of two here)

        class Bank:
            is_real = flags['is_real']
            is_analytic = flags['is_analytic']
            is_zero_phase = flags['is_zero_phase']
            num_filts = 2
            sampling_rate = 1000

        class Comp:
            _filt_start_idxs = [1, 3]
            _truncated_filts = [np.array([0.5, 0.25]), np.array([1.0, 0.5, 0.125])]
            frame_length = _frame_length = 6
            frame_shift = _frame_shift = 2
            frame_style = _frame_style = 'centered' if flags['centered'] else 'causal'
            _window = np.arange(1., 7.)
            _dft_size = dft
            _log = flags['use_log']
            _power = flags['use_power']
            _include_energy = includes_energy = flags['include_energy']
            _kaldi_shift = kaldi_shift = flags['kaldi_shift']
            _real = flags['is_real']
            bank = _bank = Bank()
            num_coeffs = 2 + int(flags['include_energy'])
            sampling_rate = 1000
            started = False
        try:
            m = cls.from_stft_frame_computer(Comp())
        except Exception as e:
            symex.guard(e)
            return ('exception', '%s: %s' % (type(e).__name__, e), flags)
        got = dict(use_log=m.use_log, use_power=m.use_power, include_energy=m.include_energy, kaldi_shift=m.kaldi_shift, is_real=m.is_real,
                   centered=m.centered)
        bad = [k for k in got if bool(got[k]) != flags[k]]
        if m.frame_length != 6 or m.frame_shift != 2 or m.dft_size != dft or tuple(m.offsets) != (1, 3):
            bad.append('geometry')
        if [list(map(float, f.detach().real.numpy())) for f in m.filters] != [[0.5, 0.25], [1.0, 0.5, 0.125]]:
            bad.append('filters')
        if list(map(float, m.window.detach().numpy())) != [1., 2., 3., 4., 5., 6.]:
            bad.append('window')
        return ('ok' if not bad else 'mismatch', bad, flags)

    for ctx, res in explore(body):
        if res is None:
            continue
        ob += 1
        if res[0] == 'ok':
            dis += 1
        else:
            viol.append(dict(kind='params', what='%s %s' % (res[0], res[1]), flags=res[2], **{'class': 'params/%s' % str(res[1])[:40]}))
    return dict(obligations=ob, discharged=dis, violations=viol, samples=[{'config': 'params', 'combinations': ob}], twin=dis > 0)


def run_config(cfg):
    return {'walk': run_walk, 'frames': run_frames, 'flow': run_flow, 'wrappers': run_wrappers, 'params': run_params}[cfg['kind']](cfg)


# ------------------------------------------------------------------ replay on real torch / numpy

def _replay_wrappers(w):
    """the real wrappers on real torch against the NumPy routines, with the witness shape (empty or not)"""
    import warnings
    import numpy as np
    import torch
    from pydrobert.speech.post import Deltas, Stack, Standardize
    from pydrobert.speech.torch import PyTorchPostProcessorWrapper, PyTorchSIFrameComputer
    from pydrobert.speech.compute import SIFrameComputer
    from pydrobert.speech.filters import GaborFilterBank
    rng = np.random.RandomState(14)
    rows, cols = w.get('rows', 3), max(w.get('cols', 4), 1)
    shapes = [(rows, cols), (0, cols), (7, cols)]
    try:
        with warnings.catch_warnings():
            warnings.simplefilter('ignore')
            if w.get('which', 'post') == 'post':
                for shp in shapes:
                    for post in (Deltas(2), Deltas(1, concatenate=False), Stack(3), Standardize(norm_var=False)):
                        for dt in (np.float32, np.float64):
                            x = rng.randn(*shp).astype(dt)
                            try:
                                want = post.apply(x)
                            except Exception:
                                continue
                            got = PyTorchPostProcessorWrapper(post)(torch.tensor(x)).numpy()
                            if got.shape != want.shape or not np.allclose(got, want.astype(dt), atol=1e-5):
                                return {'reproduced': True, 'detail': 'PyTorchPostProcessorWrapper(%s) on a %s tensor of shape %s gives shape %s; %s.apply gives %s' % (
                                    type(post).__name__, np.dtype(dt).name, shp, got.shape, type(post).__name__, want.shape)}
            else:
                si = SIFrameComputer(GaborFilterBank('mel', num_filts=4, sampling_rate=8000), frame_shift_ms=2)
                for n in (rows * cols, 0, 100):
                    x = rng.randn(n)
                    want = si.compute_full(x)
                    got = PyTorchSIFrameComputer(si)(torch.tensor(x)).numpy()
                    if got.shape != want.shape or not np.allclose(got, want, atol=1e-6):
                        return {'reproduced': True, 'detail': 'PyTorchSIFrameComputer on %d samples gives shape %s; compute_full gives %s' % (n, got.shape, want.shape)}
    except Exception as e:
        return {'reproduced': True, 'detail': 'real wrapper raised %s: %s' % (type(e).__name__, e)}
    return {'reproduced': False, 'detail': 'real wrappers equal the NumPy routines'}


def replay(w):
    import numpy as np
    import torch
    from pydrobert.speech.compute import STFTFrameComputer
    from pydrobert.speech.torch import PyTorchSTFTFrameComputer
    rng = np.random.RandomState(8)
    k = w['kind']
    if k == 'wrappers':
        return _replay_wrappers(w)
    if k == 'params':
        # a complex bank that is not analytic (support reaches below 0 Hz): Gabor at low_hz = 20
        from pydrobert.speech.filters import GaborFilterBank, TriangularOverlappingFilterBank
        worst = (0.0, None)
        for bank in (GaborFilterBank('mel', num_filts=4, sampling_rate=8000, low_hz=20), TriangularOverlappingFilterBank('mel', num_filts=4, sampling_rate=8000, analytic=True),
                     TriangularOverlappingFilterBank('mel', num_filts=4, sampling_rate=8000)):
            for fl in ({'use_log': True, 'use_power': False}, {'use_log': False, 'use_power': True}):
                for ie, ks, style, pad in ((True, True, 'centered', True), (False, False, 'causal', True), (True, False, 'centered', False), (False, True, 'causal', False)):
                    c = STFTFrameComputer(bank, frame_length_ms=8.5, frame_shift_ms=3, frame_style=style, include_energy=ie, kaldi_shift=ks, window_function='hamming',
                                          pad_to_nearest_power_of_two=pad, **fl)
                    t = PyTorchSTFTFrameComputer.from_stft_frame_computer(c, filter_type=torch.cdouble, window_type=torch.double)
                    xs = rng.randn(300)
                    with torch.no_grad():
                        a = t(torch.tensor(xs)).numpy()
                    b = c.compute_full(xs)
                    d = float(np.abs(a - b).max()) if a.shape == b.shape else float('inf')
                    if d > worst[0]:
                        worst = (d, '%s %s energy=%s kaldi=%s %s padded=%s (frame length %d, DFT size %d)' % (type(bank).__name__, fl, ie, ks, style, pad, c.frame_length, c._dft_size))
        return {'reproduced': worst[0] > 1e-6, 'detail': 'max |torch module - numpy computer| = %.3g (%s)' % worst}
    try:
        if k == 'walk':
            D, real, start, tl = w['D'], w['real'], w['start'], w['tl']
            taps = rng.rand(tl) + 0.5
            if real:
                for j in range(tl):
                    if start + j == 0 or 2 * (start + j) == D:
                        taps[j] = 0.0
            bank = c02._synthetic_bank(D, start, taps, real)
            Lw = w.get('L', D)
            c = STFTFrameComputer(bank, frame_length_ms=Lw + 0.5, frame_shift_ms=1.5, frame_style='causal', pad_to_nearest_power_of_two=(Lw != D),
                                  window_function='hamming', use_log=False, use_power=True)
            if c._dft_size != D or c.frame_length != Lw:
                return {'reproduced': False, 'detail': 'no real computer with frame length %d and DFT size %d' % (Lw, D)}
            xs = rng.randn(Lw + 3)
        elif k == 'frames':
            L, S, style, kaldi, N = w['L'], w['S'], w['style'], w['kaldi'], w['N']
            bank = c02._synthetic_bank(L, 1, np.array([0.7, 0.4])[:max(1, min(2, L // 2))], True)
            c = STFTFrameComputer(bank, frame_length_ms=L + 0.5, frame_shift_ms=S + 0.5, frame_style=style, kaldi_shift=kaldi,
                                  include_energy=w.get('include_energy', False), pad_to_nearest_power_of_two=False, window_function='hamming')
            xs = rng.randn(N)
        else:
            bank = c02._synthetic_bank(8, 1, np.array([0.7, 0.4]), w['is_real'])
            c = STFTFrameComputer(bank, frame_length_ms=8.5, frame_shift_ms=3.5, frame_style='causal', include_energy=w['include_energy'],
                                  pad_to_nearest_power_of_two=False, window_function='hamming', use_log=w['use_log'], use_power=w['use_power'])
            xs = rng.randn(8) * 1e-3
        t = PyTorchSTFTFrameComputer.from_stft_frame_computer(c, filter_type=torch.cdouble, window_type=torch.double)
        with torch.no_grad():
            a = t(torch.tensor(xs)).numpy()
        b = c.compute_full(xs)
    except Exception as e:
        return {'reproduced': True, 'detail': 'raised %s: %s' % (type(e).__name__, e)}
    if a.shape != b.shape:
        return {'reproduced': True, 'detail': '%s: torch shape %s != numpy shape %s' % ({x: w[x] for x in w if x not in ('class', 'detail')}, a.shape, b.shape)}
    d = float(np.abs(a - b).max()) if a.size else 0.0
    return {'reproduced': d > 1e-8, 'detail': 'max |torch - numpy| = %.3g for %s' % (d, {x: w[x] for x in w if x not in ('class', 'detail')})}


def conformance(tier, seed, results):
    """torch-lite shim vs real torch on concrete data: cat/flip/as_strided framing"""
    import numpy as np
    import torch
    n = 0
    for L, S, pl, pr, N in ((5, 2, 2, 3, 9), (4, 4, 0, 1, 7), (6, 3, 2, 4, 11)):
        xs = torch.arange(1., N + 1)
        pad = torch.cat([xs[:pl].flip(0), xs, xs[N - pr:].flip(0)])
        nf = (len(pad) - L) // S + 1
        real = pad.as_strided((nf, L), (S, 1)).numpy()

        def body():
            t = TSig(N, lambda i: z3.ToReal(i + 1), 'f8')
            p = TorchLite.cat([t[:pl].flip(0), t, t[N - pr:].flip(0)])
            return p.as_strided((nf, L), (S, 1)).rows()
        rows = [r for _, r in explore(body)][0]
        got = np.array([[float(z3.simplify(v).as_fraction()) for v in row] for row in rows])
        assert np.array_equal(got, real), ('torch-lite framing', L, S)
        n += 1
    return n
