"""C15 -- Deltas and Stack produce the documented layout and values (DESIGN 3/C15)."""
import itertools
import random
from fractions import Fraction

import numpy as np
import z3

from vlib import loader
from checks import objarr
from checks.objarr import Sym, sym, NPProxy, differs, rq

PID = 'C15'
LEVEL = 'model_checking'
FUNCTIONS = ['post:Deltas.__init__', 'post:Deltas.apply', 'post:Stack.__init__', 'post:Stack.apply']
EXPLANATION = (
    'The real Deltas.apply / Stack.apply run on real NumPy object arrays whose elements are z3 real terms (shapes, axes '
    'and parameters concrete per configuration, values symbolic), so NumPy itself performs every reshape / transpose / '
    'strided slice. For every configuration z3 decides, for ALL values, that each output element equals the '
    'specification written from the Kaldi delta definition (composite regression filter applied to the edge-extended '
    'original sequence; tolerant LRA form because the taps are doubles) resp. the documented stacking layout, that the '
    'output dtype is the input dtype, and that the input array is left untouched. Solver over values, enumeration over shapes.')
BOUNDS = {
    'quick': 'rank 1-3, extents 0-4 (incl. singleton and empty non-filtered axes), every axis / target_axis / time_axis value incl. negatives, '
             'num_deltas 0-2, context_window 1-2, pad modes edge/constant/reflect/symmetric/linear_ramp/mean, num_vectors 1-4, pad_mode None/edge/constant/wrap/symmetric/reflect, float32/float64 (Deltas with edge/linear_ramp/mean also int16): '
             'seeded covering sample of the grid (about 700 configurations)',
    'thorough': 'rank 1-4, extents 0-5, num_deltas 0-3, context_window 1-3: about 6000 configurations',
}
OUTSIDE = ['extents beyond the bound', 'the rounding of the final cast back to an integer dtype (values are compared before that cast; the rounding np.pad applies to fill values it computes in an integer dtype is modelled as PADROUND_<dtype>)', 'integer dtypes for Stack', 'floating-point round-off (tolerant comparison 1e-9 over [-1,1]^n)']
ASSUMPTIONS = ['np.correlate(a, v, "full")[k] = sum_j a[j] v[j-k+m-1] (NumPy definition, used to evaluate the correlation on terms)',
               'np.pad on object arrays moves elements exactly as on numeric arrays (it is the same NumPy code)']
CONFIG_TIME_LIMIT = {'quick': 600, 'thorough': 3000}


def load():
    return loader.load_unit('post', dict(np=NPProxy()), name='post_under_test')


# ------------------------------------------------------------------ specifications

def ext_index(t, n, mode):
    """index map of np.pad for the given mode (None = constant zero)"""
    if 0 <= t < n:
        return t
    if mode == 'edge':
        return min(max(t, 0), n - 1)
    if mode == 'constant':
        return None
    if mode == 'symmetric':
        q = t % (2 * n)
        return 2 * n - 1 - q if q >= n else q
    if mode == 'reflect':
        if n == 1:
            return 0
        p = 2 * (n - 1)
        q = t % p
        return p - q if q >= n else q
    raise ValueError(mode)


def delta_scales(num_deltas, W):
    Z = sum(t * t for t in range(-W, W + 1))
    base = [Fraction(t, Z) for t in range(-W, W + 1)]
    scales = [[Fraction(1)]]
    for k in range(1, num_deltas + 1):
        prev = scales[-1]
        new = [Fraction(0)] * (len(prev) + 2 * W)
        for a, va in enumerate(prev):
            for b, vb in enumerate(base):
                new[a + b] += va * vb
        scales.append(new)
    return scales


def spec_deltas(x, axis, num_deltas, W, mode, target_axis, concatenate):
    xo = x.raw()
    r = xo.ndim
    ax = axis % r
    n = xo.shape[ax]
    parts = [xo]
    scales = delta_scales(num_deltas, W)
    for k in range(1, num_deltas + 1):
        sc = scales[k]
        half = k * W
        out = np.empty(xo.shape, dtype=object)
        for idx in np.ndindex(*xo.shape):
            t = idx[ax]
            s = z3.RealVal(0)
            for j in range(-half, half + 1):
                if mode == 'mean' and not (0 <= t + j < n):
                    # np.pad(..., 'mean'): the mean of the whole vector along the axis
                    mu = z3.RealVal(0)
                    for q_ in range(n):
                        mu = mu + rq(xo[idx[:ax] + (q_,) + idx[ax + 1:]])
                    s = s + rq(sc[j + half]) * (mu / z3.RealVal(n))
                    continue
                if mode == 'linear_ramp' and not (0 <= t + j < n):
                    # np.pad(..., half, 'linear_ramp'): the ramp runs from 0 (end value) to the edge sample over the pad
                    # width, which for delta order k is k * context_window
                    if t + j < 0:
                        e_ = xo[idx[:ax] + (0,) + idx[ax + 1:]]
                        s = s + rq(sc[j + half]) * rq(e_) * z3.Q(t + j + half, half)
                    else:
                        e_ = xo[idx[:ax] + (n - 1,) + idx[ax + 1:]]
                        s = s + rq(sc[j + half]) * rq(e_) * z3.Q(half - 1 - (t + j - n), half)
                    continue
                src = ext_index(t + j, n, mode)
                if src is None:
                    continue
                sidx = idx[:ax] + (src,) + idx[ax + 1:]
                s = s + rq(sc[j + half]) * xo[sidx]
            out[idx] = s
        parts.append(out)
    if concatenate:
        return np.concatenate(parts, target_axis)
    return np.stack(parts, target_axis)


def spec_stack(x, axis, time_axis, V, pad_mode):
    xo = x.raw()
    r = xo.ndim
    ax, ta = axis % r, time_axis % r
    T, F = xo.shape[ta], xo.shape[ax]
    Tp = T + ((-T) % V if pad_mode is not None else 0)
    nT = Tp // V
    shape = list(xo.shape)
    shape[ta] = nT
    shape[ax] = F * V
    out = np.empty(shape, dtype=object)
    for idx in np.ndindex(*shape):
        tt, ff = idx[ta], idx[ax]
        src_t = tt * V + ff // F
        src = list(idx)
        src[ax] = ff % F
        if src_t < T:
            src[ta] = src_t
            out[idx] = xo[tuple(src)]
        elif pad_mode == 'edge':
            src[ta] = T - 1
            out[idx] = xo[tuple(src)]
        elif pad_mode == 'wrap':
            src[ta] = src_t % T           # np.pad(..., 'wrap'): continues with the first frames of the whole utterance
            out[idx] = xo[tuple(src)]
        elif pad_mode in ('symmetric', 'reflect'):
            src[ta] = ext_index(src_t, T, pad_mode)
            out[idx] = xo[tuple(src)]
        else:
            out[idx] = z3.RealVal(0)
    return out


# ------------------------------------------------------------------ configuration grids

def _shapes(rank, maxe):
    base = {1: [(0,), (1,), (2,), (4,)], 2: [(3, 2), (1, 3), (4, 1), (2, 0), (0, 2), (2, 4)],
            3: [(2, 3, 2), (1, 2, 3), (2, 1, 1), (3, 2, 0), (2, 2, 2)], 4: [(2, 1, 2, 2), (1, 2, 2, 3)]}[rank]
    if maxe > 4:
        base = base + {1: [(5,)], 2: [(5, 2), (3, 5)], 3: [(2, 5, 2)], 4: [(2, 2, 3, 2)]}[rank]
    return base


def delta_grid(tier, seed):
    rnd = random.Random(seed * 7919 + 15)
    ranks = (1, 2, 3) if tier == 'quick' else (1, 2, 3, 4)
    full = []
    for r in ranks:
        for shape in _shapes(r, 4 if tier == 'quick' else 5):
            for axis in range(-r, r):
                if shape[axis % r] == 0:
                    continue
                for conc_ in (True, False):
                    tr = range(-r, r) if conc_ else range(-(r + 1), r + 1)
                    for ta in tr:
                        for nd_ in ((0, 1, 2) if tier == 'quick' else (0, 1, 2, 3)):
                            for W in ((1, 2) if tier == 'quick' else (1, 2, 3)):
                                for mode in ('edge', 'constant', 'reflect', 'symmetric', 'linear_ramp', 'mean'):
                                    # integer features: the regression is still computed in float64 (also the edge
                                    # extension), only the result is cast back
                                    for ld in (('f8', 'f4', 'i2') if mode in ('edge', 'linear_ramp', 'mean') else ('f8', 'f4')):
                                        full.append(dict(op='deltas', shape=shape, axis=axis, target_axis=ta, concatenate=conc_,
                                                         num_deltas=nd_, W=W, mode=mode, ld=ld))
    want = 420 if tier == 'quick' else 4000
    # always keep the pairwise-critical corner: every (rank, axis, target_axis, concatenate) at least once
    key = lambda c: (len(c['shape']), c['axis'], c['target_axis'], c['concatenate'])
    rnd.shuffle(full)
    chosen, seen = [], set()
    for c in full:
        if key(c) not in seen and c['num_deltas'] >= 1:
            seen.add(key(c))
            chosen.append(c)
    cnt = {}
    for c in chosen:
        cnt[(c['mode'], c['ld'])] = cnt.get((c['mode'], c['ld']), 0) + 1
    for c in full:      # every (pad mode, dtype) pair at least 4 times with a filtered block
        k2 = (c['mode'], c['ld'])
        if cnt.get(k2, 0) < 4 and c['num_deltas'] >= 1 and c not in chosen:
            cnt[k2] = cnt.get(k2, 0) + 1
            chosen.append(c)
    for c in full:
        if len(chosen) >= want:
            break
        if c not in chosen:
            chosen.append(c)
    return chosen


def stack_grid(tier, seed):
    rnd = random.Random(seed * 104729 + 15)
    ranks = (2, 3) if tier == 'quick' else (2, 3, 4)
    full = []
    for r in ranks:
        for shape in _shapes(r, 4 if tier == 'quick' else 5) + ([(4, 2), (2, 2), (6, 1)] if r == 2 else [(4, 2, 2), (1, 4, 2)] if r == 3 else []):
            for axis in range(-r, r):
                for ta in range(-r, r):
                    if axis % r == ta % r:
                        continue
                    for V in (1, 2, 3, 4):
                        for pm in (None, 'edge', 'constant', 'wrap', 'symmetric', 'reflect'):
                            if pm in ('edge', 'wrap', 'symmetric', 'reflect') and shape[ta % r] == 0:
                                continue
                            if pm == 'reflect' and shape[ta % r] == 1:
                                continue
                            for ld in ('f8', 'f4'):
                                full.append(dict(op='stack', shape=shape, axis=axis, time_axis=ta, V=V, pad_mode=pm, ld=ld))
    rnd.shuffle(full)
    want = 300 if tier == 'quick' else 2500
    key = lambda c: (len(c['shape']), c['axis'], c['time_axis'], c['pad_mode'], c['shape'][c['time_axis'] % len(c['shape'])] % c['V'] == 0)
    chosen, seen = [], set()
    for c in full:
        if key(c) not in seen:
            seen.add(key(c))
            chosen.append(c)
    for c in full:
        if len(chosen) >= want:
            break
        if c not in chosen:
            chosen.append(c)
    return chosen


def configs(tier, seed):
    items = delta_grid(tier, seed) + stack_grid(tier, seed)
    nchunk = 32
    chunks = [items[i::nchunk] for i in range(nchunk)]
    return [dict(kind='chunk', name='chunk %02d (%d configurations)' % (i, len(ch)), items=ch) for i, ch in enumerate(chunks) if ch]


def check_one(ns, c):
    """returns None if the property holds for all values in this configuration, else a witness dict"""
    x = sym(tuple(c['shape']), ld=c['ld'])
    before = x.raw().copy()
    xs = [v for v in before.ravel()]
    try:
        if c['op'] == 'deltas':
            d = ns['Deltas'](c['num_deltas'], target_axis=c['target_axis'], concatenate=c['concatenate'], context_window=c['W'], pad_mode=c['mode'])
            y = d.apply(x, axis=c['axis'])
            want = spec_deltas(x, c['axis'], c['num_deltas'], c['W'], c['mode'], c['target_axis'], c['concatenate'])
            tol = '1/1000000000'
        else:
            st = ns['Stack'](c['V'], time_axis=c['time_axis'], pad_mode=c['pad_mode'])
            y = st.apply(x, axis=c['axis'])
            want = spec_stack(x, c['axis'], c['time_axis'], c['V'], c['pad_mode'])
            tol = None
    except Exception as e:
        if isinstance(e, z3.Z3Exception):
            raise
        return dict(c, what='exception %s: %s' % (type(e).__name__, e))
    if not isinstance(y, np.ndarray):
        return dict(c, what='result is not an array')
    yd = y.dtype if isinstance(y, Sym) else None
    if tuple(y.shape) != tuple(want.shape):
        return dict(c, what='shape %s, documented %s' % (tuple(y.shape), tuple(want.shape)))
    if yd is not None and np.dtype(yd) != np.dtype(c['ld']):
        return dict(c, what='dtype %s, input dtype %s' % (yd, c['ld']))
    r = differs(y, want, xs, tol)
    if r == 'sat':
        return dict(c, what='values')
    if r != 'unsat':
        from vlib.symex import Inconclusive
        raise Inconclusive('solver: %s' % r)
    after = x.raw()
    if any(a is not b for a, b in zip(after.ravel(), before.ravel())):
        return dict(c, what='input modified')
    return None


def run_config(cfg):
    ns = load()
    viol, samples = [], []
    ob = dis = 0
    q0, s0 = objarr.STATS['queries'], objarr.STATS['solver_s']
    for c in cfg['items']:
        ob += 1
        w = check_one(ns, c)
        if w is None:
            dis += 1
            if len(samples) < 1:
                samples.append({'configuration': {k: (list(v) if isinstance(v, tuple) else v) for k, v in c.items()}, 'result': 'equal to the specification for all values (unsat)'})
        else:
            w['kind'] = c['op']
            w['shape'] = list(w['shape'])
            if c['op'] == 'deltas':
                w['class'] = 'deltas/%s/conc=%s/ta%s' % (w['what'].split()[0], c['concatenate'], 'neg' if c['target_axis'] < 0 else 'pos')
            else:
                T = c['shape'][c['time_axis'] % len(c['shape'])]
                w['class'] = 'stack/%s/pad=%s/rem0=%s/rank%d' % (w['what'].split()[0], c['pad_mode'], T % c['V'] == 0, len(c['shape']))
            viol.append(w)
    return dict(obligations=ob, discharged=dis, violations=viol, samples=samples, twin=dis > 0, paths=ob, branches=ob,
                queries=objarr.STATS['queries'] - q0, solver_s=objarr.STATS['solver_s'] - s0)


def replay(w):
    from pydrobert.speech.post import Deltas, Stack
    rng = np.random.RandomState(4)
    shape = tuple(w['shape'])
    ld = np.dtype(w['ld'])
    if ld.kind in 'iu':
        return _replay_int(w, ld)
    xv = (rng.randn(*shape) if np.prod(shape) else np.zeros(shape)).astype(ld)
    xs = sym(shape)
    # evaluate the specification numerically through the same spec code, substituting values
    subst = {str(t): float(v) for t, v in zip(xs.raw().ravel(), xv.astype(np.float64).ravel())}

    def ev(t):
        if not isinstance(t, z3.ExprRef):
            return float(t)
        m = z3.simplify(z3.substitute(t, *[(z3.Real(k), rq(v)) for k, v in subst.items()]))
        return float(m.as_fraction()) if z3.is_rational_value(m) else float(m.approx(20).as_fraction())
    orig = xv.copy()
    xv.setflags(write=False)
    try:
        if w['kind'] == 'deltas':
            got = Deltas(w['num_deltas'], target_axis=w['target_axis'], concatenate=w['concatenate'], context_window=w['W'], pad_mode=w['mode']).apply(xv, axis=w['axis'])
            want = spec_deltas(xs, w['axis'], w['num_deltas'], w['W'], w['mode'], w['target_axis'], w['concatenate'])
        else:
            got = Stack(w['V'], time_axis=w['time_axis'], pad_mode=w['pad_mode']).apply(xv, axis=w['axis'])
            want = spec_stack(xs, w['axis'], w['time_axis'], w['V'], w['pad_mode'])
    except Exception as e:
        return {'reproduced': True, 'detail': 'real %s raised %s: %s' % (w['kind'], type(e).__name__, e)}
    if tuple(got.shape) != tuple(want.shape):
        return {'reproduced': True, 'detail': '%s: real shape %s, documented %s' % (w['kind'], got.shape, want.shape)}
    if got.dtype != ld:
        return {'reproduced': True, 'detail': 'real dtype %s, input %s' % (got.dtype, ld)}
    wv = np.vectorize(ev, otypes=[float])(want) if want.size else np.zeros(want.shape)
    d = float(np.abs(got.astype(np.float64) - wv).max()) if got.size else 0.0
    tol = 1e-4 if ld == np.float32 else 1e-9
    if d > tol:
        return {'reproduced': True, 'detail': '%s %s: max |real - documented| = %.3g' % (w['kind'], {k: v for k, v in w.items() if k not in ('class', 'what')}, d)}
    if not np.array_equal(xv, orig):
        return {'reproduced': True, 'detail': 'input modified'}
    return {'reproduced': False, 'detail': 'real post-processor matches (max diff %.3g)' % d}


def _replay_int(w, ld):
    """integer features: the documented value is the float64 regression (edge extension included) cast back to the
    integer type (truncation).  Elements whose float64 value lies within 1e-6 of an integer are not compared."""
    from pydrobert.speech.post import Deltas
    assert w['kind'] == 'deltas'
    shape = tuple(w['shape'])
    xs = sym(shape)
    want_t = spec_deltas(xs, w['axis'], w['num_deltas'], w['W'], w['mode'], w['target_axis'], w['concatenate'])
    rng = np.random.RandomState(15)
    for trial in range(25):
        xv = rng.randint(-300, 300, size=shape).astype(ld)
        sub = [(t, rq(int(v))) for t, v in zip(xs.raw().ravel(), xv.ravel())]
        orig = xv.copy()
        xv.setflags(write=False)
        try:
            got = Deltas(w['num_deltas'], target_axis=w['target_axis'], concatenate=w['concatenate'], context_window=w['W'], pad_mode=w['mode']).apply(xv, axis=w['axis'])
        except Exception as e:
            return {'reproduced': True, 'detail': 'real deltas raised %s: %s' % (type(e).__name__, e)}
        if tuple(got.shape) != tuple(want_t.shape):
            return {'reproduced': True, 'detail': 'deltas: real shape %s, documented %s' % (got.shape, want_t.shape)}
        if got.dtype != ld:
            return {'reproduced': True, 'detail': 'real dtype %s, input %s' % (got.dtype, ld)}
        for idx in np.ndindex(*want_t.shape):
            t = want_t[idx]
            v = z3.simplify(z3.substitute(t, *sub)) if isinstance(t, z3.ExprRef) else rq(t)
            f = v.as_fraction()
            if abs(f - round(f)) < Fraction(1, 10 ** 6):
                continue
            exp = int(f)      # truncation toward zero, the float64 -> integer cast
            if int(got[idx]) != exp:
                return {'reproduced': True, 'detail': 'deltas %s on %s data %s: element %s is %d, the float64 regression cast to %s gives %d (%.6f)' % (
                    {k: v_ for k, v_ in w.items() if k not in ('class', 'what', 'kind', 'shape', 'ld')}, ld, xv.tolist(), idx, int(got[idx]), ld, exp, float(f))}
        if not np.array_equal(xv, orig):
            return {'reproduced': True, 'detail': 'input modified'}
    return {'reproduced': False, 'detail': 'real Deltas matches the float64 regression cast back on 25 integer arrays'}


def conformance(tier, seed, results):
    """the object-array encoding is validated by running the SAME real functions on numeric arrays and comparing with
    the symbolic result evaluated at those numbers (np.pad index maps, correlate definition, logical dtype)."""
    from pydrobert.speech.post import Deltas, Stack
    ns = load()
    rng = np.random.RandomState(seed)
    n = 0
    for mode in ('edge', 'constant', 'reflect', 'symmetric'):
        for nlen in (1, 2, 3, 5):
            for pw in (1, 3, 7):
                a = np.arange(nlen)
                got = np.pad(a, (pw, pw), mode)
                want = [a[ext_index(t, nlen, mode)] if ext_index(t, nlen, mode) is not None else 0 for t in range(-pw, nlen + pw)]
                assert list(got) == want, ('np.pad index map', mode, nlen, pw)
                n += 1
    for (shape, axis), pm in itertools.product((((4, 3), 0), ((2, 3, 2), 1), ((5,), 0)), ('edge', 'linear_ramp')):
        xs = sym(shape)
        xv = rng.randn(*shape)
        sub = [(t, rq(float(v))) for t, v in zip(xs.raw().ravel(), xv.ravel())]
        ys = ns['Deltas'](2, context_window=2, pad_mode=pm).apply(xs, axis=axis)
        yr = Deltas(2, context_window=2, pad_mode=pm).apply(xv, axis=axis)
        yv = np.vectorize(lambda t: float(z3.simplify(z3.substitute(t, *sub)).as_fraction()), otypes=[float])(ys.raw())
        assert yv.shape == yr.shape and np.allclose(yv, yr, atol=1e-12), ('object-array Deltas vs numeric', shape)
        n += 1
    return n
