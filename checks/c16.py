"""C16 -- Standardize normalises with exactly the statistics it was given (DESIGN 3/C16)."""
import itertools
import random
import warnings

import numpy as np
import z3

from vlib import loader, symex
from vlib.symex import Ctx, decide, explore, check_sat, Inconclusive
from checks import objarr
from checks.objarr import Sym, sym, NPProxy, differs, rq, USQRT

PID = 'C16'
LEVEL = 'model_checking'
FUNCTIONS = ['post:Standardize.accumulate', 'post:Standardize._accumulate_vector', 'post:Standardize._accumulate_tensor',
             'post:Standardize.apply', 'post:Standardize._apply_vector', 'post:Standardize._apply_tensor', 'post:Standardize.have_stats']
EXPLANATION = (
    'The real accumulate/apply methods run on NumPy object arrays of z3 real terms (shapes concrete, values symbolic). '
    'Additivity: the sufficient statistics after accumulating any split (along any axis, in any order, as tensors or '
    'vector by vector) are shown equal, for all values, to those of one accumulation of the whole. apply: with those '
    'statistics the result equals (x - mean) * rho with rho = 1/SQRT(E[x^2] - mean^2) (SQRT uninterpreted, same on both '
    'sides; the zero-variance replacement is a solver-decided fork on |var| <= 1e-8) or x - mean; without statistics a '
    'tensor is standardised with its own moments. Result dtype float64, ValueError on a wrong feature dimension, input '
    'untouched unless in_place on float64. Arithmetic carried out in a dtype narrower than float64 is wrapped in an '
    'uninterpreted NARROW_<dtype>, so precision lost in an intermediate is visible in the terms.')
BOUNDS = {'quick': 'rank 1-3, extents 1-3, every axis (incl. negative), dtypes float64/float32/int16, norm_var on/off, in_place on/off, 2 splits per axis + reversed order + vector-wise: about 500 obligations; dimension mismatch: statistics of 1-3 coefficients against inputs of every other width 1-4 (vectors, tensors of rank 2-3, every axis, both in_place settings); apply -> accumulate(vector) -> apply sequences',
          'thorough': 'extents up to 4, 3-way splits'}
OUTSIDE = ['floating-point cancellation (E[x^2] - mean^2 negative by round-off)', 'extents beyond the bound',
           'that the standardised output has variance exactly 1 follows from rho^2 * var = 1 (SQRT axiom), not re-derived numerically']
ASSUMPTIONS = ['NumPy promotion rules for the logical dtype of intermediates (python scalars weak)', 'np.isclose(a, b) == (|a - b| <= 1e-8 + 1e-5 |b|) (NumPy defaults); each call is a Boolean fork keyed by the canonical polynomials of its arguments, its arithmetic meaning is used only to turn a stage-1 counterexample into concrete data']
CONFIG_TIME_LIMIT = {'quick': 600, 'thorough': 3000}


def zero_flag(term):
    """np.isclose(term, 0) as a path decision.  The outcome is a Boolean keyed by the canonical (sum-of-monomials)
    form of the term: both outcomes are explored without asking the arithmetic solver whether |term| <= 1e-8 is
    feasible (a sound over-approximation: the property is demanded on both branches), and the specification, which
    builds the same polynomial, gets the same Boolean."""
    t = z3.simplify(rq(term), som=True)
    if z3.is_rational_value(t):
        f = t.as_fraction()
        return abs(f) <= 1e-8
    b = z3.Bool('isclose0!%s' % t.sexpr())
    FLAGDEFS[b.get_id()] = (b, _abs(t) <= rq(1e-8))
    return decide(b)


FLAGDEFS = {}     # flag Boolean -> its arithmetic meaning; only consulted to turn a stage-1 counterexample into concrete data


def _abs(t):
    return z3.If(t >= 0, t, -t)


def close_flag(a, b):
    """np.isclose(a, b) with NumPy's defaults, |a - b| <= 1e-8 + 1e-5 |b|, as a path decision (see zero_flag)"""
    ta, tb = z3.simplify(rq(a), som=True), z3.simplify(rq(b), som=True)
    if z3.is_rational_value(tb) and tb.as_fraction() == 0:
        return zero_flag(ta)
    if z3.is_rational_value(ta) and z3.is_rational_value(tb):
        fa, fb = ta.as_fraction(), tb.as_fraction()
        return abs(fa - fb) <= 1e-8 + 1e-5 * abs(fb)
    bl = z3.Bool('isclose!%s!%s' % (ta.sexpr(), tb.sexpr()))
    FLAGDEFS[bl.get_id()] = (bl, _abs(ta - tb) <= rq(1e-8) + rq(1e-5) * _abs(tb))
    return decide(bl)


def cmp_flag(t):
    """a comparison between value terms (varss <= 0, ...) as a path decision keyed by the term, like the isclose flags:
    both outcomes are explored without an arithmetic feasibility query; stage 2 gives the flag its meaning"""
    t = z3.simplify(t)
    if z3.is_true(t) or z3.is_false(t):
        return z3.is_true(t)
    b = z3.Bool('cmp!%s' % t.sexpr())
    FLAGDEFS[b.get_id()] = (b, t)
    return decide(b)


objarr.BOOL_DECIDE[0] = cmp_flag


class NPP(NPProxy):
    @staticmethod
    def isclose(a, b, **kw):
        if kw:
            raise symex.Unsupported('np.isclose with non-default tolerances')
        ra = a.raw() if isinstance(a, Sym) else np.asarray(a, dtype=object)
        rb = b.raw() if isinstance(b, Sym) else np.asarray(b, dtype=object)
        ra, rb = np.broadcast_arrays(ra, rb)
        out = np.zeros(ra.shape, dtype=bool)
        for idx in np.ndindex(*ra.shape):
            out[idx] = close_flag(ra[idx], rb[idx])
        return out


def load():
    return loader.load_unit('post', dict(np=NPP()), name='post_under_test')


def _shapes(tier):
    e = (1, 2, 3) if tier == 'quick' else (1, 2, 3, 4)
    out = [(n,) for n in e]
    out += [(a, b) for a in e for b in e if a * b <= (6 if tier == 'quick' else 12)]
    out += [(2, 1, 2), (1, 2, 3), (2, 2, 2), (3, 1, 1)]
    return out


def configs(tier, seed):
    rnd = random.Random(seed * 31 + 16)
    items = []
    for shape in _shapes(tier):
        r = len(shape)
        for axis in range(-r, r):
            for ld in ('f8', 'f4', 'i2'):
                items.append(dict(op='additive', shape=shape, axis=axis, ld=ld))
                for nv in (True, False):
                    for ip in (False, True):
                        items.append(dict(op='apply', shape=shape, axis=axis, ld=ld, norm_var=nv, in_place=ip))
                        items.append(dict(op='local', shape=shape, axis=axis, ld=ld, norm_var=nv, in_place=ip))
    items.append(dict(op='misc'))
    rnd.shuffle(items)
    if tier == 'quick':
        # keep every (op, rank, ld, norm_var, in_place) combination, then fill up
        key = lambda c: (c['op'], len(c.get('shape', ())), c.get('ld'), c.get('norm_var'), c.get('in_place'), c.get('axis', 0) < 0)
        chosen, seen = [], set()
        for c in items:
            if key(c) not in seen:
                seen.add(key(c))
                chosen.append(c)
        for c in items:
            if len(chosen) >= 420:
                break
            if c not in chosen:
                chosen.append(c)
        items = chosen
    n = 32
    return [dict(kind='chunk', name='chunk %02d (%d)' % (i, len(items[i::n])), items=items[i::n]) for i in range(n) if items[i::n]]


def _stats_spec(x, axis):
    xo = x.raw()
    r = xo.ndim
    ax = axis % r
    F = xo.shape[ax]
    s1 = [z3.RealVal(0)] * F
    s2 = [z3.RealVal(0)] * F
    cnt = 0
    for idx in np.ndindex(*xo.shape):
        j = idx[ax]
        s1[j] = s1[j] + xo[idx]
        s2[j] = s2[j] + xo[idx] * xo[idx]
    cnt = int(np.prod([n for k, n in enumerate(xo.shape) if k != ax])) if r > 1 else 1
    return s1, s2, cnt


def _eq_terms(pairs):
    s = z3.Solver()
    s.set('timeout', 60000)
    pairs = [(z3.simplify(rq(a), som=True), z3.simplify(rq(b), som=True)) for a, b in pairs]
    bad = [a != b for a, b in pairs if not a.eq(b)]
    if not bad:
        return 'unsat'
    s.add(z3.Or(bad))
    return check_sat(s)


def check_additive(ns, c):
    shape, axis, ld = tuple(c['shape']), c['axis'], c['ld']
    r = len(shape)
    x = sym(shape, ld=ld)
    S = ns['Standardize']
    whole = S()
    if r == 1:
        # a vector is ONE feature vector of length shape[0]; the data set = 2 such vectors, any order
        y = sym(shape, name='y', ld=ld)
        a, b = S(), S()
        a.accumulate(x)
        a.accumulate(y)
        b.accumulate(y)
        b.accumulate(x)
        t = S()
        t.accumulate(np.stack([x, y]).view(Sym).astype(ld, copy=False), axis=-1)
        variants = [('order', a, b), ('vector-vs-tensor', a, t)]
        ref = a
        F = shape[0]
        s1 = [x.raw()[j] + y.raw()[j] for j in range(F)]
        s2 = [x.raw()[j] * x.raw()[j] + y.raw()[j] * y.raw()[j] for j in range(F)]
        cnt = 2
    else:
        whole.accumulate(x, axis=axis)
        ref = whole
        s1, s2, cnt = _stats_spec(x, axis)
        variants = []
        ax = axis % r
        for sp in range(r):
            n = shape[sp]
            if sp == ax or n < 2:
                continue
            k = n // 2
            sl1 = [slice(None)] * r
            sl2 = [slice(None)] * r
            sl1[sp] = slice(0, k)
            sl2[sp] = slice(k, None)
            fw, bw = S(), S()
            fw.accumulate(x[tuple(sl1)], axis=axis)
            fw.accumulate(x[tuple(sl2)], axis=axis)
            bw.accumulate(x[tuple(sl2)], axis=axis)
            bw.accumulate(x[tuple(sl1)], axis=axis)
            variants += [('split axis %d' % sp, whole, fw), ('split axis %d reversed' % sp, whole, bw)]
        if r == 2:
            other = 1 - ax
            for vaxis in (None, 0, -1):        # for a single vector every valid axis value means the same
                vw = S()
                for t in range(shape[other]):
                    idx = [slice(None)] * 2
                    idx[other] = t
                    if vaxis is None:
                        vw.accumulate(x[tuple(idx)])
                    else:
                        vw.accumulate(x[tuple(idx)], axis=vaxis)
                variants.append(('vector-wise%s' % ('' if vaxis is None else ' with axis=%d' % vaxis), whole, vw))
    # statistics equal the documented sufficient statistics
    st = ref._stats
    st = st.raw() if isinstance(st, Sym) else st
    F = len(s1)
    if st.shape != (2, F + 1):
        return dict(c, what='stats shape %s' % (st.shape,))
    pairs = [(st[0, j], s1[j]) for j in range(F)] + [(st[1, j], s2[j]) for j in range(F)] + [(st[0, F], cnt)]
    if _eq_terms(pairs) != 'unsat':
        return dict(c, what='statistics differ from sums / sums of squares / count')
    for name, p, q in variants:
        a_, b_ = p._stats, q._stats
        a_ = a_.raw() if isinstance(a_, Sym) else a_
        b_ = b_.raw() if isinstance(b_, Sym) else b_
        if a_.shape != b_.shape or _eq_terms(list(zip(a_.ravel(), b_.ravel()))) != 'unsat':
            return dict(c, what='not additive: %s' % name)
    return None


def _apply_spec(x, axis, s1, s2, cnt, norm_var, zero_flags):
    xo = x.raw()
    r = xo.ndim
    ax = axis % r if r > 1 else 0
    out = np.empty(xo.shape, dtype=object)
    for idx in np.ndindex(*xo.shape):
        j = idx[ax]
        mu = rq(s1[j]) / cnt
        if norm_var:
            var = rq(s2[j]) / cnt - mu * mu
            rho = z3.RealVal(1) if zero_flags[j] else 1 / USQRT(var)
            out[idx] = (xo[idx] - mu) * rho
        else:
            out[idx] = xo[idx] - mu
    return out


def check_apply(ns, c, local):
    shape, axis, ld, nv, ip = tuple(c['shape']), c['axis'], c['ld'], c['norm_var'], c['in_place']
    r = len(shape)
    S = ns['Standardize']
    res = []

    def body():
        st = S(norm_var=nv)
        x = sym(shape, ld=ld)
        before = x.raw().copy()
        x0 = before.copy().view(Sym)     # the specification is built from the ORIGINAL values (in_place overwrites x)
        F = shape[axis % r] if r > 1 else shape[0]
        if not local:
            d = sym((2, F), name='d', ld='f8')      # accumulated data: two feature vectors
            st.accumulate(d, axis=-1)
            s1, s2, cnt = _stats_spec(d, -1)
            if decide(z3.Bool('interleaved')):
                # apply, then accumulate one more feature VECTOR, then apply again: the transform uses all vectors
                # accumulated so far (nothing derived from the statistics may be remembered across accumulate calls)
                with warnings.catch_warnings():
                    warnings.simplefilter('ignore')
                    try:
                        st.apply(sym(shape, name='x', ld=ld), axis=axis, in_place=False)
                    except Exception as e:
                        symex.guard(e)
                        return ('exception', 'first apply: %s: %s' % (type(e).__name__, e))
                v = sym((F,), name='v', ld='f8')
                st.accumulate(v)
                vo = v.raw()
                s1 = [s1[j] + vo[j] for j in range(F)]
                s2 = [s2[j] + vo[j] * vo[j] for j in range(F)]
                cnt = cnt + 1
        else:
            s1, s2, cnt = _stats_spec(x0, axis) if r > 1 else (None, None, 0)
        with warnings.catch_warnings(record=True) as wl:
            warnings.simplefilter('always')
            try:
                y = st.apply(x, axis=axis, in_place=ip)
            except ValueError as e:
                single = r == 1 or all(n == 1 for k, n in enumerate(shape) if k != axis % r)
                if local and nv and single:
                    return ('ok-valueerror',)
                return ('exception', 'ValueError: %s' % e)
            except Exception as e:
                symex.guard(e)
                return ('exception', '%s: %s' % (type(e).__name__, e))
        if not isinstance(y, Sym) or y.dtype != np.dtype('f8'):
            return ('dtype', str(getattr(y, 'dtype', type(y))))
        if y.shape != shape:
            return ('shape', str(y.shape))
        single = r == 1 or all(n == 1 for k, n in enumerate(shape) if k != axis % r)
        if local and single:
            # a single vector without statistics: documented to become zeros (norm_var=False)
            want = np.empty(shape, dtype=object)
            want[...] = z3.RealVal(0)
        else:
            zero = []
            for j in range(F):
                if nv:
                    var = rq(s2[j]) / cnt - (rq(s1[j]) / cnt) * (rq(s1[j]) / cnt)
                    zero.append(zero_flag(var))
                else:
                    zero.append(False)
            want = _apply_spec(x0, axis, s1, s2, cnt, nv, zero)
        pairs = list(zip(y.raw().ravel(), want.ravel()))
        modified = any(a is not b for a, b in zip(x.raw().ravel(), before.ravel()))
        allowed = ip and ld == 'f8'
        if modified and not allowed:
            return ('input modified',)
        return ('cmp', pairs)

    for ctx, out in explore(body, max_paths=200):
        if out is None:
            continue
        inter = z3.is_true(ctx.model().eval(z3.Bool('interleaved'), True)) if not local else False
        if out[0] in ('exception', 'dtype', 'shape', 'input modified'):
            return dict(c, what='%s %s' % (out[0], out[1] if len(out) > 1 else ''), interleaved=inter)
        if out[0] == 'cmp':
            pairs = [(z3.simplify(rq(a), som=True), z3.simplify(rq(b), som=True)) for a, b in out[1]]
            pairs = [(a, b) for a, b in pairs if not a.eq(b)]
            if not pairs:
                continue
            goal = z3.Or([a != b for a, b in pairs])
            rr, _ = symex.nra_check([goal], timeout_ms=60000)
            if rr == 'sat':
                # stage 2: the path's isclose flags get their arithmetic meaning and SQRT its axioms, so that the
                # counterexample is concrete data (replayed on the real library) and spurious flag combinations drop out
                extra = []
                for lit in ctx.pc:
                    neg = z3.is_not(lit)
                    atom = lit.arg(0) if neg else lit
                    if atom.get_id() in FLAGDEFS:
                        d = FLAGDEFS[atom.get_id()][1]
                        extra.append(z3.Not(d) if neg else d)
                for app in _sqrt_apps([goal]):
                    v = app.arg(0)
                    extra.append(z3.Implies(v >= 0, z3.And(app * app == v, app >= 0)))
                rr, s2 = symex.nra_check([goal] + extra, timeout_ms=100000)
                if rr == 'sat':
                    return dict(c, what='values differ from (x - mean) * rho', values=_model_values(s2.model()), interleaved=inter)
                if rr == 'unsat':
                    continue
            if rr != 'unsat':
                raise Inconclusive('apply comparison: solver %s' % rr)
    return None


def _sqrt_apps(terms):
    seen, out = set(), []

    def walk(t):
        if t.get_id() in seen:
            return
        seen.add(t.get_id())
        if z3.is_app(t):
            if t.decl().eq(USQRT):
                out.append(t)
            for ch in t.children():
                walk(ch)
    for t in terms:
        walk(t)
    return out


def _model_values(m):
    vals = {}
    for d in m.decls():
        n = d.name()
        if d.arity() == 0 and (n.startswith('x_') or n.startswith('d_') or n.startswith('v_')):
            v = m[d]
            try:
                vals[n] = float(v.as_fraction()) if z3.is_rational_value(v) else float(v.approx(20).as_fraction())
            except Exception:
                pass
    return vals


def check_misc(ns):
    S = ns['Standardize']
    st = S()
    if st.have_stats:
        return dict(op='misc', what='have_stats true before any accumulate')
    x = sym((3,))
    st.accumulate(x)
    if not st.have_stats:
        return dict(op='misc', what='have_stats false after accumulate')
    for bad in (sym((4,)), sym((2, 2))):
        try:
            st.apply(bad)
            return dict(op='misc', what='wrong feature dimension accepted by apply')
        except ValueError:
            pass
        try:
            st.accumulate(bad)
            return dict(op='misc', what='wrong feature dimension accepted by accumulate')
        except ValueError:
            pass
    # every statistics width against every mismatching input width, vectors and tensors, any axis, both in_place settings
    for F in (1, 2, 3):
        for how in ('vector', 'tensor'):
            for G in (1, 2, 3, 4):
                if G == F:
                    continue
                for shape, axis in (((G,), -1), ((2, G), -1), ((2, G), 1), ((G, 2), 0), ((G, 2), -2), ((2, G, 2), 1)):
                    for ip in (False, True):
                        for meth in ('apply', 'accumulate'):
                            if meth == 'accumulate' and ip:
                                continue
                            st = S()
                            if how == 'vector':
                                st.accumulate(sym((F,), name='d'))
                                st.accumulate(sym((F,), name='e'))
                            else:
                                st.accumulate(sym((2, F), name='d'), axis=-1)
                            bad = sym(shape)
                            try:
                                with warnings.catch_warnings():
                                    warnings.simplefilter('ignore')
                                    if meth == 'apply':
                                        st.apply(bad, axis=axis, in_place=ip)
                                    else:
                                        st.accumulate(bad, axis=axis)
                            except ValueError:
                                continue
                            except Exception as e:
                                symex.guard(e)
                                return dict(op='misc', what='feature dimension mismatch raised %s instead of ValueError' % type(e).__name__, F=F, bad_shape=list(shape), bad_axis=axis,
                                            bad_in_place=ip, method=meth)
                            return dict(op='misc', what='feature dimension mismatch accepted by %s' % meth, F=F, bad_shape=list(shape), bad_axis=axis, bad_in_place=ip, method=meth)
    return None


def run_config(cfg):
    ns = load()
    viol, samples = [], []
    ob = dis = 0
    for c in cfg['items']:
        ob += 1
        if c['op'] == 'additive':
            w = check_additive(ns, c)
        elif c['op'] == 'misc':
            w = check_misc(ns)
        else:
            w = check_apply(ns, c, local=(c['op'] == 'local'))
        if w is None:
            dis += 1
            if len(samples) < 1:
                samples.append({'configuration': {k: (list(v) if isinstance(v, tuple) else v) for k, v in c.items()}, 'result': 'holds for all values'})
        else:
            w['kind'] = c['op']
            if 'shape' in w:
                w['shape'] = list(w['shape'])
            w['class'] = '%s/%s/%s/%s' % (c['op'], w['what'].split(':')[0][:40], c.get('ld'), 'rank%d' % len(c.get('shape', ())))
            viol.append(w)
    return dict(obligations=ob, discharged=dis, violations=viol, samples=samples, twin=dis > 0)


def _replay_apply(w, vals):
    """apply / local with the solver's own data"""
    from pydrobert.speech.post import Standardize
    shape, axis = tuple(w['shape']), w['axis']
    ld = np.dtype(w['ld'])
    r = len(shape)
    nv, ip = w['norm_var'], w['in_place']
    x = np.zeros(shape)
    for idx in np.ndindex(*shape):
        x[idx] = vals.get('x_' + '_'.join(map(str, idx)), 0.0)
    x = (np.round(x) if ld.kind == 'i' else x).astype(ld)
    orig = x.copy()
    F = shape[axis % r] if r > 1 else shape[0]
    st = Standardize(norm_var=nv)
    try:
        if w['kind'] == 'apply':
            d = np.array([[vals.get('d_%d_%d' % (i, j), 0.0) for j in range(F)] for i in range(2)])
            st.accumulate(d, axis=-1)
            if w.get('interleaved'):
                with warnings.catch_warnings():
                    warnings.simplefilter('ignore')
                    st.apply(x.copy(), axis=axis, in_place=False)
                v = np.array([vals.get('v_%d' % j, 1.0 + j) for j in range(F)])
                st.accumulate(v)
                d = np.concatenate([d, v[None]], 0)
            mu, var = d.mean(0), (d ** 2).mean(0) - d.mean(0) ** 2
        else:
            if r == 1 or all(n == 1 for k, n in enumerate(shape) if k != axis % r):
                return {'reproduced': False, 'detail': 'single-vector local case'}
            xm = np.moveaxis(x.astype(np.float64), axis % r, -1).reshape(-1, F)
            mu, var = xm.mean(0), (xm ** 2).mean(0) - xm.mean(0) ** 2
        with warnings.catch_warnings():
            warnings.simplefilter('ignore')
            y = st.apply(x, axis=axis, in_place=ip)
        bshape = [1] * r
        bshape[axis % r if r > 1 else 0] = F
        want = orig.astype(np.float64) - mu.reshape(bshape)
        if nv:
            var = np.where(np.isclose(var, 0), 1, var)
            want = want / np.sqrt(var).reshape(bshape)
        if y.shape != want.shape or not np.allclose(y, want, rtol=1e-6, atol=1e-9):
            return {'reproduced': True, 'detail': 'apply differs from (x-mean)/std by up to %.3g for %s data %s%s' % (
                np.abs(y - want).max(), 'accumulated' if w['kind'] == 'apply' else 'tensor', (d if w['kind'] == 'apply' else orig).tolist(),
                '' if w['kind'] != 'apply' else ', input %s' % orig.tolist())}
        return {'reproduced': False, 'detail': 'matches'}
    except Exception as e:
        return {'reproduced': True, 'detail': 'real Standardize raised %s: %s' % (type(e).__name__, e)}


def replay(w):
    from pydrobert.speech.post import Standardize
    rng = np.random.RandomState(6)
    if w['kind'] == 'misc':
        if 'bad_shape' not in w:
            st = Standardize()
            if st.have_stats:
                return {'reproduced': True, 'detail': 'have_stats true before any accumulate'}
            st.accumulate(rng.randn(3))
            if not st.have_stats:
                return {'reproduced': True, 'detail': 'have_stats false after accumulate'}
            for bad in (rng.randn(4), rng.randn(2, 2)):
                for meth in (st.apply, st.accumulate):
                    try:
                        meth(bad)
                        return {'reproduced': True, 'detail': 'wrong feature dimension %s accepted by %s' % (bad.shape, meth.__name__)}
                    except ValueError:
                        pass
                    except Exception as e:
                        return {'reproduced': True, 'detail': '%s of a wrong feature dimension raised %s, not ValueError' % (meth.__name__, type(e).__name__)}
            return {'reproduced': False, 'detail': 'have_stats / dimension checks as documented'}
        st = Standardize()
        st.accumulate(rng.randn(3, w['F']) + 2, axis=-1)
        bad = rng.randn(*w['bad_shape'])
        try:
            with warnings.catch_warnings():
                warnings.simplefilter('ignore')
                if w['method'] == 'apply':
                    out = st.apply(bad, axis=w['bad_axis'], in_place=w['bad_in_place'])
                else:
                    out = st.accumulate(bad, axis=w['bad_axis'])
        except ValueError:
            return {'reproduced': False, 'detail': 'ValueError raised as documented'}
        except Exception as e:
            return {'reproduced': True, 'detail': '%s of an input of shape %s (axis %d) with statistics of %d coefficients raised %s, not ValueError' % (w['method'], tuple(w['bad_shape']), w['bad_axis'], w['F'], type(e).__name__)}
        return {'reproduced': True, 'detail': '%s of an input of shape %s (axis %d) with statistics of %d coefficients did not raise ValueError (returned %s)' % (
            w['method'], tuple(w['bad_shape']), w['bad_axis'], w['F'], getattr(out, 'shape', None))}
    if w.get('values') and w['kind'] in ('apply', 'local'):
        r0 = _replay_apply(w, w['values'])
        if r0['reproduced']:
            return r0
    shape, axis = tuple(w['shape']), w['axis']
    ld = np.dtype(w['ld'])
    r = len(shape)
    scale = 300.0 if ld.kind == 'i' else 3.0     # int16 data large enough for squares to leave the int16 range

    def data(shp):
        return (rng.randn(*shp) * scale + 1).astype(ld)
    try:
        if w['kind'] == 'additive':
            x = data(shape)
            if r == 1:
                y = data(shape)
                a, b, t = Standardize(), Standardize(), Standardize()
                a.accumulate(x); a.accumulate(y); b.accumulate(y); b.accumulate(x); t.accumulate(np.stack([x, y]), axis=-1)
                sts = [a._stats, b._stats, t._stats]
                xs = np.stack([x, y]).astype(np.float64)
                ref = np.zeros((2, shape[0] + 1)); ref[0, :-1] = xs.sum(0); ref[1, :-1] = (xs ** 2).sum(0); ref[0, -1] = 2
            else:
                ax = axis % r
                whole = Standardize(); whole.accumulate(x, axis=axis)
                sts = [whole._stats]
                for sp in range(r):
                    if sp == ax or shape[sp] < 2:
                        continue
                    k = shape[sp] // 2
                    s1 = [slice(None)] * r; s2 = [slice(None)] * r
                    s1[sp] = slice(0, k); s2[sp] = slice(k, None)
                    p = Standardize(); p.accumulate(x[tuple(s2)], axis=axis); p.accumulate(x[tuple(s1)], axis=axis)
                    sts.append(p._stats)
                if r == 2:
                    for vaxis in (None, 0, -1):
                        vw = Standardize()
                        for t_ in range(shape[1 - ax]):
                            idx = [slice(None)] * 2; idx[1 - ax] = t_
                            if vaxis is None:
                                vw.accumulate(x[tuple(idx)])
                            else:
                                vw.accumulate(x[tuple(idx)], axis=vaxis)
                        sts.append(vw._stats)
                xm = np.moveaxis(x.astype(np.float64), ax, -1).reshape(-1, shape[ax])
                ref = np.zeros((2, shape[ax] + 1)); ref[0, :-1] = xm.sum(0); ref[1, :-1] = (xm ** 2).sum(0); ref[0, -1] = xm.shape[0]
            for s_ in sts:
                if s_.shape != ref.shape or not np.allclose(s_, ref, rtol=1e-9, atol=1e-6):
                    return {'reproduced': True, 'detail': 'additive %s axis=%d %s: statistics %s differ from the sums %s' % (shape, axis, ld, s_.tolist(), ref.tolist())}
            return {'reproduced': False, 'detail': 'statistics additive on the real library'}
        nv, ip = w['norm_var'], w['in_place']
        x = data(shape)
        orig = x.copy()
        st = Standardize(norm_var=nv)
        F = shape[axis % r] if r > 1 else shape[0]
        if w['kind'] == 'apply':
            d = rng.randn(5, F) * 2 + 3
            st.accumulate(d, axis=-1)
            if w.get('interleaved'):
                with warnings.catch_warnings():
                    warnings.simplefilter('ignore')
                    st.apply(x.copy(), axis=axis, in_place=False)
                v = rng.randn(F) * 4 - 5
                st.accumulate(v)
                d = np.concatenate([d, v[None]], 0)
            mu, var = d.mean(0), (d ** 2).mean(0) - d.mean(0) ** 2
        else:
            if r == 1 or all(n == 1 for k, n in enumerate(shape) if k != axis % r):
                # a single vector without statistics: ValueError with norm_var, all zeros (float64) without
                if not ip:
                    x.setflags(write=False)
                try:
                    with warnings.catch_warnings():
                        warnings.simplefilter('ignore')
                        y = st.apply(x, axis=axis, in_place=ip)
                except ValueError:
                    return {'reproduced': not nv, 'detail': 'single vector without statistics: ValueError (norm_var=%s)' % nv}
                if nv:
                    return {'reproduced': True, 'detail': 'single vector without statistics and norm_var=True did not raise'}
                if y.dtype != np.float64 or y.shape != orig.shape or np.any(y != 0):
                    return {'reproduced': True, 'detail': 'single vector (shape %s, %s, in_place=%s) without statistics: result dtype %s, documented float64 zeros' % (shape, ld, ip, y.dtype)}
                if not (ip and ld == np.float64) and not np.array_equal(x, orig):
                    return {'reproduced': True, 'detail': 'single vector (shape %s, %s, in_place=%s) without statistics: input modified' % (shape, ld, ip)}
                return {'reproduced': False, 'detail': 'single-vector local case as documented'}
            xm = np.moveaxis(x.astype(np.float64), axis % r, -1).reshape(-1, F)
            mu, var = xm.mean(0), (xm ** 2).mean(0) - xm.mean(0) ** 2
        if not ip:
            x.setflags(write=False)
        with warnings.catch_warnings():
            warnings.simplefilter('ignore')
            y = st.apply(x, axis=axis, in_place=ip)
        bshape = [1] * r
        bshape[axis % r if r > 1 else 0] = F
        want = (orig.astype(np.float64) - mu.reshape(bshape))
        if nv:
            var = np.where(np.isclose(var, 0), 1, var)
            want = want / np.sqrt(var).reshape(bshape)
        if y.dtype != np.float64:
            return {'reproduced': True, 'detail': 'result dtype %s (in_place=%s, input %s)' % (y.dtype, ip, ld)}
        if not np.allclose(y, want, rtol=1e-9, atol=1e-9):
            return {'reproduced': True, 'detail': 'apply differs from (x-mean)/std: max %.3g' % np.abs(y - want).max()}
        if not (ip and ld == np.float64) and not np.array_equal(x, orig):
            return {'reproduced': True, 'detail': 'input modified'}
        return {'reproduced': False, 'detail': 'matches'}
    except Exception as e:
        return {'reproduced': True, 'detail': 'real Standardize raised %s: %s' % (type(e).__name__, e)}
