"""C17 -- saved normalisation statistics reload to the same transform (DESIGN 3/C17)."""
import itertools

import numpy as np
import z3

from vlib import loader, symex
from vlib.symex import Ctx, decide, explore, check_sat, Inconclusive
from checks.objarr import Sym, NPProxy, rq

PID = 'C17'
LEVEL = 'model_checking'
FUNCTIONS = ['post:Standardize.save', 'post:Standardize.__init__', 'post:Standardize._sanitize_stats', 'util:read_signal',
             'util:_numpy_binary_read_signal', 'util:_numpy_archive_read_signal', 'util:_numpy_fromfile_read_signal']
EXPLANATION = (
    'Standardize.save, the loading loop of Standardize.__init__, _sanitize_stats and util.read_signal are executed from '
    'source on a file-system stub (np.save/np.load/np.savez[_compressed]/ndarray.tofile/np.fromfile: .npy round-trips an '
    'array with dtype and shape, .npz is a read-only key->array mapping, a raw file round-trips the flattened values when '
    'read with the dtype it was written with and yields arbitrary values when the bytes are reinterpreted). The statistics '
    'are symbolic reals of either sign (only sum of squares >= 0 assumed). z3 decides on every path that no save raises, '
    'that the reloaded statistics equal the saved ones (hence the same apply(), C16), that for .npz the overwrite flag '
    'decides whether other entries are kept, and that saving without statistics raises ValueError.')
BOUNDS = {'quick': '1-3 coefficients, targets .npy / .npz (key None or given, compress on/off, overwrite on/off, prior archive absent / present with other keys) / raw binary, 1-2 successive saves; IEEE-754: 1-2 float64 vectors of 1-2 finite coefficients (|x| <= 1e6) accumulated by the real accumulate, saved raw and reloaded',
          'thorough': 'same with up to 5 coefficients; IEEE-754 also 3 vectors and 3 coefficients'}
OUTSIDE = ['the real file formats (NumPy/zip) themselves', 'Kaldi table targets', 'count is a concrete positive integer (7); sums are symbolic']
ASSUMPTIONS = ['IEEE-754 configurations: every element-wise NumPy operation on float64 is one round-to-nearest-even operation (z3 QF_FP); reductions (sum, mean) are refused',
               'statistics come from real data: n * sum x^2 >= (sum x)^2 (violations of it by floating-point rounding are outside the claim)',
               'np.load of a missing file raises an IOError subclass; np.load of .npz returns a read-only NpzFile (item assignment is a TypeError)',
               'np.fromfile(dtype) of a file written by tofile with the same dtype returns the flattened values; with another float dtype it returns unrelated values',
               'polarity of overwrite (True merges / False discards) is reported as a note: the property only requires that the flag decides']
CONFIG_TIME_LIMIT = {'quick': 600, 'thorough': 1800}


class FS:
    files = {}


class NpzFile:
    def __init__(s, d):
        s._d = dict(d)
        s.files = list(d)

    def __getitem__(s, k):
        return s._d[k].copy()

    def __contains__(s, k):
        return k in s._d

    def __iter__(s):
        return iter(s._d)

    def keys(s):
        return s._d.keys()

    def items(s):
        return [(k, v.copy()) for k, v in s._d.items()]

    def values(s):
        return [v.copy() for v in s._d.values()]

    def __len__(s):
        return len(s._d)

    def close(s):
        pass

    def __enter__(s):
        return s

    def __exit__(s, *a):
        pass


class RawBytes:
    def __init__(s, arr):
        s.arr = arr


_fresh = [0]


def fresh_sym(n, ld):
    _fresh[0] += 1
    a = np.empty(n, dtype=object)
    for i in range(n):
        a[i] = z3.Real('reinterpreted%d_%d' % (_fresh[0], i))
    a = a.view(Sym)
    a._ld = np.dtype(ld)
    return a


def _sym_tofile(self, path, *a, **k):
    FS.files[path] = ('raw', self.raw().ravel().copy(), self._ld)


def _sym_tobytes(self):
    return RawBytes(self)


Sym.tofile = _sym_tofile
Sym.tobytes = _sym_tobytes


class FNP(NPProxy):
    @staticmethod
    def save(path, arr):
        FS.files[path] = ('npy', arr.copy())

    @staticmethod
    def savez(path, **arrays):
        FS.files[path] = ('npz', {k: (v.copy() if isinstance(v, np.ndarray) else v) for k, v in arrays.items()})

    savez_compressed = savez

    @staticmethod
    def load(path, **kw):
        if not isinstance(path, str) or path not in FS.files:
            raise FileNotFoundError(2, 'No such file', path)
        kind = FS.files[path]
        if kind[0] == 'npy':
            return kind[1].copy()
        if kind[0] == 'npz':
            return NpzFile(kind[1])
        raise ValueError('Cannot load file containing pickled data')    # np.load on arbitrary bytes

    @staticmethod
    def fromfile(path, dtype=float, **kw):
        if path not in FS.files:
            raise FileNotFoundError(2, 'No such file', path)
        kind = FS.files[path]
        dt = np.dtype(dtype)       # 'dm' / 'fm' raise TypeError here, as in NumPy
        if kind[0] != 'raw':
            raise Inconclusive('fromfile of a non-raw file')
        vals, ld = kind[1], kind[2]
        if dt == ld:
            r = vals.copy().view(Sym)
            r._ld = ld
            return r
        nbytes = len(vals) * ld.itemsize
        return fresh_sym(nbytes // dt.itemsize, dt)

    @staticmethod
    def frombuffer(buf, dtype=float):
        dt = np.dtype(dtype)
        a = buf.arr
        nbytes = a.size * a._ld.itemsize
        return fresh_sym(nbytes // dt.itemsize, dt)

    @staticmethod
    def all(v):
        raw = v.raw() if isinstance(v, Sym) else np.asarray(v, dtype=object)
        conds = []
        for t in raw.ravel():
            if isinstance(t, z3.ExprRef):
                conds.append(t)
            elif not bool(t):
                return False
        return decide(z3.And(conds)) if conds else True

    @staticmethod
    def round(v):
        if isinstance(v, z3.ExprRef):
            return z3.ToReal(z3.ToInt(rq(v) + z3.RealVal('1/2')))    # nearest integer (ties aside)
        return np.round(v)

    @staticmethod
    def isclose(a, b, **kw):
        if isinstance(a, z3.ExprRef) or isinstance(b, z3.ExprRef):
            d = rq(a) - rq(b)
            return decide(z3.And(d <= rq(1e-8) + rq(1e-5) * z3.If(rq(b) >= 0, rq(b), -rq(b)), -d <= rq(1e-8) + rq(1e-5) * z3.If(rq(b) >= 0, rq(b), -rq(b))))
        return np.isclose(a, b, **kw)


def load_units():
    npx = FNP()
    util = loader.load_unit('util', dict(np=npx), name='pydrobert.speech.util')
    post = loader.load_unit('post', dict(np=npx, read_signal=util['read_signal']), name='post_under_test')
    return util, post


def mk_stats(F, tag='s', count=7, ld='f8'):
    a = np.empty((2, F + 1), dtype=object)
    for j in range(F):
        a[0, j] = z3.Real('%s_sum_%d' % (tag, j))
        a[1, j] = z3.Real('%s_sq_%d' % (tag, j))
    a[0, F] = count
    a[1, F] = 0
    a = a.view(Sym)
    a._ld = np.dtype(ld)
    return a


def configs(tier, seed):
    cfgs = []
    Fs = (1, 2, 3) if tier == 'quick' else (1, 2, 3, 5)
    for F in Fs:
        cfgs.append(dict(kind='npy', name='npy F%d' % F, F=F))
        cfgs.append(dict(kind='raw', name='raw F%d' % F, F=F))
        for key, compress, overwrite, prior in itertools.product((None, 'stats'), (False, True), (True, False), ('absent', 'other', 'same')):
            cfgs.append(dict(kind='npz', name='npz F%d key=%s compress=%s overwrite=%s prior=%s' % (F, key, compress, overwrite, prior), F=F, key=key,
                             compress=compress, overwrite=overwrite, prior=prior))
    for F, k in (((1, 1), (1, 2), (2, 2)) if tier == 'quick' else ((1, 1), (1, 2), (2, 2), (1, 3), (3, 2))):
        cfgs.append(dict(kind='fp', name='IEEE float64 accumulate->raw->reload F%d k%d' % (F, k), F=F, k=k))
    cfgs.append(dict(kind='nostats', name='save without statistics'))
    cfgs.append(dict(kind='polarity', name='npz overwrite flag decides'))
    return cfgs


def _eq_stats(a, b):
    ar = a.raw() if isinstance(a, Sym) else np.asarray(a, dtype=object)
    br = b.raw() if isinstance(b, Sym) else np.asarray(b, dtype=object)
    if ar.shape != br.shape:
        return ['shape']
    out = []
    for p, q in zip(ar.ravel(), br.ravel()):
        c = z3.simplify(rq(p) != rq(q))
        if not z3.is_false(c):
            out.append(c)
    return out


def run_roundtrip(cfg):
    util, post = load_units()
    S = post['Standardize']
    F = cfg['F']
    kind = cfg['kind']
    viol = []
    ob = dis = 0
    path = {'npy': 'stats.npy', 'npz': 'stats.npz', 'raw': 'stats.bin'}[kind]

    def body():
        c = Ctx.cur
        FS.files = {}
        st = S()
        st._stats = mk_stats(F)
        for j in range(F):
            # statistics of real data: sum of squares >= 0 and (Cauchy-Schwarz) n * sum x^2 >= (sum x)^2; sums of either sign
            c.assume(z3.Real('s_sq_%d' % j) >= 0, 7 * z3.Real('s_sq_%d' % j) >= z3.Real('s_sum_%d' % j) * z3.Real('s_sum_%d' % j))
        skw = {}
        lkw = {}
        if kind == 'npz':
            skw = dict(key=cfg['key'], compress=cfg['compress'], overwrite=cfg['overwrite'])
            if cfg['prior'] == 'other':
                FS.files[path] = ('npz', {'other': mk_stats(F, 'o')})
            elif cfg['prior'] == 'same':
                FS.files[path] = ('npz', {(cfg['key'] or 'arr_0'): mk_stats(F, 'o')})
            if cfg['key'] is not None:
                lkw = dict(key=cfg['key'])
        elif kind == 'raw':
            lkw = dict(force_as='file')
        nsaves = 2 if decide(z3.Bool('save_twice')) else 1
        try:
            for k in range(nsaves):
                st.save(path, **skw)
        except Exception as e:
            symex.guard(e)
            return ('save raised', '%s: %s' % (type(e).__name__, e), nsaves)
        # which key holds the stats when key is None: first unused arr_N
        if kind == 'npz' and cfg['key'] is None:
            stored = FS.files[path][1]
            keys = sorted(k for k in stored if k.startswith('arr_'))
            # the statistics just saved must be retrievable: under arr_0 when nothing else used it, otherwise under the key chosen
            cand = [k for k in keys if not _eq_stats(stored[k], st._stats)]
            if not cand:
                return ('saved statistics not found in the archive', str(keys))
            had_arr0 = cfg['prior'] == 'same' or nsaves == 2
            if 'arr_0' not in cand and not had_arr0:
                # nothing occupied arr_0 before: a key-less save must be found by a key-less load
                return ('key-less save not stored under arr_0', str(keys))
            if cand[-1] != 'arr_0':
                lkw = dict(key=cand[-1])
        try:
            st2 = S(rfilename=path, **lkw)
        except Exception as e:
            symex.guard(e)
            return ('load raised', '%s: %s' % (type(e).__name__, e), nsaves)
        if st2._stats is None:
            return ('nothing loaded',)
        bad = _eq_stats(st2._stats, st._stats)
        return ('cmp', bad)

    for ctx, res in explore(body, max_paths=300):
        if res is None:
            continue
        ob += 1
        base = {k: v for k, v in cfg.items() if k != 'name'}
        if res[0] != 'cmp':
            m = ctx.model()
            w = dict(base, what=res[0], detail=str(res[1:])[:300], save_twice=z3.is_true(m.eval(z3.Bool('save_twice'), True)),
                     sums=[_f(m.eval(z3.Real('s_sum_%d' % j), True)) for j in range(F)])
            w['negative_sum'] = any(x < 0 for x in w['sums'])
            viol.append(w)
            continue
        bad = res[1]
        if bad == ['shape']:
            viol.append(dict(base, what='reloaded statistics have a different shape', sums=[0.0] * F, negative_sum=False, save_twice=False))
            continue
        if bad:
            s = ctx.solver
            s.push()
            s.add(z3.Or(bad))
            r = check_sat(s)
            if r == 'sat':
                m = s.model()
                viol.append(dict(base, what='reloaded statistics differ', sums=[_f(m.eval(z3.Real('s_sum_%d' % j), True)) for j in range(F)], negative_sum=False, save_twice=False))
                s.pop()
                continue
            s.pop()
        dis += 1
    for w in viol:
        w['class'] = '%s/%s/%s' % (kind, w['what'], (w.get('detail') or '').split(':')[0][:40])
    return dict(obligations=ob, discharged=dis, violations=viol, samples=[{'config': cfg['name'], 'obligation': 'Standardize(rfilename)._stats == saved _stats for all sums (any sign)'}], twin=dis > 0)


def _f(v):
    try:
        return float(v.as_fraction())
    except Exception:
        return 0.0


def run_nostats(cfg):
    util, post = load_units()
    S = post['Standardize']
    viol = []
    ob = 0
    for path in ('a.npy', 'a.npz', 'a.bin'):
        # a fresh object, and an object whose statistics table exists but counts zero vectors (loaded from a
        # zero-initialised file, nothing accumulated since)
        for table in (False, True):
            ob += 1
            FS.files = {}
            try:
                st = S()
                if table:
                    st._stats = np.zeros((2, 3), dtype=np.float64)
                st.save(path)
                viol.append(dict(kind='nostats', table=table, what='save without statistics did not raise (%s%s)' % (path, ', zero-count table' if table else ''), **{'class': 'nostats/%s' % table}))
            except ValueError:
                pass
            except Exception as e:
                viol.append(dict(kind='nostats', table=table, what='save without statistics raised %s' % type(e).__name__, **{'class': 'nostats/%s' % table}))
    return dict(obligations=ob, discharged=ob - len(viol), violations=viol, samples=[{'config': 'nostats'}], twin=True)


def run_polarity(cfg):
    util, post = load_units()
    S = post['Standardize']
    kept = {}
    viol = []
    for ow in (True, False):
        FS.files = {'p.npz': ('npz', {'other': mk_stats(2, 'o')})}
        st = S()
        st._stats = mk_stats(2)
        try:
            st.save('p.npz', key='k', overwrite=ow)
            kept[ow] = 'other' in FS.files['p.npz'][1]
        except Exception as e:
            symex.guard(e)
            kept[ow] = 'raised %s' % type(e).__name__
    if kept[True] == kept[False] or any(isinstance(v, str) for v in kept.values()):
        viol.append(dict(kind='polarity', what='the overwrite flag does not decide whether other archive entries are kept: %s' % kept, **{'class': 'polarity'}))
    return dict(obligations=1, discharged=1 - len(viol), violations=viol, samples=[{'config': 'polarity', 'other_entries_kept': {str(k): v for k, v in kept.items()}}], twin=True,
                notes=['overwrite=True keeps other entries: %s; overwrite=False keeps them: %s (docstring states the opposite polarity; the property only requires that the flag decides)' % (kept[True], kept[False])])


class Rejected(Exception):
    pass


def run_fp(cfg):
    """IEEE-754 configuration: k float64 feature vectors with symbolic finite entries are accumulated by the real
    accumulate(), saved to a raw file and reloaded; z3 (QF_FP, one-shot solver per branch) decides that the sanity
    heuristic of _sanitize_stats accepts the correctly read float64 statistics, i.e. never reinterprets them."""
    from checks import fparr

    class FPNP(FNP):
        @staticmethod
        def zeros(shape, dtype=None):
            if dtype is not None and np.dtype(dtype) != np.dtype('f8'):
                raise symex.Unsupported('FP mode supports float64 only')
            r = np.empty(shape, dtype=object)
            r[...] = 0
            r = r.view(fparr.FSym)
            r._ld = np.dtype('f8')
            return r

        @staticmethod
        def frombuffer(buf, dtype=float):
            raise Rejected('statistics reinterpreted as %s' % np.dtype(dtype))

        @staticmethod
        def round(v):
            if isinstance(v, z3.ExprRef):
                raise symex.Unsupported('FP mode: round of a symbolic value')
            return np.round(v)

        @staticmethod
        def isclose(a, b, **kw):
            if isinstance(a, z3.ExprRef) or isinstance(b, z3.ExprRef):
                raise symex.Unsupported('FP mode: isclose of a symbolic value')
            return np.isclose(a, b, **kw)

    npx = FPNP()
    util = loader.load_unit('util', dict(np=npx), name='pydrobert.speech.util')
    post = loader.load_unit('post', dict(np=npx, read_signal=util['read_signal']), name='post_under_test')
    S = post['Standardize']
    F, k = cfg['F'], cfg['k']
    viol = []
    ob = dis = 0
    allvars = []

    def body():
        c = Ctx.cur
        FS.files = {}
        st = S()
        del allvars[:]
        for i in range(k):
            vec, vs, asm = fparr.fsym(F, 'v%d' % i, hi=1e6)
            allvars.append(vs)
            c.assume(*asm)
            st.accumulate(vec)
        saved = st._stats.raw().copy()
        st.save('stats.bin')
        try:
            st2 = S(rfilename='stats.bin', force_as='file')
        except Rejected as e:
            return ('rejected', str(e))
        except Exception as e:
            symex.guard(e)
            return ('load raised', '%s: %s' % (type(e).__name__, e))
        got = st2._stats.raw()
        if got.shape != saved.shape:
            return ('shape',)
        for p, q in zip(got.ravel(), saved.ravel()):
            same = p.eq(q) if isinstance(p, z3.ExprRef) and isinstance(q, z3.ExprRef) else (not isinstance(p, z3.ExprRef) and not isinstance(q, z3.ExprRef) and p == q)
            if not same:
                return ('differs',)
        return ('ok',)

    old, old_to = symex.FRESH_SOLVER, symex.QUERY_TIMEOUT_MS
    symex.FRESH_SOLVER = True
    symex.QUERY_TIMEOUT_MS = 240000      # bit-blasted double multipliers: generous per-query budget (unknown is never a verdict)
    try:
        for ctx, res in explore(body, max_paths=50):
            if res is None:
                continue
            ob += 1
            if res[0] == 'ok':
                dis += 1
                continue
            s = z3.Solver()
            s.set('timeout', symex.QUERY_TIMEOUT_MS)
            s.add(*ctx.pc)
            if check_sat(s) != 'sat':
                ob -= 1
                continue
            m = s.model()
            data = [[fparr.fp_value(m, v) for v in vs] for vs in allvars]
            viol.append({'kind': 'fp', 'F': F, 'k': k, 'what': 'correctly read float64 statistics ' + res[0], 'detail': str(res[1:])[:200], 'data': data,
                         'class': 'fp/%s' % res[0]})
    finally:
        symex.FRESH_SOLVER = old
        symex.QUERY_TIMEOUT_MS = old_to
    return dict(obligations=ob, discharged=dis, violations=viol, twin=dis > 0,
                samples=[{'config': cfg['name'], 'obligation': 'IEEE double: statistics accumulated from %d finite float64 vectors (|x| <= 1e6) and saved raw are accepted by _sanitize_stats and reloaded unchanged' % k}])


def run_config(cfg):
    if cfg['kind'] == 'fp':
        return run_fp(cfg)
    if cfg['kind'] == 'nostats':
        return run_nostats(cfg)
    if cfg['kind'] == 'polarity':
        return run_polarity(cfg)
    return run_roundtrip(cfg)


def replay(w):
    import os
    import shutil
    import tempfile
    import warnings
    from pydrobert.speech.post import Standardize
    work = tempfile.mkdtemp(prefix='c17-', dir='/verif/.work' if os.path.isdir('/verif/.work') else None)
    try:
        rng = np.random.RandomState(3)
        if w['kind'] == 'nostats':
            for name in ('a.npy', 'a.npz', 'a.bin'):
                try:
                    if w.get('table'):
                        zp = os.path.join(work, 'zero.npy')
                        np.save(zp, np.zeros((2, 3)))
                        st0 = Standardize(rfilename=zp)       # a statistics table that counts zero vectors
                        st0.save(os.path.join(work, name))
                        return {'reproduced': True, 'detail': 'save(%s) of statistics loaded from a zero-count table (nothing accumulated) did not raise' % name}
                    Standardize().save(os.path.join(work, name))
                    return {'reproduced': True, 'detail': 'save(%s) without statistics did not raise' % name}
                except ValueError:
                    pass
                except Exception as e:
                    return {'reproduced': True, 'detail': 'save(%s) without statistics raised %s, not ValueError' % (name, type(e).__name__)}
            return {'reproduced': False, 'detail': 'ValueError as documented'}
        if w['kind'] == 'polarity':
            kept = {}
            for ow in (True, False):
                p_ = os.path.join(work, 'p%s.npz' % ow)
                np.savez(p_, other=np.zeros((2, 3)))
                st = Standardize()
                st.accumulate(rng.randn(5, 2), axis=-1)
                try:
                    st.save(p_, key='k', overwrite=ow)
                    with np.load(p_) as z:
                        kept[ow] = 'other' in z.files
                except Exception as e:
                    kept[ow] = 'raised %s' % type(e).__name__
            bad = kept[True] == kept[False] or any(isinstance(v, str) for v in kept.values())
            return {'reproduced': bad, 'detail': 'other archive entries kept with overwrite=True: %s, with overwrite=False: %s' % (kept[True], kept[False])}
        if w['kind'] == 'fp':
            st = Standardize()
            for vec in w['data']:
                st.accumulate(np.array(vec, dtype=np.float64))
            path = os.path.join(work, 'stats.bin')
            st.save(path)
            try:
                with warnings.catch_warnings():
                    warnings.simplefilter('ignore')
                    st2 = Standardize(rfilename=path, force_as='file')
            except Exception as e:
                return {'reproduced': True, 'detail': 'statistics accumulated from float64 vectors %s, saved raw, reload raised %s: %s' % (w['data'], type(e).__name__, e)}
            if st2._stats.shape != st._stats.shape or not np.array_equal(st2._stats, st._stats):
                return {'reproduced': True, 'detail': 'statistics accumulated from float64 vectors %s reload differently' % (w['data'],)}
            return {'reproduced': False, 'detail': 'round trip fine'}
        F = w['F']
        st = Standardize()
        data = rng.randn(7, F) * 2
        sums = w.get('sums') or [0.0] * F
        data = data - data.mean(0) + np.array([(-3.0 if s < 0 else 3.0) for s in sums])     # per-coefficient sign as in the witness
        st.accumulate(data, axis=-1)
        path = os.path.join(work, {'npy': 'stats.npy', 'npz': 'stats.npz', 'raw': 'stats.bin'}[w['kind']])
        skw, lkw = {}, {}
        if w['kind'] == 'npz':
            skw = dict(key=w['key'], compress=w['compress'], overwrite=w['overwrite'])
            if w['prior'] == 'other':
                np.savez(path, other=np.zeros((2, F + 1)))
            elif w['prior'] == 'same':
                np.savez(path, **{(w['key'] or 'arr_0'): np.ones((2, F + 1))})
            if w['key'] is not None:
                lkw = dict(key=w['key'])
        elif w['kind'] == 'raw':
            lkw = dict(force_as='file')
        try:
            for _ in range(2 if w.get('save_twice') else 1):
                st.save(path, **skw)
        except Exception as e:
            return {'reproduced': True, 'detail': 'save to %s (%s) raised %s: %s' % (os.path.basename(path), skw, type(e).__name__, e)}
        if w['kind'] == 'npz' and w['key'] is None:
            with np.load(path) as z:
                ks = [k for k in z.files if k.startswith('arr_') and np.array_equal(z[k], st._stats)]
            if not ks:
                return {'reproduced': True, 'detail': 'saved statistics not found in the archive'}
            had_arr0 = w['prior'] == 'same' or w.get('save_twice')
            if 'arr_0' not in ks and not had_arr0:
                return {'reproduced': True, 'detail': 'key-less save into an archive without arr_0 stored the statistics under %s: a key-less reload cannot find them' % ks}
            if ks[-1] != 'arr_0':
                lkw = dict(key=ks[-1])
        try:
            with warnings.catch_warnings():
                warnings.simplefilter('ignore')
                st2 = Standardize(rfilename=path, **lkw)
        except Exception as e:
            return {'reproduced': True, 'detail': 'reloading %s statistics with sums %s raised %s: %s' % (w['kind'], np.round(st._stats[0, :-1], 2).tolist(), type(e).__name__, e)}
        x = rng.randn(4, F)
        if not np.allclose(st.apply(x), st2.apply(x)):
            return {'reproduced': True, 'detail': 'reloaded transform differs'}
        return {'reproduced': False, 'detail': 'round trip fine'}
    finally:
        shutil.rmtree(work, ignore_errors=True)
