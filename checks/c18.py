"""C18 -- pre-processors apply the documented sample-wise transforms (DESIGN 3/C18)."""
import z3

from vlib import loader, symex, nd
from vlib.nd import ND
from vlib.symex import Ctx, SInt, SReal, SBool, _z, rv, conc, decide, explore, check_sat, slen, Inconclusive

PID = 'C18'
LEVEL = 'model_checking'
FUNCTIONS = ['pre:Preemphasize.apply', 'pre:Preemphasize.__init__', 'pre:Dither.apply', 'pre:Dither.__init__',
             'torch:pytorch_preemphasize', 'torch:pytorch_dither']
EXPLANATION = (
    'Preemphasize.apply / Dither.apply (and their torch functional forms) are executed on a lazy symbolic signal '
    'x: Int -> Real of SYMBOLIC length N >= 0 (no unrolling), symbolic coefficient, in_place both ways, dtype in '
    '{float64, float32, int16} with NumPy promotion rules (NEP 50 weak python scalars) carried by the array model: an '
    'operation performed in a narrower float dtype is wrapped in an uninterpreted rounding RND_f4, casts are '
    'uninterpreted CAST_t. z3 decides for an arbitrary index i that y[i] equals the documented recurrence computed in '
    'float64 and cast back, that the noise term is coeff * nu(i) with nu independent of the signal, and that the input '
    'store is never written unless in_place on a float64 array (inputs are read-only in the harness).')
BOUNDS = {'quick': 'any length N >= 0 (symbolic), any real coeff, dtypes float64/float32/int16, in_place True/False; explicit axis: shapes (2,3) (3,1) (1,3) (3,0) (2,1,2) (3,2,2) (2,2,3) (2,3,2,2), every axis incl. negative, coeff 0.75; two calls on one object (second signal of the same length); torch: functional forms and nn.Module wrappers (real constructors) in train and eval mode',
          'thorough': 'same; 15 shapes up to rank 4 for the explicit axis, seven of them with axes of length 1 or 0'}
OUTSIDE = ['distribution of the noise (zero mean, standard deviation coeff): statistical statement about NumPy\'s / torch\'s generator',
           'the deprecated axis argument of Dither (Preemphasize along an explicit axis is checked on fixed small shapes, object-array mode)', 'value of float64 rounding itself']
ASSUMPTIONS = ['np.random.normal(0, c, shape)[i] == c * nu(rng_state, i) with nu a function of the generator state and the index only (documented scale family); same state => same nu',
               'torch.randn_like(sig)[i] == nu(i); astype(float64) of float32/int16 is exact',
               'NumPy promotion: float32 array (op) python float -> float32 (rounded); int16 array (op) python float -> float64']
CONFIG_TIME_LIMIT = {'quick': 300, 'thorough': 600}

I, R = z3.IntSort(), z3.RealSort()
x = z3.Function('x', I, R)
NU = z3.Function('nu', I, R)
XB = z3.Function('xb', I, R)      # a second signal


class DT(str):
    pass


class Rand:
    calls = []

    @staticmethod
    def normal(loc, scale, size=None):
        Rand.calls.append((loc, scale, size))
        (n,) = size if isinstance(size, tuple) else (size,)
        sz = rv(scale)
        lz = rv(loc)
        return ND.fresh((n,), lambda idx: lz + symex.rmul(sz, NU(idx[0])), 'f8')


class NP:
    float64 = 'f8'
    float32 = 'f4'
    int16 = 'i2'
    random = Rand

    @staticmethod
    def moveaxis(a, s, d):
        raise symex.Unsupported('moveaxis (deprecated axis argument)')

    @staticmethod
    def empty(shape, dtype=None):
        if isinstance(shape, tuple) and len(shape) == 1:
            shape = shape[0]
        J = z3.Function('uninit%d' % len(NP._allocs), I, R)
        NP._allocs.append(J)
        return ND.fresh((shape,), lambda idx: J(idx[0]), dtype or 'f8')

    zeros = empty
    _allocs = []

    @staticmethod
    def copyto(dst, src, casting='same_kind', where=True):
        dst[...] = src

    @staticmethod
    def asarray(a, dtype=None, **kw):
        """no copy when the dtype already matches: the array itself if it is a plain ndarray, a base-class VIEW of the same
        memory (another object) if it is an instance of an ndarray subclass (np.memmap, np.matrix, user subclasses)"""
        if not isinstance(a, ND):
            raise symex.Unsupported('asarray of %s' % type(a).__name__)
        if dtype is None or dtype == a.dtype:
            if getattr(a, 'is_subclass', False):
                return a[...] if a.ndim else a
            return a
        return a.astype(dtype)

    @staticmethod
    def asanyarray(a, dtype=None, **kw):
        if dtype is None or dtype == a.dtype:
            return a
        return a.astype(dtype)

    @staticmethod
    def ascontiguousarray(a, dtype=None, **kw):
        return NP.asarray(a, dtype)

    @staticmethod
    def array(a, dtype=None, copy=True, **kw):
        if copy is False:          # NumPy 2: never copy, error if a copy would be needed
            if dtype is None or dtype == a.dtype:
                return NP.asarray(a, dtype)
            raise ValueError('Unable to avoid copy while creating an array as requested.')
        if copy is None:
            return NP.asarray(a, dtype)
        return a.astype(dtype if dtype is not None else a.dtype)


def _shape_len(shape):
    return 1


class ShapeTuple(tuple):
    pass


def load_pre():
    nd.DTYPE_AWARE = True
    return loader.load_unit('pre', dict(np=NP, float=symex.float_type, len=lambda a: (1 if isinstance(a, tuple) and len(a) == 1 else slen(a))), name='pre_under_test')


def sig(N, dtype, readonly, subclass=False):
    a = ND.fresh((N,), lambda idx: x(idx[0]), dtype)
    a.store.readonly = readonly
    a.is_subclass = subclass
    return a


def configs(tier, seed):
    cfgs = []
    for dt in ('f8', 'f4', 'i2'):
        for inp in (False, True):
            cfgs.append(dict(kind='preemph', name='preemphasize %s in_place=%s' % (dt, inp), dt=dt, in_place=inp))
            cfgs.append(dict(kind='dither', name='dither %s in_place=%s' % (dt, inp), dt=dt, in_place=inp))
    for kind in ('preemph', 'dither'):
        # the signal is an instance of an ndarray subclass (np.memmap, a user subclass): no-copy conversions hand back
        # another object on the same memory
        cfgs.append(dict(kind=kind, name='%s f8 in_place=False, ndarray subclass instance' % kind, dt='f8', in_place=False, subclass=True))
    # shapes include axes of length 1 and 0 (a mono column, an empty batch)
    shapes = [(2, 3), (3, 1), (1, 3), (3, 0), (2, 1, 2), (3, 2, 2), (2, 2, 3), (2, 3, 2, 2)] if tier == 'quick' else [(2, 3), (3, 2), (3, 1), (1, 3), (3, 0), (0, 3), (2, 1, 2), (1, 1, 3), (3, 2, 2), (2, 2, 3), (2, 3, 2), (4, 4, 4), (2, 3, 2, 2), (2, 2, 2, 3), (2, 1, 2, 1)]
    for shp in shapes:
        cfgs.append(dict(kind='preemph_axis', name='preemphasize along every axis of %s' % (shp,), shape=list(shp)))
    cfgs.append(dict(kind='torch_pre', name='torch preemphasize'))
    cfgs.append(dict(kind='torch_dither', name='torch dither'))
    cfgs.append(dict(kind='torch_mod_pre', name='torch module PyTorchPreemphasize (train / eval)'))
    cfgs.append(dict(kind='torch_mod_dither', name='torch module PyTorchDither (train / eval)'))
    return cfgs


def _cast(dt, v):
    return v if dt == 'f8' else nd.cast_fn(dt)(v)


def run_np(cfg):
    kind, dt, in_place = cfg['kind'], cfg['dt'], cfg['in_place']
    ns = load_pre()
    viol, samples = [], []
    ob = dis = 0

    def body():
        c = Ctx.cur
        N = z3.Int('N')
        co = z3.Real('coeff')
        c.assume(N >= 0)
        if kind == 'dither':
            c.assume(co >= 0)
        Rand.calls = []
        allowed_write = in_place and dt == 'f8'
        a = sig(conc(SInt(N)), dt, readonly=not allowed_write, subclass=bool(cfg.get('subclass')))
        try:
            obj = ns['Preemphasize' if kind == 'preemph' else 'Dither'](SReal(co))
            out = obj.apply(a, in_place=in_place)
        except Exception as e:
            symex.guard(e)
            return ('exception', '%s: %s' % (type(e).__name__, e))
        i = z3.Int('i')
        c.assume(i >= 0, i < N)
        bad = [_z(out.shape[0]) != N, z3.BoolVal(out.dtype != dt)]
        if not decide(N > 0):
            return ('ok', bad)
        ncalls = len(Rand.calls)
        # a second call on the same object with another signal of the same length: results are separate arrays, the first
        # one keeps its values (no working buffer of the object may be handed out)
        a2 = ND.fresh((conc(SInt(N)),), lambda idx: XB(idx[0]), dt)
        a2.store.readonly = not allowed_write
        try:
            out2 = obj.apply(a2, in_place=in_place)
        except Exception as e:
            symex.guard(e)
            return ('exception', 'second call: %s: %s' % (type(e).__name__, e))
        got = out.get(i)
        if kind == 'preemph':
            want = z3.If(i == 0, x(0), x(i) - symex.rmul(co, x(i - 1)))
            want2 = z3.If(i == 0, XB(0), XB(i) - symex.rmul(co, XB(i - 1)))
        else:
            want = x(i) + symex.rmul(co, NU(i))
            want2 = None          # second draw: another noise realisation (only aliasing is checked)
            bad.append(z3.BoolVal(ncalls != 1))
        bad.append(got != _cast(dt, want))
        if want2 is not None:
            bad.append(out2.get(i) != _cast(dt, want2))
        if not allowed_write:
            bad.append(a2.get(i) != XB(i))
        if allowed_write:
            # in place: same values, and they were written into the caller's array
            bad.append(a.get(i) != want)
        else:
            bad.append(a.get(i) != x(i))
        return ('ok', bad)

    for ctx, res in explore(body):
        if res is None:
            continue
        ob += 1
        base = dict(kind=kind, dt=dt, in_place=in_place, subclass=bool(cfg.get('subclass')))
        if res[0] == 'exception':
            m = ctx.model()
            viol.append(dict(base, what='exception ' + res[1], N=m.eval(z3.Int('N'), True).as_long(), coeff=str(m.eval(z3.Real('coeff'), True))))
            continue
        s = ctx.solver
        s.push()
        s.add(z3.Or(res[1]))
        r = check_sat(s)
        if r == 'sat':
            m = s.model()
            viol.append(dict(base, what='value/dtype/aliasing', N=m.eval(z3.Int('N'), True).as_long(), i=m.eval(z3.Int('i'), True).as_long(),
                             coeff=str(m.eval(z3.Real('coeff'), True))))
        else:
            dis += 1
            if len(samples) < 1:
                samples.append({'config': cfg['name'], 'obligation': 'forall N>=0, 0<=i<N, coeff: out[i] == spec(i)'})
        s.pop()
    for w in viol:
        w['class'] = '%s/%s/%s' % (kind, dt, w['what'].split()[0])
    return dict(obligations=ob, discharged=dis, violations=viol, samples=samples, twin=dis > 0)


# ------------------------------------------------------------------ torch functional forms

class TT(ND):
    """tensor shim: same lazy array, torch method names"""

    def new_zeros(self, n):
        return TT(ND.fresh((n,), lambda idx: z3.RealVal(0), self.dtype).store, dtype=self.dtype)

    def __getitem__(self, k):
        v = ND.__getitem__(self, k)
        if isinstance(v, ND):
            return TT(v.store, v.axes, v.dtype)
        return v

    def _bin(self, o, f):
        r = ND._bin(self, o, f)
        return TT(r.store, r.axes, r.dtype)


class TorchLite:
    calls = 0

    @staticmethod
    def concatenate(ts, dim=0):
        a, b = ts
        an = _z(a.shape[0])
        ag, bg = a.snapshot(), b.snapshot()
        r = ND.fresh((conc(SInt(an + _z(b.shape[0]))),), lambda idx: z3.If(idx[0] < an, ag(idx), bg((idx[0] - an,))), a.dtype)
        return TT(r.store, dtype=r.dtype)

    cat = concatenate

    @staticmethod
    def randn_like(t):
        TorchLite.calls += 1
        r = ND.fresh(t.shape, lambda idx: NU(idx[0]), t.dtype)
        return TT(r.store, dtype=r.dtype)


def run_torch(cfg):
    nd.DTYPE_AWARE = False
    ns = loader.load_unit('torch', name='pydrobert.speech.torch')
    ns['torch'] = TorchLite
    viol = []
    ob = dis = 0

    def body():
        c = Ctx.cur
        N = z3.Int('N')
        co = z3.Real('coeff')
        c.assume(N >= 0)
        TorchLite.calls = 0
        r0 = ND.fresh((conc(SInt(N)),), lambda idx: x(idx[0]), 'f8')
        r0.store.readonly = True
        t = TT(r0.store, dtype='f8')
        is_pre = cfg['kind'] in ('torch_pre', 'torch_mod_pre')
        if cfg['kind'] == 'torch_mod_dither':
            c.assume(co >= 0)        # the module's constructor rejects negative coefficients
        if cfg['kind'].startswith('torch_mod'):
            # the nn.Module wrappers, built by their real constructors (and from the NumPy pre-processors), in train and eval mode
            mod = ns['PyTorchPreemphasize' if is_pre else 'PyTorchDither'](SReal(co))
            if decide(z3.Bool('eval_mode')):
                mod.eval()
            fn = lambda sig_, co_: mod.forward(sig_)
        else:
            fn = ns['pytorch_preemphasize'] if is_pre else ns['pytorch_dither']
            fn = getattr(fn, '__wrapped__', fn)
        try:
            out = fn(t, SReal(co))
        except Exception as e:
            symex.guard(e)
            return ('exception', '%s: %s' % (type(e).__name__, e))
        i = z3.Int('i')
        c.assume(i >= 0, i < N)
        bad = [_z(out.shape[0]) != N]
        if not decide(N > 0):
            return ('ok', bad)
        if is_pre:
            want = z3.If(i == 0, x(0), x(i) - symex.rmul(co, x(i - 1)))
        else:
            want = x(i) + symex.rmul(co, NU(i))
            bad.append(z3.BoolVal(TorchLite.calls != 1))
        bad.append(out.get(i) != want)
        return ('ok', bad)

    for ctx, res in explore(body):
        if res is None:
            continue
        ob += 1
        if res[0] == 'exception':
            viol.append(dict(kind=cfg['kind'], what='exception ' + res[1], N=ctx.model().eval(z3.Int('N'), True).as_long(), **{'class': cfg['kind'] + '/exception'}))
            continue
        s = ctx.solver
        s.push()
        s.add(z3.Or(res[1]))
        r = check_sat(s)
        if r == 'sat':
            m = s.model()
            viol.append(dict(kind=cfg['kind'], what='value', N=m.eval(z3.Int('N'), True).as_long(), i=m.eval(z3.Int('i'), True).as_long(),
                             coeff=str(m.eval(z3.Real('coeff'), True)), eval_mode=z3.is_true(m.eval(z3.Bool('eval_mode'), True)), **{'class': cfg['kind'] + '/value'}))
        else:
            dis += 1
        s.pop()
    return dict(obligations=ob, discharged=dis, violations=viol, samples=[{'config': cfg['name'], 'obligation': 'forall N, i<N: out[i] == spec(i)'}], twin=dis > 0)


def run_axis(cfg):
    """Preemphasize.apply along an explicit axis of a higher-rank array: real NumPy object arrays of z3 terms (object-array
    mode), so every moveaxis / view / in-place slice assignment is NumPy's own; element terms are compared with
    x[idx] - coeff * x[idx - e_axis] for every index, and the aliasing contract (input untouched unless in_place on
    float64, then overwritten with the same values) on the raw cells."""
    import warnings
    import numpy as np
    from checks.objarr import Sym, sym, NPProxy, rq
    ns = loader.load_unit('pre', dict(np=NPProxy()), name='pre_axis_under_test')
    shape = tuple(cfg['shape'])
    r = len(shape)
    viol = []
    ob = dis = 0
    co = 0.75
    for axis in [None] + list(range(-r, r)):
        for dt in ('f8', 'f4'):
            for ip in (False, True):
                ob += 1
                a = sym(shape, ld=dt)
                before = a.raw().copy()
                base = dict(kind='preemph_axis', shape=list(shape), axis=axis, dt=dt, in_place=ip)
                try:
                    with warnings.catch_warnings():
                        warnings.simplefilter('ignore')
                        out = ns['Preemphasize'](co).apply(a, axis=axis, in_place=ip) if axis is not None else ns['Preemphasize'](co).apply(a, in_place=ip)
                except Exception as e:
                    symex.guard(e)
                    viol.append(dict(base, what='exception %s: %s' % (type(e).__name__, e)))
                    continue
                ax = (r - 1) if axis is None else axis % r
                if not isinstance(out, np.ndarray) or out.shape != shape:
                    viol.append(dict(base, what='result shape %s' % (getattr(out, 'shape', None),)))
                    continue
                if np.dtype(out.dtype) != np.dtype(dt):
                    viol.append(dict(base, what='result dtype %s' % out.dtype))
                    continue
                oraw = out.raw() if isinstance(out, Sym) else np.asarray(out, dtype=object)
                bad = None
                for idx in np.ndindex(*shape):
                    want = rq(before[idx])
                    if idx[ax] > 0:
                        prev = list(idx)
                        prev[ax] -= 1
                        want = want - rq(co) * rq(before[tuple(prev)])
                    if not z3.simplify(rq(oraw[idx]) - want).eq(z3.RealVal(0)) and not z3.is_true(z3.simplify(rq(oraw[idx]) == want)):
                        s_ = z3.Solver()
                        s_.add(rq(oraw[idx]) != want)
                        if check_sat(s_) == 'sat':
                            bad = idx
                            break
                if bad is not None:
                    viol.append(dict(base, what='value at %s' % (bad,)))
                    continue
                araw = a.raw()
                changed = any(araw[idx] is not before[idx] for idx in np.ndindex(*shape))
                if changed and not (ip and dt == 'f8'):
                    viol.append(dict(base, what='input modified'))
                    continue
                dis += 1
    for w in viol:
        w['class'] = 'preemph_axis/%s/%s' % (w['what'].split()[0], 'last' if w['axis'] in (None, -1, r - 1) else 'inner')
    return dict(obligations=ob, discharged=dis, violations=viol, twin=dis > 0,
                samples=[{'config': cfg['name'], 'obligation': 'forall element values: out[idx] == x[idx] - c x[idx - e_axis], every axis (negative too), float64/float32, in_place both ways'}])


def run_config(cfg):
    if cfg['kind'] == 'preemph_axis':
        return run_axis(cfg)
    if cfg['kind'] in ('preemph', 'dither'):
        return run_np(cfg)
    return run_torch(cfg)


def _coeff(w):
    from fractions import Fraction
    try:
        return float(Fraction(w.get('coeff', '0.97').replace('?', '')))
    except Exception:
        return 0.97


def replay(w):
    import numpy as np
    from pydrobert.speech.pre import Preemphasize, Dither
    k = w['kind']
    dtn = {'f8': np.float64, 'f4': np.float32, 'i2': np.int16}
    coeffs = [_coeff(w), 0.0, 0.97, 1.0, 2.5]
    Ns = sorted(set([w.get('N', 5), 0, 1, 2, 7]))
    rng = np.random.RandomState(1)
    if k == 'preemph_axis':
        import warnings
        shape, axis = tuple(w['shape']), w['axis']
        dt = dtn[w['dt']]
        xs = (rng.randn(*shape) * 10).astype(dt)
        orig = xs.copy()
        try:
            with warnings.catch_warnings():
                warnings.simplefilter('ignore')
                got = Preemphasize(0.75).apply(xs, axis=axis, in_place=w['in_place']) if axis is not None else Preemphasize(0.75).apply(xs, in_place=w['in_place'])
        except Exception as e:
            return {'reproduced': True, 'detail': 'Preemphasize.apply(shape %s, axis=%s) raised %s: %s' % (shape, axis, type(e).__name__, e)}
        ax = len(shape) - 1 if axis is None else axis % len(shape)
        o64 = np.moveaxis(orig.astype(np.float64), ax, -1)
        want = o64.copy()
        want[..., 1:] = o64[..., 1:] - 0.75 * o64[..., :-1]
        want = np.moveaxis(want, -1, ax).astype(dt)
        if got.shape != want.shape or got.dtype != want.dtype or not np.array_equal(got, want):
            return {'reproduced': True, 'detail': 'Preemphasize.apply on a %s array of shape %s along axis %s: %s' % (
                w['dt'], shape, axis, 'shape %s instead of %s' % (got.shape, want.shape) if got.shape != want.shape else 'values differ from x[i] - c x[i-1] along that axis')}
        if not (w['in_place'] and dt == np.float64) and not np.array_equal(xs, orig):
            return {'reproduced': True, 'detail': 'input modified'}
        return {'reproduced': False, 'detail': 'matches'}
    if k in ('torch_mod_pre', 'torch_mod_dither'):
        import torch
        from pydrobert.speech.torch import PyTorchPreemphasize, PyTorchDither
        for N in Ns:
            xs = rng.randn(N)
            for co in coeffs:
                for ev in (False, True):
                    mod = PyTorchPreemphasize(co) if k == 'torch_mod_pre' else PyTorchDither(max(co, 0.0))
                    if ev:
                        mod.eval()
                    torch.manual_seed(3)
                    with torch.no_grad():
                        got = mod(torch.tensor(xs)).numpy()
                    if k == 'torch_mod_pre':
                        want = xs.copy()
                        want[1:] = xs[1:] - co * xs[:-1]
                    else:
                        torch.manual_seed(3)
                        want = xs + max(co, 0.0) * torch.randn(N, dtype=torch.float64).numpy()
                    if got.shape != want.shape or not np.allclose(got, want, atol=1e-12):
                        return {'reproduced': True, 'detail': '%s(%r) in %s mode on %d samples: differs from the documented transform (max diff %.3g)' % (
                            'PyTorchPreemphasize' if k == 'torch_mod_pre' else 'PyTorchDither', co, 'eval' if ev else 'train', N, float(np.abs(got - want).max()) if got.shape == want.shape and N else float('nan'))}
        return {'reproduced': False, 'detail': 'torch modules match in train and eval mode'}
    if k in ('torch_pre', 'torch_dither'):
        import torch
        from pydrobert.speech.torch import pytorch_preemphasize, pytorch_dither
        for N in Ns:
            xs = rng.randn(N)
            for co in coeffs:
                if k == 'torch_pre':
                    got = pytorch_preemphasize(torch.tensor(xs), co).numpy()
                    want = xs.copy()
                    want[1:] = xs[1:] - co * xs[:-1]
                else:
                    if co < 0:
                        continue
                    torch.manual_seed(3)
                    got = pytorch_dither(torch.tensor(xs), co).numpy()
                    torch.manual_seed(3)
                    want = xs + co * torch.randn(N, dtype=torch.float64).numpy()
                if got.shape != want.shape or not np.allclose(got, want, atol=1e-12):
                    return {'reproduced': True, 'detail': '%s N=%d coeff=%r: got %s want %s' % (k, N, co, got[:4], want[:4])}
        return {'reproduced': False, 'detail': 'torch forms match'}
    dt = dtn[w['dt']]
    for N in Ns:
        base = rng.randn(N) * 100
        for co in coeffs:
            xs = base.astype(dt)
            orig = xs.copy()
            if w.get('subclass'):
                class _Sub(np.ndarray):
                    pass
                xs = xs.view(_Sub)          # writable on purpose: a silent write into the caller's memory must show
            elif w['in_place'] is False:
                xs.setflags(write=False)
            try:
                if k == 'preemph':
                    got = Preemphasize(co).apply(xs, in_place=w['in_place'])
                    want64 = orig.astype(np.float64)
                    want64[1:] = orig.astype(np.float64)[1:] - co * orig.astype(np.float64)[:-1]
                else:
                    if co < 0:
                        continue
                    np.random.seed(5)
                    got = Dither(co).apply(xs, in_place=w['in_place'])
                    np.random.seed(5)
                    want64 = orig.astype(np.float64) + np.random.normal(0, 1, N) * co
            except Exception as e:
                return {'reproduced': True, 'detail': '%s dtype=%s N=%d coeff=%r in_place=%s raised %s: %s' % (k, w['dt'], N, co, w['in_place'], type(e).__name__, e)}
            want = want64.astype(dt)
            if got.dtype != dt or got.shape != want.shape or not np.array_equal(got, want):
                return {'reproduced': True, 'detail': '%s dtype=%s N=%d coeff=%r in_place=%s: result differs from float64 computation cast back (first diff at %s)'
                        % (k, w['dt'], N, co, w['in_place'], np.argwhere(got != want)[:1].tolist() if got.shape == want.shape else 'shape')}
            if not (w['in_place'] and dt == np.float64) and not np.array_equal(xs, orig):
                return {'reproduced': True, 'detail': '%s in_place=%s: input (%s) modified' % (k, w['in_place'], 'ndarray subclass instance' if w.get('subclass') else 'plain ndarray')}
            # two calls on one object: the first result must keep its values and its own memory
            obj = Preemphasize(co) if k == 'preemph' else Dither(max(co, 0.0))
            x1, x2 = (rng.randn(N) * 50).astype(dt), (rng.randn(N) * 50).astype(dt)
            y1 = obj.apply(x1.copy(), in_place=w['in_place'])
            keep = y1.copy()
            x2c = x2.copy()
            y2 = obj.apply(x2c, in_place=w['in_place'])
            if N and (not np.array_equal(y1, keep) or np.shares_memory(y1, y2)):
                return {'reproduced': True, 'detail': '%s dtype=%s N=%d in_place=%s: the result of the first call changed after (or shares memory with) a second call on the same object' % (k, w['dt'], N, w['in_place'])}
            if not (w['in_place'] and dt == np.float64) and not np.array_equal(x2c, x2):
                return {'reproduced': True, 'detail': 'input of the second call modified'}
    return {'reproduced': False, 'detail': 'real pre-processor matches the documented transform on the neighbourhood'}
