"""C19 -- scaling functions are strictly increasing and exactly invertible (DESIGN 3/C19)."""
import z3

from vlib import loader, symex
from vlib.mathnp import MathNP
from vlib.symex import Ctx, SReal, explore, check_sat, smax, smin, rv, Inconclusive

PID = 'C19'
LEVEL = 'model_checking'
FUNCTIONS = ['scales:LinearScaling.scale_to_hertz', 'scales:LinearScaling.hertz_to_scale',
             'scales:OctaveScaling.__init__', 'scales:OctaveScaling.scale_to_hertz', 'scales:OctaveScaling.hertz_to_scale',
             'scales:MelScaling.scale_to_hertz', 'scales:MelScaling.hertz_to_scale',
             'scales:BarkScaling.scale_to_hertz', 'scales:BarkScaling.hertz_to_scale']
EXPLANATION = (
    'The real scaling-function methods are executed on symbolic reals (every branch of the piecewise Bark maps is a '
    'solver-decided fork); z3 (NRA/LRA) then decides, over the whole domain, both compositions = identity, strict '
    'monotonicity (two symbolic inputs a < b => f(a) < f(b)) and a Lipschitz bound across all branch combinations '
    '(no jump at the Bark break-points). log/exp/log2/2** are uninterpreted strictly increasing inverse pairs whose '
    'axioms are instantiated on the occurring terms. OctaveScaling.__init__ must raise ValueError iff low_hz <= 0.')
BOUNDS = {'quick': 'all real f in [0, 1e5] Hz (octave: f >= low_hz > 0), all scale values in the image, linear slope > 0, any low_hz; integer-typed arguments (Python int, np.int32, np.int64) 0..100000 Hz and integer scale values 0..40 whose frequency lies in the domain; public parameters reassigned after construction (linear, octave)',
          'thorough': 'same (the domain is already unbounded inside [0, 1e5]); additionally negative linear offsets and octave low_hz down to 1e-9'}
OUTSIDE = ['floating-point error of the compositions ("exactly invertible" is decided over the reals)',
           'numerical agreement of log/exp with the published constants beyond the anchor 1000 Hz ~ 1000 mel (one concrete evaluation)',
           'LinearScaling with slope <= 0 (decreasing by construction; documented meaning of slope_hz is an increase)']
ASSUMPTIONS = ['an integer base raised to a fixed-width NumPy integer is computed in that width and wraps (2 ** np.int32(31) == -2**31, 2 ** np.int32(32) == 0); 2 ** k is exact for integer 0 <= k <= 45',
               'float literals in the source are read as their decimal values (26.81 = 2681/100), arithmetic over the reals',
               'np.log/np.exp and np.log2/2** are strictly increasing mutually inverse bijections (0,inf) <-> R (axioms instantiated on occurring terms)',
               'continuity of each closed-form piece (rational functions without poles in the domain, affine maps of log/exp)']
CONFIG_TIME_LIMIT = {'quick': 300, 'thorough': 900}
FMAX = 100000


def load():
    symex.FLOAT_AS_DECIMAL = True   # literals such as 26.81 are the decimals the published formulas state
    return loader.load_unit('scales', dict(np=MathNP, max=smax, min=smin, float=symex.float_type), name='scales_under_test')


def configs(tier, seed):
    cfgs = []
    for sc in ('linear', 'octave', 'mel', 'bark'):
        for ob in ('inv_hz', 'inv_scale', 'mono_h2s', 'mono_s2h', 'lipschitz', 'int_arg', 'reassigned'):
            if ob == 'reassigned' and sc not in ('linear', 'octave'):
                continue
            if ob == 'int_arg':
                for ik in ('int', 'int32', 'int64'):
                    cfgs.append(dict(kind='scale', name='%s %s %s' % (sc, ob, ik), scale=sc, ob=ob, ikind=ik))
                continue
            cfgs.append(dict(kind='scale', name='%s %s' % (sc, ob), scale=sc, ob=ob))
    cfgs.append(dict(kind='octave_ctor', name='octave constructor'))
    cfgs.append(dict(kind='anchor', name='mel/bark anchors'))
    return cfgs


class SMachInt(symex.SInt):
    """NumPy fixed-width integer scalar (np.int32 / np.int64): like an integer, except that an integer base raised to it
    is computed in that width and wraps (2 ** np.int32(31) == -2**31, 2 ** np.int32(32) == 0)"""
    bits = 32

    def __rpow__(self, base):
        if isinstance(base, int) and not isinstance(base, bool) and base == 2:
            b = self.bits
            return SReal(z3.If(self.z < b - 1, _exact_pow2(self.z), z3.If(self.z == b - 1, z3.RealVal(-(2 ** (b - 1))), z3.RealVal(0))))
        return _int_rpow(self, base)


def _exact_pow2(kz):
    """2 ** k for an integer term 0 <= k <= 45 as an exact case distinction (outside: the uninterpreted POW2)"""
    from vlib.mathnp import LOG2POW2
    e = LOG2POW2.g(z3.ToReal(kz))
    for k in range(45, -1, -1):
        e = z3.If(kz == k, z3.RealVal(2 ** k), e)
    return e


def _int_rpow(self, base):
    if base == 2:           # int or float base: mathematically exact power of an integer exponent
        return SReal(_exact_pow2(self.z))
    raise symex.Unsupported('%r ** integer proxy' % (base,))


symex.SInt.__rpow__ = _int_rpow


class SMachInt64(SMachInt):
    bits = 64


def _make(ns, scale):
    """instance + domain assumptions; returns (obj, lowest valid hertz as z3 term)"""
    c = Ctx.cur
    if scale == 'linear':
        low, slope = z3.Real('low_hz'), z3.Real('slope_hz')
        c.assume(slope > 0, slope <= 1000, low >= -FMAX, low <= FMAX)
        return ns['LinearScaling'](SReal(low), SReal(slope)), z3.RealVal(0)
    if scale == 'octave':
        low = z3.Real('low_hz')
        c.assume(low > 0, low <= FMAX)
        return ns['OctaveScaling'](SReal(low)), low
    if scale == 'mel':
        return ns['MelScaling'](), z3.RealVal(0)
    return ns['BarkScaling'](), z3.RealVal(0)


def run_scale(cfg):
    scale, obn = cfg['scale'], cfg['ob']
    ns = load()
    viol, samples = [], []
    ob = dis = 0

    def body():
        c = Ctx.cur
        o, lo = _make(ns, scale)
        f = z3.Real('f')
        c.assume(f >= lo, f <= FMAX)
        try:
            if obn == 'int_arg':
                # an integer-typed argument (Python int / NumPy integer) is a real number like any other: same value as the float
                n = z3.Int('n')
                c.assume(z3.ToReal(n) >= lo, n >= 0, n <= 100000)
                if scale == 'octave':
                    c.assume(n >= 1)
                SInt = {'int': symex.SInt, 'int32': SMachInt, 'int64': SMachInt64}[cfg.get('ikind', 'int')]
                SInt0 = symex.SInt        # reference: the same integer with unbounded (Python int) arithmetic
                hi_, hf_ = o.hertz_to_scale(SInt(n)), o.hertz_to_scale(SReal(z3.ToReal(n)))
                k = z3.Int('k')
                c.assume(k >= 0, k <= 40)
                sf_ = o.hertz_to_scale(SReal(f))
                from vlib.mathnp import LOG2POW2
                c.assume(LOG2POW2.g(z3.ToReal(k)) == _exact_pow2(k))       # the uninterpreted 2 ** x agrees with the exact power at the integer k
                si_, sr_ = o.scale_to_hertz(SInt(k)), o.scale_to_hertz(SReal(z3.ToReal(k)))      # reference: the float of equal value
                c.assume(rv(sr_) >= lo, rv(sr_) <= FMAX)        # the scale value lies in the image of the domain [lowest, 10^5] Hz
                # the integer scale value must lie in the image for the comparison to be meaningful: k == h2s(f) for some f
                return ('ok', z3.Or(rv(hi_) != rv(hf_), rv(si_) != rv(sr_)))
            if obn == 'reassigned':
                # low_hz / slope_hz are public attributes: after reassigning them the two maps are still inverse to each other
                try:
                    if scale == 'linear':
                        l2, s2 = z3.Real('low_hz2'), z3.Real('slope_hz2')
                        c.assume(s2 > 0, s2 <= 1000, l2 >= -FMAX, l2 <= FMAX)
                        o.low_hz, o.slope_hz = SReal(l2), SReal(s2)
                    else:
                        l2 = z3.Real('low_hz2')
                        c.assume(l2 > 0, l2 <= FMAX, f >= l2)
                        o.low_hz = SReal(l2)
                except AttributeError:
                    return ('skip',)        # parameters made read-only: nothing to check
                s = o.hertz_to_scale(SReal(f))
                back = o.scale_to_hertz(s)
                return ('ok', rv(back) != f)
            if obn == 'inv_hz':
                s = o.hertz_to_scale(SReal(f))
                back = o.scale_to_hertz(s)
                return ('ok', rv(back) != f)
            if obn == 'inv_scale':
                # scale values in the image: s = h2s(f) for some f in the domain; then h2s(s2h(s)) == s
                s0 = o.hertz_to_scale(SReal(f))
                sv = z3.Real('s')
                c.assume(sv == rv(s0))
                hz = o.scale_to_hertz(SReal(sv))
                back = o.hertz_to_scale(hz)
                return ('ok', rv(back) != sv)
            g = z3.Real('g')
            c.assume(g >= lo, g <= FMAX, f < g)
            if obn == 'mono_h2s':
                return ('ok', rv(o.hertz_to_scale(SReal(f))) >= rv(o.hertz_to_scale(SReal(g))))
            sf, sg = o.hertz_to_scale(SReal(f)), o.hertz_to_scale(SReal(g))
            if obn == 'mono_s2h':
                a, b = z3.Real('a'), z3.Real('b')
                c.assume(a == rv(sf), b == rv(sg))
                return ('ok', rv(o.scale_to_hertz(SReal(a))) >= rv(o.scale_to_hertz(SReal(b))))
            # lipschitz: |h2s(g) - h2s(f)| <= K (g - f) and |s2h(b) - s2h(a)| <= K' (b - a) across every pair of branches
            if scale != 'bark':
                return ('skip',)
            a, b = z3.Real('a'), z3.Real('b')
            c.assume(a == rv(sf), b == rv(sg))
            ha, hb = o.scale_to_hertz(SReal(a)), o.scale_to_hertz(SReal(b))
            return ('ok', z3.Or(rv(sg) - rv(sf) > z3.RealVal('0.02') * (g - f), rv(sg) - rv(sf) < 0,
                                rv(hb) - rv(ha) > 250000 * (b - a), rv(hb) - rv(ha) < 0))
        except Exception as e:
            symex.guard(e)
            return ('exception', '%s: %s' % (type(e).__name__, e))

    for ctx, res in explore(body):
        if res is None or res[0] == 'skip':
            continue
        ob += 1
        base = dict(kind='scale', scale=scale, ob=obn, ikind=cfg.get('ikind'))
        if res[0] == 'exception':
            m = ctx.model()
            viol.append(dict(base, what='exception ' + res[1], f=_val(m, 'f'), g=_val(m, 'g'), low_hz=_val(m, 'low_hz'), slope_hz=_val(m, 'slope_hz')))
            continue
        s = ctx.solver
        s.push()
        s.add(res[1])
        r = check_sat(s)
        if r == 'sat':
            m = s.model()
            viol.append(dict(base, what=obn, f=_val(m, 'f'), g=_val(m, 'g'), low_hz=_val(m, 'low_hz'), slope_hz=_val(m, 'slope_hz'), low_hz2=_val(m, 'low_hz2'),
                             slope_hz2=_val(m, 'slope_hz2'), n=m.eval(z3.Int('n'), True).as_long(), k=m.eval(z3.Int('k'), True).as_long()))
        else:
            dis += 1
            if len(samples) < 1:
                samples.append({'config': cfg['name'], 'obligation': str(res[1])[:300]})
        s.pop()
    for w in viol:
        w['class'] = 'scale/%s/%s' % (scale, obn)
    return dict(obligations=ob, discharged=dis, violations=viol, samples=samples, twin=ob > 0 or obn == 'lipschitz')


def _val(m, name):
    v = m.eval(z3.Real(name), model_completion=True)
    try:
        if z3.is_rational_value(v):
            return float(v.as_fraction())
        return float(v.approx(20).as_fraction())
    except Exception:
        return str(v)


def run_octave_ctor(cfg):
    ns = load()
    viol = []
    ob = dis = 0

    def body():
        low = z3.Real('low_hz')
        Ctx.cur.assume(low >= -FMAX, low <= FMAX)
        try:
            ns['OctaveScaling'](SReal(low))
        except ValueError:
            return ('raised', low)
        except Exception as e:
            symex.guard(e)
            return ('exception', '%s' % type(e).__name__)
        return ('accepted', low)

    for ctx, res in explore(body):
        if res is None:
            continue
        ob += 1
        s = ctx.solver
        if res[0] == 'exception':
            viol.append(dict(kind='octave_ctor', what='constructor raised ' + res[1], low_hz=_val(ctx.model(), 'low_hz'), **{'class': 'octave_ctor'}))
            continue
        bad = res[1] > 0 if res[0] == 'raised' else res[1] <= 0
        s.push()
        s.add(bad)
        r = check_sat(s)
        if r == 'sat':
            viol.append(dict(kind='octave_ctor', what='low_hz %s' % res[0], low_hz=_val(s.model(), 'low_hz'), **{'class': 'octave_ctor/' + res[0]}))
        else:
            dis += 1
        s.pop()
    return dict(obligations=ob, discharged=dis, violations=viol, samples=[{'config': 'octave ctor', 'obligation': 'ValueError iff low_hz <= 0'}], twin=ob >= 2)


def run_anchor(cfg):
    """published formulas at anchor points: one concrete evaluation of the real functions each (not symbolic)"""
    import math
    ns = loader.load_unit('scales', name='scales_concrete')
    viol = []
    checks = []
    mel, bark = ns['MelScaling'](), ns['BarkScaling']()
    checks.append(('1000 Hz is 1000 mel +- 0.02', abs(mel.hertz_to_scale(1000.0) - 1000.0) <= 0.02))
    checks.append(('mel formula 1127 ln(1+f/700) at 4000 Hz', abs(mel.hertz_to_scale(4000.0) - 1127 * math.log(1 + 4000 / 700.0)) < 1e-9))
    for f in (0.0, 100.0, 204.0, 1000.0, 6542.0, 7000.0, 20000.0):
        z = 26.81 * f / (1960 + f) - 0.53
        want = z + 0.15 * (2 - z) if z < 2 else (z + 0.22 * (z - 20.1) if z > 20.1 else z)
        checks.append(('bark (Traunmueller) at %g Hz' % f, abs(bark.hertz_to_scale(f) - want) < 1e-9))
    for name, ok in checks:
        if not ok:
            viol.append(dict(kind='anchor', what=name, **{'class': 'anchor/' + name}))
    return dict(obligations=len(checks), discharged=len(checks) - len(viol), violations=viol,
                samples=[{'config': 'anchors', 'points': [c[0] for c in checks]}], twin=True)


def run_config(cfg):
    return {'scale': run_scale, 'octave_ctor': run_octave_ctor, 'anchor': run_anchor}[cfg['kind']](cfg)


def replay(w):
    import math
    import numpy as np
    from pydrobert.speech import scales
    if w['kind'] == 'anchor':
        return {'reproduced': True, 'detail': w['what']}
    if w['kind'] == 'octave_ctor':
        low = w['low_hz']
        try:
            scales.OctaveScaling(low)
            acc = True
        except ValueError:
            acc = False
        bad = acc != (low > 0)
        return {'reproduced': bad, 'detail': 'OctaveScaling(%r) %s' % (low, 'accepted' if acc else 'raised ValueError')}
    sc = w['scale']
    try:
        if sc == 'linear':
            o = scales.LinearScaling(w['low_hz'], w['slope_hz'])
        elif sc == 'octave':
            o = scales.OctaveScaling(w['low_hz'])
        elif sc == 'mel':
            o = scales.MelScaling()
        else:
            o = scales.BarkScaling()
        f, g = w.get('f'), w.get('g')
        pts = sorted(set([x for x in (f, g) if isinstance(x, float)]))
        # neighbourhood scan around the witness (the solver's reals may be irrational / borderline)
        grid = []
        for p in pts or [0.0]:
            grid += [p, p * (1 - 1e-9), p * (1 + 1e-9), p + 1e-6, max(0.0, p - 1e-6)]
        grid = sorted(set(x for x in grid if x >= (w.get('low_hz') if sc == 'octave' else 0)))
        ob = w['ob'] if 'ob' in w else ''
        if ob == 'int_arg':
            import numpy as _np
            for n_ in sorted(set([int(w.get('n', 1)), int(w.get('k', 1)), 0, 1, 2, 3, 19, 20, 21, 22, 25])):
                for mk in {'int32': (_np.int32,), 'int64': (_np.int64,)}.get(w.get('ikind'), (int,)):
                    for name in ('hertz_to_scale', 'scale_to_hertz'):
                        if sc == 'octave' and name == 'hertz_to_scale' and n_ < max(1, w.get('low_hz') or 1):
                            continue
                        try:
                            a_, b_ = getattr(o, name)(mk(n_)), getattr(o, name)(float(n_))
                        except Exception as e:
                            return {'reproduced': True, 'detail': '%s.%s(%s(%d)) raised %s' % (sc, name, mk.__name__, n_, type(e).__name__)}
                        if not (abs(float(a_) - float(b_)) <= 1e-9 * max(1.0, abs(float(b_)))):
                            return {'reproduced': True, 'detail': '%s.%s(%s(%d)) = %r but %s(%r) = %r: an integer-typed argument is treated differently' % (sc, name, mk.__name__, n_, a_, name, float(n_), b_)}
            return {'reproduced': False, 'detail': 'integer-typed arguments give the same values'}
        if ob == 'reassigned':
            try:
                if sc == 'linear':
                    o.low_hz, o.slope_hz = w.get('low_hz2', 3.0), w.get('slope_hz2', 2.0)
                else:
                    o.low_hz = w.get('low_hz2', 440.0)
            except AttributeError:
                return {'reproduced': False, 'detail': 'parameters are read-only'}
            lo_ = o.low_hz if sc == 'octave' else 0.0
            for x in sorted(set([max(f or 1.0, lo_), lo_ + 1.0, 2 * lo_ + 10.0, 1000.0 + lo_])):
                s_ = o.hertz_to_scale(x)
                if abs(o.scale_to_hertz(s_) - x) > 1e-6 * max(1, abs(x)):
                    return {'reproduced': True, 'detail': '%s: after reassigning the public parameters (low_hz=%r) the round trip of %r Hz gives %r Hz' % (sc, o.low_hz, x, o.scale_to_hertz(s_))}
            return {'reproduced': False, 'detail': 'round trips fine after reassignment'}
        if ob.startswith('inv'):
            for x in grid:
                s = o.hertz_to_scale(x)
                if abs(o.scale_to_hertz(s) - x) > 1e-6 * max(1, abs(x)) or abs(o.hertz_to_scale(o.scale_to_hertz(s)) - s) > 1e-6 * max(1, abs(s)):
                    return {'reproduced': True, 'detail': '%s: round trip of %r Hz gives %r Hz' % (sc, x, o.scale_to_hertz(s))}
            return {'reproduced': False, 'detail': 'round trips fine near %s' % pts}
        if len(pts) == 2:
            a, b = pts
            sa, sb = o.hertz_to_scale(a), o.hertz_to_scale(b)
            if ob == 'mono_h2s' and not sa < sb:
                return {'reproduced': True, 'detail': '%s.hertz_to_scale not increasing: f(%r)=%r >= f(%r)=%r' % (sc, a, sa, b, sb)}
            if ob == 'mono_s2h' and not o.scale_to_hertz(sa) < o.scale_to_hertz(sb):
                return {'reproduced': True, 'detail': '%s.scale_to_hertz not increasing at scales %r < %r' % (sc, sa, sb)}
            if ob == 'lipschitz':
                ha, hb = o.scale_to_hertz(sa), o.scale_to_hertz(sb)
                if sb - sa > 0.02 * (b - a) + 1e-12 or sb < sa or hb - ha > 250000 * (sb - sa) + 1e-9 or hb < ha:
                    return {'reproduced': True, 'detail': '%s jumps between %r and %r Hz: scale %r -> %r' % (sc, a, b, sa, sb)}
        return {'reproduced': False, 'detail': 'not reproduced at %s' % pts}
    except Exception as e:
        return {'reproduced': True, 'detail': 'real scaling function raised %s: %s' % (type(e).__name__, e)}
