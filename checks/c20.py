"""C20 -- windows and helper functions follow their documented closed forms (DESIGN 3/C20)."""
import math

import z3

from vlib import loader, symex, nd
from vlib.mathnp import MathNP, LOGEXP
from vlib.nd import ND
from vlib.symex import (Ctx, SInt, SReal, SBool, _z, rv, conc, decide, explore, check_sat, smax, smin, slen, sint,
                        Inconclusive, Unsupported)

PID = 'C20'
LEVEL = 'model_checking'
FUNCTIONS = ['filters:BartlettWindow.get_impulse_response', 'filters:BlackmanWindow.get_impulse_response',
             'filters:HammingWindow.get_impulse_response', 'filters:HannWindow.get_impulse_response',
             'filters:GammaWindow.get_impulse_response', 'util:circshift_fourier', 'util:_gauss_quant_odeh_evans',
             'util:hertz_to_angular', 'util:angular_to_hertz']
EXPLANATION = (
    'Windows: get_impulse_response is executed with a SYMBOLIC width; numpy.bartlett/blackman/hamming/hanning are '
    'replaced by their documented formulas over an uninterpreted COS (|COS| <= 1, double-angle link); z3 decides for an '
    'arbitrary sample index that the sample equals shape(n, width) / (a0 * max(1, width-1)), that the length is width '
    '(0 for width <= 0) and that samples are non-negative. GammaWindow: argument of the exponential and the polynomial '
    'factor equal the reflected gamma density with alpha = (order-1)/(width - peak*width). circshift_fourier: real code '
    'run with a symbolic (real) shift, for every small (dft_size, start, length, copy, dft_size given or None): element k '
    'is filt[k] * E(c_k) with c_k - (-shift * ((start+k) mod D) / D) an integer (shift theorem modulo whole turns), input '
    'untouched when copy=True. gauss_quant (Odeh-Evans): affine in mu/std, strictly increasing in p (rational function '
    'monotone on the y-range by NRA; log/sqrt as monotone uninterpreted functions). Hz <-> rad/sample inverses (NRA).')
BOUNDS = {'quick': 'windows: any width (symbolic int), any sample index; gamma orders 1-6, any peak in (0,1); circshift: D in 1..6, start 0..D, length 0..D+1, any real shift; gauss_quant: all p in (0,1), any mu, std > 0',
          'thorough': 'circshift D up to 9'}
OUTSIDE = ['trigonometric-sum lemma (sum_n cos(2 pi n/(M-1)) = 1) that turns "divided by a0*(M-1)" into "sums to 1 + O(1/M)" is trusted, not re-proved',
           'gauss_quant accuracy of 1e-6 against the true normal quantile (needs erf)', 'floating point',
           'scipy branch of gauss_quant (scipy is not installed in this environment)']
ASSUMPTIONS = ['gauss_quant: y(r) = sqrt(-2 ln r) is a strictly decreasing function of r with sqrt(2 ln 2) in (1.177410022515, 1.177410022516) and sqrt(-2 ln 1e-20) in (9.59705, 9.59706) (cut: the rational approximation in y is the code that is analysed)',
               'numpy window functions follow their documented formulas (stand-ins validated against real NumPy for widths 0..64 in conformance)',
               'exp(-2 pi i c) depends only on c modulo 1', 'ln(1e-20) in (-46.0518, -46.0517), ln(0.5) in (-0.693148, -0.693147) (numeric anchors for the clamp / mid-point)']
CONFIG_TIME_LIMIT = {'quick': 600, 'thorough': 1800}

R, I = z3.RealSort(), z3.IntSort()
COS = z3.Function('COS', R, R)     # COS(t) := cos(2 pi t)   (argument in turns)
EXPARG = []


def _cos(t):
    """cos(2 pi t) with axioms on the instance"""
    t = z3.simplify(t)
    v = COS(t)
    c = Ctx.cur
    c.solver.add(v >= -1, v <= 1, COS(2 * t) == 2 * v * v - 1, z3.Implies(t == 0, v == 1), z3.Implies(t == 1, v == 1),
                 z3.Implies(t == z3.RealVal('1/2'), v == -1))
    return v


def _win(M, fn, one=1.0):
    """numpy.<window>(M): [] for M < 1, ones(1) for M == 1, else fn(n, M) for n = 0..M-1"""
    Mz = _z(M)
    if decide(Mz < 1):
        return ND.fresh((0,), lambda idx: z3.RealVal(0), 'f8')
    if decide(Mz == 1):
        return ND.fresh((1,), lambda idx: z3.RealVal(1), 'f8')
    return ND.fresh((conc(SInt(Mz)),), lambda idx: fn(z3.ToReal(idx[0]), z3.ToReal(Mz)), 'f8')


def w_hanning(n, M):
    return z3.RealVal('1/2') - z3.RealVal('1/2') * _cos(n / (M - 1))


def w_hamming(n, M):
    return z3.RealVal('27/50') - z3.RealVal('23/50') * _cos(n / (M - 1))


def w_blackman(n, M):
    return z3.RealVal('21/50') - z3.RealVal('1/2') * _cos(n / (M - 1)) + z3.RealVal('2/25') * _cos(2 * (n / (M - 1)))


def w_bartlett(n, M):
    h = (M - 1) / 2
    return z3.If(n <= h, 2 * n / (M - 1), 2 - 2 * n / (M - 1))


class WNP(MathNP):
    @staticmethod
    def hanning(M):
        return _win(M, w_hanning)

    @staticmethod
    def hamming(M):
        return _win(M, w_hamming)

    @staticmethod
    def blackman(M):
        return _win(M, w_blackman)

    @staticmethod
    def bartlett(M):
        return _win(M, w_bartlett)

    @staticmethod
    def array(v, dtype=None):
        return ND.fresh((len(v),), (lambda vals: lambda idx: rv(vals[0]) if vals else z3.RealVal(0))(list(v)), 'f8')

    @staticmethod
    def arange(a, b, step, dtype=None):
        # only arange(width-1, -1, -1): element i = width-1-i
        assert step == -1 and b == -1
        az = _z(a)
        return ND.fresh((conc(SInt(az + 1)),), lambda idx: z3.ToReal(az - idx[0]), 'f8')

    @staticmethod
    def exp(v):
        if isinstance(v, ND):
            g = v.snapshot()
            EXPARG.append(g)
            E = z3.Function('EXPV', R, R)
            return ND.fresh(v.shape, lambda idx: E(g(idx)), 'f8')
        return MathNP.exp(v)


def _itruediv(self, o):
    oz = rv(o)
    g = self.snapshot()
    self[(slice(None),) * self.ndim] = ND.fresh(self.shape, lambda idx: g(idx) / oz, self.dtype)
    return self


ND.__itruediv__ = _itruediv


def _pow(self, k):
    assert isinstance(k, int) and k >= 0
    g = self.snapshot()

    def f(idx):
        r = z3.RealVal(1)
        for _ in range(k):
            r = r * g(idx)
        return r
    return ND.fresh(self.shape, f, self.dtype)


ND.__pow__ = _pow


def _neg_mul(self, o):   # (-alpha) * ret[:offs]
    return ND._bin(self, o, lambda a, b: a * b)


def configs(tier, seed):
    cfgs = [dict(kind='window', name='window ' + w, window=w) for w in ('hann', 'hamming', 'blackman', 'bartlett')]
    for order in range(1, 7):
        cfgs.append(dict(kind='gamma', name='gamma order %d' % order, order=order))
    Dmax = 6 if tier == 'quick' else 9
    for D in range(1, Dmax + 1):
        cfgs.append(dict(kind='circshift', name='circshift D%d' % D, D=D))
    for ob in ('affine', 'mono_f', 'mono_p', 'symmetry'):
        cfgs.append(dict(kind='gauss', name='gauss_quant ' + ob, ob=ob))
    cfgs.append(dict(kind='hzang', name='hertz/angular'))
    return cfgs


WIN = {'hann': ('HannWindow', w_hanning, '1/2'), 'hamming': ('HammingWindow', w_hamming, '27/50'),
       'blackman': ('BlackmanWindow', w_blackman, '21/50'), 'bartlett': ('BartlettWindow', w_bartlett, '1/2')}


def load_filters(np_):
    symex.FLOAT_AS_DECIMAL = True
    return loader.load_unit('filters', dict(np=np_, max=smax, min=smin, len=slen), name='filters_under_test')


def run_window(cfg):
    cls, shape_fn, a0 = WIN[cfg['window']]
    ns = load_filters(WNP)
    viol = []
    ob = dis = 0

    def body():
        c = Ctx.cur
        W = z3.Int('width')
        c.assume(W >= -3, W <= 1 << 20)
        try:
            out = ns[cls]().get_impulse_response(SInt(W))
        except Exception as e:
            symex.guard(e)
            return ('exception', '%s: %s' % (type(e).__name__, e))
        n = z3.Int('n')
        c.assume(n >= 0, n < W)
        bad = [_z(out.shape[0]) != z3.If(W > 0, W, 0)]
        if decide(W >= 1):
            got = out.get(n)
            Wr, nr = z3.ToReal(W), z3.ToReal(n)
            norm = z3.RealVal(a0) * z3.If(W - 1 >= 1, Wr - 1, 1)
            want = z3.If(W == 1, z3.RealVal(1), shape_fn(nr, Wr)) / norm
            bad += [got != want, got < 0]
        return ('ok', bad)

    for ctx, res in explore(body):
        if res is None:
            continue
        ob += 1
        if res[0] == 'exception':
            viol.append(dict(kind='window', window=cfg['window'], what='exception ' + res[1], width=ctx.model().eval(z3.Int('width'), True).as_long()))
            continue
        s = ctx.solver
        s.push()
        s.add(z3.Or(res[1]))
        r = check_sat(s)
        if r == 'sat':
            m = s.model()
            viol.append(dict(kind='window', window=cfg['window'], what='sample differs from shape/(a0*max(1,width-1)) or negative or wrong length',
                             width=m.eval(z3.Int('width'), True).as_long(), n=m.eval(z3.Int('n'), True).as_long()))
        else:
            dis += 1
        s.pop()
    for w in viol:
        w['class'] = 'window/%s/%s' % (cfg['window'], w['what'].split()[0])
    return dict(obligations=ob, discharged=dis, violations=viol, samples=[{'config': cfg['name'], 'obligation': 'forall width, 0<=n<width: w[n] == %s(n,width)/(%s*max(1,width-1)) >= 0' % (cfg['window'], a0)}], twin=dis > 0)


def run_gamma(cfg):
    order = cfg['order']
    ns = load_filters(WNP)
    viol = []
    ob = dis = 0

    def body():
        c = Ctx.cur
        W = z3.Int('width')
        pk = z3.Real('peak')
        c.assume(W >= -2, W <= 1 << 16, pk > 0, pk < 1)
        del EXPARG[:]
        try:
            out = ns['GammaWindow'](order, SReal(pk)).get_impulse_response(SInt(W))
        except Exception as e:
            symex.guard(e)
            return ('exception', '%s: %s' % (type(e).__name__, e))
        n = z3.Int('n')
        c.assume(n >= 0, n < W)
        bad = [_z(out.shape[0]) != z3.If(W > 0, W, 0)]
        if decide(W <= 0):
            return ('ok', bad)
        if decide(W == 1):
            bad.append(out.get(n) != 1)
            return ('ok', bad)
        Wr = z3.ToReal(W)
        t = Wr - 1 - z3.ToReal(n)
        if order > 1:
            alpha = z3.RealVal(order - 1) / (Wr - pk * Wr)
            offs = W - 1
        else:
            alpha = 5 / Wr
            offs = W
        got = out.get(n)
        if len(EXPARG) != 1:
            bad.append(z3.BoolVal(True))
            return ('ok', bad)
        E = z3.Function('EXPV', R, R)
        # the log of alpha occurs as LOG(alpha): require the exponent to be  -alpha*t + order*LOG(alpha) - ln((order-1)!)
        la = LOGEXP.f(alpha)
        lf = rv(math.log(math.factorial(order - 1)))
        arg = -alpha * t + order * la - lf
        tp = z3.RealVal(1)
        for _ in range(order - 1):
            tp = tp * t
        want = z3.If(n < offs, tp * E(arg), t)      # beyond offs the sample is the untouched ramp value (t = 0 for order > 1)
        bad.append(got != want)
        # maximum at peak*width: the stationary point of t^(order-1) e^(-alpha t) is t* = (order-1)/alpha = width - peak*width
        if order > 1:
            bad.append((order - 1) / alpha != Wr - pk * Wr)
        return ('ok', bad)

    for ctx, res in explore(body):
        if res is None:
            continue
        ob += 1
        if res[0] == 'exception':
            viol.append(dict(kind='gamma', order=order, what='exception ' + res[1], width=ctx.model().eval(z3.Int('width'), True).as_long()))
            continue
        s = ctx.solver
        s.push()
        s.add(z3.Or(res[1]))
        r = check_sat(s)
        if r == 'sat':
            m = s.model()
            viol.append(dict(kind='gamma', order=order, what='sample differs from reflected gamma density', width=m.eval(z3.Int('width'), True).as_long(),
                             n=m.eval(z3.Int('n'), True).as_long(), peak=str(m.eval(z3.Real('peak'), True))))
        else:
            dis += 1
        s.pop()
    for w in viol:
        w['class'] = 'gamma/order%d/%s' % (order, w['what'].split()[0])
    return dict(obligations=ob, discharged=dis, violations=viol, samples=[{'config': cfg['name'], 'obligation': 'w[n] = t^(order-1) EXP(-alpha t + order LOG(alpha) - ln (order-1)!), t = width-1-n, alpha=(order-1)/(width-peak*width)'}], twin=dis > 0)


# ------------------------------------------------------------------ circshift_fourier

class Phase:
    """-2 pi i * c  (c real: number of turns, negated)"""

    def __init__(s, c):
        s.c = c

    def __mul__(s, o):
        if isinstance(o, IdxArr):
            return PhaseArr([s.c * z3.ToReal(_z(v)) if not isinstance(v, int) else s.c * v for v in o.v])
        return Phase(s.c * rv(o))

    __rmul__ = __mul__

    def __truediv__(s, o):
        return Phase(s.c / rv(o))


class PiTok:
    def __rmul__(s, o):
        if isinstance(o, complex) and o.real == 0:
            return Phase(rv(o.imag / 2))      # o * pi = 2 pi i * (o.imag / 2): phase in turns
        raise Unsupported('pi arithmetic')


class IdxArr:
    def __init__(s, v):
        s.v = v

    def __mod__(s, D):
        return IdxArr([x % D for x in s.v])


class PhaseArr:
    def __init__(s, c):
        s.c = c


class ExpArr:
    def __init__(s, c):
        s.c = c


class Filt:
    """spectrum segment: element k is the uninterpreted complex value f(k)"""

    def __init__(s, n, dtype):
        s.n = n
        s.dtype = dtype
        s.vals = [('f', k, None) for k in range(n)]
        s.written = False

    def _slen(s):
        return s.n

    def __mul__(s, o):
        assert isinstance(o, ExpArr) and len(o.c) == s.n
        r = Filt(s.n, 'c16')
        r.vals = [('f', k, o.c[k]) for k in range(s.n)]
        return r

    def __imul__(s, o):
        assert isinstance(o, ExpArr) and len(o.c) == s.n
        if s.dtype == 'c8':
            # complex128 -> complex64 is a same-kind cast: NumPy allows it in place and rounds the product to single precision
            s.vals = [('f', k, o.c[k]) for k in range(s.n)]
            s.written = True
            return s
        if s.dtype != 'c16':
            # NumPy: in-place multiplication of a real (or narrower complex) array by a complex128 array cannot be cast back
            raise TypeError("Cannot cast ufunc 'multiply' output from dtype('complex128') to dtype('%s') with casting rule 'same_kind'" % s.dtype)
        s.vals = [('f', k, o.c[k]) for k in range(s.n)]
        s.written = True
        return s


class CNP:
    complex128 = 'c16'
    complex64 = 'c8'
    pi = PiTok()

    @staticmethod
    def iscomplexobj(f):
        return f.dtype in ('c16', 'c8')

    @staticmethod
    def isrealobj(f):
        return f.dtype not in ('c16', 'c8')

    @staticmethod
    def arange(a, b):
        return IdxArr(list(range(a, b)))

    @staticmethod
    def asarray(f, dtype=None):
        if dtype is None or f.dtype == dtype:
            return f                 # no copy when the dtype already matches (NumPy semantics)
        r = Filt(f.n, dtype)
        r.vals = list(f.vals)
        return r

    @staticmethod
    def array(f, dtype=None, copy=True):
        # NumPy >= 2: copy=True always copies, copy=None copies if needed, copy=False NEVER copies (ValueError if a
        # conversion would need one)
        need = dtype is not None and f.dtype != dtype
        if copy is False or (copy is None and not need):
            if need:
                raise ValueError('Unable to avoid copy while creating an array as requested.')
            return f
        r = Filt(f.n, dtype or f.dtype)
        r.vals = list(f.vals)
        return r

    @staticmethod
    def exp(p):
        return ExpArr(p.c)

    @staticmethod
    def multiply(a, b, out=None, **kw):
        # np.multiply(filt, phase, out=...): out=None allocates the (complex128) product, out=filt is the in-place form
        # with its same-kind casting rule
        if not isinstance(a, Filt):
            a, b = b, a
        if out is None:
            return a * b
        if out is a:
            return a.__imul__(b)
        if isinstance(out, Filt) and out.n == a.n:
            if out.dtype != 'c16':
                raise TypeError("Cannot cast ufunc 'multiply' output from dtype('complex128') to dtype('%s') with casting rule 'same_kind'" % out.dtype)
            out.vals = (a * b).vals
            out.written = True
            return out
        raise symex.Unsupported('np.multiply with this out argument')


def run_circshift(cfg):
    D = cfg['D']
    ns = loader.load_unit('util', dict(np=CNP, len=slen), name='util_under_test')
    fn = ns['circshift_fourier']
    viol = []
    ob = dis = 0
    for start in range(0, D + 1):
        for n in range(0, D + 2):
            for dft_given in (True, False):
                if not dft_given and n + start == 0:
                    continue   # documented default len+start = 0: a zero-length DFT is meaningless
                if dft_given and False:
                    pass
                Dd = D if dft_given else n + start
                if dft_given and n + start > D + 1:
                    continue
                for copy in (True, False):
                    for dt in ('c16', 'f8', 'c8'):
                        def body():
                            c = Ctx.cur
                            sh = z3.Real('shift')
                            f = Filt(n, dt)
                            try:
                                out = fn(f, SReal(sh), start, D if dft_given else None, copy)
                            except Exception as e:
                                symex.guard(e)
                                return ('exception', '%s: %s' % (type(e).__name__, e))
                            bad = []
                            if not isinstance(out, Filt) or out.n != n:
                                return ('shape',)
                            for k in range(n):
                                _, kk, cph = out.vals[k]
                                want = -sh * ((start + k) % Dd) / Dd
                                if cph is None:
                                    return ('nophase', k)
                                d = cph - want
                                bad.append(z3.ToReal(z3.ToInt(d)) != d)
                                bad.append(z3.BoolVal(kk != k))
                            # the response is a 128-bit complex array whatever the segment's type (a single-precision
                            # segment is not multiplied in place: the product would be rounded to complex64)
                            bad.append(z3.BoolVal(out.dtype != 'c16'))
                            if copy or dt != 'c16':
                                bad.append(z3.BoolVal(f.written))
                            else:
                                bad.append(z3.BoolVal(out is not f))
                            return ('ok', bad)
                        for ctx, res in explore(body):
                            if res is None:
                                continue
                            ob += 1
                            base = dict(kind='circshift', D=D, start=start, n=n, dft_given=dft_given, copy=copy, dt=dt)
                            if res[0] != 'ok':
                                viol.append(dict(base, what='%s %s' % (res[0], res[1] if len(res) > 1 else ''), shift='3/2'))
                                continue
                            if not res[1]:
                                dis += 1
                                continue
                            s = ctx.solver
                            s.push()
                            s.add(z3.Or(res[1]))
                            r = check_sat(s)
                            if r == 'sat':
                                viol.append(dict(base, what='phase', shift=str(s.model().eval(z3.Real('shift'), True))))
                            else:
                                dis += 1
                            s.pop()
    for w in viol:
        w['class'] = 'circshift/%s/dft_given=%s' % (w['what'].split()[0], w['dft_given'])
    return dict(obligations=ob, discharged=dis, violations=viol, samples=[{'config': cfg['name'], 'obligation': 'forall real shift: out[k] = filt[k] * E(c_k), c_k + shift*((start+k) mod D)/D integer'}], twin=dis > 0)


# ------------------------------------------------------------------ gauss_quant

class LogTok:
    """stands for log(r); the code only uses it as (-2 * log r) ** 0.5 =: y"""

    def __init__(s, y):
        s.y = y

    def __rmul__(s, k):
        if k != -2:
            raise Unsupported('log token arithmetic')
        return NegTwoLog(s.y)


class NegTwoLog:
    def __init__(s, y):
        s.y = y

    def __pow__(s, e):
        if e != 0.5:
            raise Unsupported('log token power')
        return SReal(s.y)


YMIN_LO, YMIN_HI = '1.177410022515', '1.177410022516'     # sqrt(2 ln 2)   = 1.17741002251547...
YMAX_LO, YMAX_HI = '9.59705', '9.59706'                    # sqrt(-2 ln 1e-20) = 9.597055...


def run_gauss(cfg):
    """Cut (stated): the code depends on r only through y = (-2 ln r)^(1/2); y is modelled as Y(r), an uninterpreted
    strictly decreasing function with the two numeric anchors Y(1/2), Y(1e-20); the rational part is real arithmetic."""
    obn = cfg['ob']
    symex.FLOAT_AS_DECIMAL = True
    viol = []
    ob = dis = 0
    Yf = z3.Function('Y', R, R)

    class GNP(MathNP):
        regs = []

        @staticmethod
        def log(r):
            rz = rv(r)
            y = z3.Real('Y!%d' % len(GNP.regs))     # Y(r): fresh real per occurrence, functional consistency + monotonicity stated below
            c = Ctx.cur
            c.solver.add(z3.Implies(rz >= rv(1e-20), y <= z3.RealVal(YMAX_HI)), z3.Implies(rz <= rv(0.5), y >= z3.RealVal(YMIN_LO)),
                         z3.Implies(rz == rv(0.5), y <= z3.RealVal(YMIN_HI)), y > 0)
            for (r2, y2) in GNP.regs:
                c.solver.add(z3.Implies(rz < r2, y > y2), z3.Implies(rz > r2, y < y2), z3.Implies(rz == r2, y == y2))
            GNP.regs.append((rz, y))
            return LogTok(y)

    ns = loader.load_unit('util', dict(np=GNP, len=slen), name='util_under_test')
    fn = ns['_gauss_quant_odeh_evans']

    def body():
        c = Ctx.cur
        GNP.regs = []
        p = z3.Real('p')
        c.assume(p > 0, p < 1)
        try:
            if obn == 'affine':
                mu, sd = z3.Real('mu'), z3.Real('std')
                c.assume(sd > 0)
                q0 = fn(SReal(p))
                q = fn(SReal(p), SReal(mu), SReal(sd))
                return ('ok', [rv(q) != rv(q0) * sd + mu])
            if obn == 'symmetry':
                c.assume(p != rv(0.5))
                return ('ok', [rv(fn(SReal(p))) != -rv(fn(SReal(1 - p)))])
            p2 = z3.Real('p2')
            c.assume(p2 > p, p2 < 1)
            if obn == 'mono_f':
                # lemma: both arguments in the lower half (results are -z(y)): strictly increasing there
                c.assume(p2 < rv(0.5), p >= rv(1e-20))
            q1, q2 = rv(fn(SReal(p))), rv(fn(SReal(p2)))
            # strictly increasing wherever the approximation is claimed accurate (min(p,1-p) >= 1e-20); in the clamped
            # tails (|z| = 10) it must still be non-decreasing
            inside = z3.And(p >= rv(1e-20), 1 - p2 >= rv(1e-20))
            return ('ok', [q1 > q2, z3.And(inside, q1 >= q2)])
        except Exception as e:
            symex.guard(e)
            return ('exception', '%s: %s' % (type(e).__name__, e))

    for ctx, res in explore(body, max_paths=400):
        if res is None:
            continue
        ob += 1
        if res[0] == 'exception':
            viol.append(dict(kind='gauss', ob=obn, what='exception ' + res[1], p=str(ctx.model().eval(z3.Real('p'), True))))
            continue
        r, s2 = symex.nra_check(list(ctx.solver.assertions()) + [z3.Or(res[1])])
        if r == 'sat':
            m = s2.model()
            viol.append(dict(kind='gauss', ob=obn, what=obn, p=str(m.eval(z3.Real('p'), True)), p2=str(m.eval(z3.Real('p2'), True))))
        elif r == 'unsat':
            dis += 1
        else:
            raise Inconclusive('gauss_quant %s: solver %s' % (obn, r))
    for w in viol:
        w['class'] = 'gauss/%s' % obn
    return dict(obligations=ob, discharged=dis, violations=viol, samples=[{'config': cfg['name'], 'paths': ob}], twin=dis > 0)


def run_hzang(cfg):
    symex.FLOAT_AS_DECIMAL = False
    ns = loader.load_unit('util', dict(np=MathNP, len=slen), name='util_under_test')
    viol = []
    ob = dis = 0

    def body():
        c = Ctx.cur
        h, rate = z3.Real('hz'), z3.Real('rate')
        c.assume(rate > 0)
        a = ns['hertz_to_angular'](SReal(h), SReal(rate))
        back = ns['angular_to_hertz'](a, SReal(rate))
        a2 = ns['hertz_to_angular'](ns['angular_to_hertz'](SReal(h), SReal(rate)), SReal(rate))
        # and the documented meaning: one sampling period = 2 pi radians
        full = ns['hertz_to_angular'](SReal(rate), SReal(rate))
        return [rv(back) != h, rv(a2) != h, rv(full) != rv(2 * math.pi)]
    for ctx, bad in explore(body):
        if bad is None:
            continue
        ob += 1
        s = ctx.solver
        s.push()
        s.add(z3.Or(bad))
        r = check_sat(s)
        if r == 'sat':
            viol.append(dict(kind='hzang', what='hertz/angular not mutual inverses', **{'class': 'hzang'}))
        else:
            dis += 1
        s.pop()
    return dict(obligations=ob, discharged=dis, violations=viol, samples=[{'config': 'hz<->rad'}], twin=dis > 0)


def run_config(cfg):
    return {'window': run_window, 'gamma': run_gamma, 'circshift': run_circshift, 'gauss': run_gauss, 'hzang': run_hzang}[cfg['kind']](cfg)


# ------------------------------------------------------------------ replay

def replay(w):
    import numpy as np
    from pydrobert.speech import filters, util
    k = w['kind']
    if k == 'window':
        cls = getattr(filters, WIN[w['window']][0])
        npf = {'hann': np.hanning, 'hamming': np.hamming, 'blackman': np.blackman, 'bartlett': np.bartlett}[w['window']]
        a0 = {'hann': 0.5, 'hamming': 0.54, 'blackman': 0.42, 'bartlett': 0.5}[w['window']]
        for W in sorted(set([max(w.get('width', 5), 0), 0, 1, 2, 3, 8, 31])):
            if W > 5000:
                continue
            try:
                got = cls().get_impulse_response(W)
            except Exception as e:
                return {'reproduced': True, 'detail': '%s(%d) raised %s: %s' % (w['window'], W, type(e).__name__, e)}
            want = npf(W) / (a0 * max(1, W - 1))
            if got.shape != want.shape or not np.allclose(got, want, atol=1e-12) or (got < -1e-15).any():
                return {'reproduced': True, 'detail': '%s window width %d: %s vs documented %s' % (w['window'], W, got[:4], want[:4])}
        return {'reproduced': False, 'detail': 'windows match'}
    if k == 'gamma':
        order = w['order']
        for W in (0, 1, 2, 5, 16, 64):
            for peak in (0.5, 0.75, 0.9):
                try:
                    got = filters.GammaWindow(order, peak).get_impulse_response(W)
                except Exception as e:
                    return {'reproduced': True, 'detail': 'GammaWindow(%d,%g)(%d) raised %s: %s' % (order, peak, W, type(e).__name__, e)}
                if W <= 0:
                    want = np.zeros(0)
                elif W == 1:
                    want = np.ones(1)
                else:
                    t = np.arange(W - 1, -1, -1, dtype=float)
                    if order > 1:
                        alpha = (order - 1) / (W - peak * W)
                        want = alpha ** order / math.factorial(order - 1) * t ** (order - 1) * np.exp(-alpha * t)
                        want[-1] = 0
                    else:
                        alpha = 5 / W
                        want = alpha * np.exp(-alpha * t)
                if got.shape != want.shape or not np.allclose(got, want, rtol=1e-9, atol=1e-12):
                    return {'reproduced': True, 'detail': 'gamma window order %d peak %g width %d differs from the reflected gamma density' % (order, peak, W)}
        return {'reproduced': False, 'detail': 'gamma windows match'}
    if k == 'circshift':
        from fractions import Fraction
        D, start, n = w['D'], w['start'], w['n']
        Dd = D if w['dft_given'] else n + start
        rng = np.random.RandomState(2)
        try:
            sh = float(Fraction(w.get('shift', '3/2').replace('?', '')))
        except Exception:
            sh = 1.5
        for shift in (sh, 1, -2, Dd + 1, 2.5):
            full = np.zeros(max(Dd, 1), dtype=np.complex128)
            seg = (rng.randn(n) + 1j * rng.randn(n)).astype({'c16': np.complex128, 'c8': np.complex64}.get(w['dt'], np.float64))
            orig = seg.copy()
            try:
                out = util.circshift_fourier(seg, shift, start, D if w['dft_given'] else None, w['copy'])
            except Exception as e:
                return {'reproduced': True, 'detail': 'circshift_fourier(len=%d, shift=%r, start_idx=%d, dft_size=%s, copy=%s) raised %s: %s'
                        % (n, shift, start, D if w['dft_given'] else None, w['copy'], type(e).__name__, e)}
            want = orig * np.exp(-2j * np.pi * shift * ((np.arange(start, start + n)) % Dd) / Dd)
            if out.dtype != np.complex128:
                return {'reproduced': True, 'detail': 'circshift_fourier of a %s segment (copy=%s) returns %s: the product was rounded, |out - shift theorem| = %.3g'
                        % (seg.dtype, w['copy'], out.dtype, float(np.abs(out - want).max()) if out.shape == want.shape and n else 0.0)}
            if out.shape != want.shape or not np.allclose(out, want, atol=1e-9):
                return {'reproduced': True, 'detail': 'circshift_fourier differs from the shift theorem (D=%d start=%d len=%d shift=%r)' % (Dd, start, n, shift)}
            if w['copy'] and not np.array_equal(seg, orig):
                return {'reproduced': True, 'detail': 'input modified although copy=True'}
        return {'reproduced': False, 'detail': 'matches'}
    if k == 'gauss':
        from fractions import Fraction
        try:
            pw, pw2 = float(Fraction(w.get('p', '1/2').replace('?', ''))), float(Fraction(w.get('p2', '0').replace('?', '')))
        except Exception:
            pw, pw2 = 0.5, 0.0
        if w.get('ob') in ('mono_p', 'mono_f') and 0 < pw < pw2 < 1:
            q1, q2 = util._gauss_quant_odeh_evans(pw), util._gauss_quant_odeh_evans(pw2)
            inside = pw >= 1e-20 and 1 - pw2 >= 1e-20
            if q1 > q2 or (inside and q1 >= q2):
                return {'reproduced': True, 'detail': 'gauss_quant(%r) = %r but gauss_quant(%r) = %r: not increasing' % (pw, q1, pw2, q2)}
        if w.get('ob') == 'symmetry' and 0 < pw < 1 and 0 < 1 - pw < 1:
            q1, q2 = util._gauss_quant_odeh_evans(pw), util._gauss_quant_odeh_evans(1 - pw)
            if abs(q1 + q2) > 1e-6 * max(1.0, abs(q1)):
                return {'reproduced': True, 'detail': 'gauss_quant(%r) = %r but gauss_quant(1 - p) = %r: not antisymmetric' % (pw, q1, q2)}
        ps = np.concatenate([np.logspace(-300, -20.1, 60), np.logspace(-19.9, -0.31, 400), [0.5], 1 - np.logspace(-15, -0.31, 400)[::-1]])
        q = np.array([util._gauss_quant_odeh_evans(float(p)) for p in ps])
        strict = (ps[:-1] >= 1e-20)
        dq = np.diff(q)
        if (dq < 0).any() or (dq[strict] <= 0).any():
            i = int(np.argmax((dq < 0) | ((dq <= 0) & strict)))
            return {'reproduced': True, 'detail': 'gauss_quant not increasing between p=%r and p=%r' % (ps[i], ps[i + 1])}
        if abs(util._gauss_quant_odeh_evans(0.3, 2.0, 3.0) - (util._gauss_quant_odeh_evans(0.3) * 3 + 2)) > 1e-12:
            return {'reproduced': True, 'detail': 'gauss_quant not affine in mu/std'}
        if abs(util._gauss_quant_odeh_evans(0.2) + util._gauss_quant_odeh_evans(0.8)) > 1e-9:
            return {'reproduced': True, 'detail': 'gauss_quant not antisymmetric about p=0.5'}
        return {'reproduced': False, 'detail': 'gauss_quant fine on a dense grid'}
    if k == 'hzang':
        ok = abs(util.angular_to_hertz(util.hertz_to_angular(123.0, 8000), 8000) - 123.0) < 1e-9
        return {'reproduced': not ok, 'detail': 'round trip'}
    return {'reproduced': False, 'detail': '?'}


def conformance(tier, seed, results):
    """the window stand-ins ARE numpy's formulas: compare with real NumPy for widths 0..64 (cos evaluated numerically)"""
    import numpy as np
    n = 0
    for M in range(0, 65):
        for name, f in (('hanning', lambda n_, M_: 0.5 - 0.5 * np.cos(2 * np.pi * n_ / (M_ - 1))),
                        ('hamming', lambda n_, M_: 0.54 - 0.46 * np.cos(2 * np.pi * n_ / (M_ - 1))),
                        ('blackman', lambda n_, M_: 0.42 - 0.5 * np.cos(2 * np.pi * n_ / (M_ - 1)) + 0.08 * np.cos(4 * np.pi * n_ / (M_ - 1))),
                        ('bartlett', lambda n_, M_: np.where(n_ <= (M_ - 1) / 2, 2 * n_ / (M_ - 1), 2 - 2 * n_ / (M_ - 1)))):
            real = getattr(np, name)(M)
            model = np.zeros(0) if M < 1 else (np.ones(1) if M == 1 else f(np.arange(M, dtype=float), float(M)))
            assert real.shape == model.shape and np.allclose(real, model, atol=1e-12), ('numpy.%s stand-in' % name, M)
            n += 1
    return n
