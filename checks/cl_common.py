"""Shared harness for the command-line tools (C09, C10): command_line.py executed from source with the environment
(argparse results, Kaldi tables, torch, DataLoader, file system, RNG) replaced by nondeterministic stubs.

Arrays are terms of an uninterpreted sort; library stages are uninterpreted functions (their equivalence with the real
classes is C02/C03/C14/C15/C16/C18)."""
import sys
import types

import z3

from vlib import loader, symex
from vlib.symex import Ctx, SBool, SInt, SReal, _z, decide, rv

A = z3.DeclareSort('Arr')
RNGS = z3.DeclareSort('Rng')
I = z3.IntSort()
CHAN = z3.Function('chan', A, I, A)
PRE = z3.Function('pre', I, A, RNGS, A)          # pre-processor i applied to a signal under an RNG state
CF = z3.Function('compute_full', A, A)
POST = z3.Function('post', I, A, A)
F32 = z3.Function('f32', A, A)
F64 = z3.Function('f64', A, A)
COL = z3.Function('column', A, A)
RNG = z3.Function('rng_seeded', I, RNGS)         # generator state after seeding with an integer
NEXT = z3.Function('rng_next', RNGS, RNGS)
NFR = z3.Function('nframes', A, I)                # number of rows of a feature matrix / samples of a signal


class Vec:
    def __init__(s, t, ndim=1, nchan=None):
        s.t = t
        s.ndim = ndim
        s.nchan = nchan

    @property
    def shape(s):
        return (s.nchan, SInt(z3.Int('nsamples'))) if s.ndim == 2 else (SInt(z3.Int('nsamples')),)

    def __getitem__(s, c):
        assert s.ndim == 2
        cz = _z(c)
        nz = _z(s.nchan)
        return Vec(CHAN(s.t, z3.If(cz < 0, cz + nz, cz)))

    def astype(s, dt, copy=True):
        return Vec(F64(s.t) if dt in ('f64',) else F32(s.t), s.ndim, s.nchan)

    def unsqueeze(s, d):
        return Vec(COL(s.t))

    def float(s):
        return Vec(F32(s.t))

    def __format__(s, f):
        return '<arr>'

    def _slen(s):
        n = NFR(s.t)
        Ctx.cur.solver.add(n >= 0)
        return SInt(n)


class RngState:
    """mutable generator: np.random / torch global RNG"""

    def __init__(s, init):
        s.state = init

    def seed(s, v):
        s.state = RNG(_z(v))

    def draw(s):
        st = s.state
        s.state = NEXT(st)
        return st


class Log:
    def __getattr__(s, n):
        return lambda *a, **k: None


class FmtReal(SReal):
    def __format__(s, f):
        return '<real>'


def fake_module(name, **kw):
    m = types.ModuleType(name)
    m.__dict__.update(kw)
    return m


def load_command_line():
    """exec command_line.py (real imports: torch, .torch, pydrobert.kaldi are all installed); names are overridden per harness"""
    return loader.load_unit('command_line', name='pydrobert.speech.command_line')
