"""Shared harness for filters.py (C05, C06, C07): real constructors / response methods on symbolic reals."""
import math

import z3

from vlib import loader, symex
from vlib.mathnp import MathNP, InvPair, LOGEXP
from vlib.nd import ND
from vlib.symex import (Ctx, SInt, SReal, SBool, _z, rv, conc, decide, slen, smax, smin, srange, sint, sceil, sfloor,
                        is_sym, Unsupported)

R = z3.RealSort()
SCALE = InvPair('H2S', 'S2H', f_domain_pos=False)     # uninterpreted strictly increasing bijection Hz <-> scale


class UScale:
    """uninterpreted strictly increasing scaling function (both directions mutually inverse)"""

    def hertz_to_scale(self, hz):
        return SCALE.apply_f(hz)

    def scale_to_hertz(self, sc):
        return SCALE.apply_g(sc)


class FNP(MathNP):
    float64 = 'f8'
    complex128 = 'c16'

    @staticmethod
    def arange(a, b=None, step=None, dtype=None):
        """concrete bounds: NumPy's own array (a vectorised rewrite of a loop over DFT bins computes on concrete bin
        indices exactly as the loop did); symbolic integer bounds: lazy array; symbolic REAL start/stop/step: the
        length is ceil((stop-start)/step) evaluated in floating point -- when the ratio is an exact integer k, rounding
        makes it k or k+1 (NumPy documents the length of a float arange as unreliable), both are explored"""
        import numpy as _np
        if b is None:
            a, b = 0, a
        if step is not None and not isinstance(step, (int, float, SInt, SReal)):
            step, dtype = None, step
        if not is_sym(a) and not is_sym(b) and not is_sym(step):
            if step is None:
                return _np.arange(a, b, dtype=_np.float64 if dtype in ('f8', float) else None)
            return _np.arange(a, b, step, dtype=_np.float64 if dtype in ('f8', float) else None)
        if step is not None or isinstance(a, (SReal, float)) or isinstance(b, (SReal, float)):
            st = rv(1 if step is None else step)
            az, bz = rv(a), rv(b)
            if az.sort() != R:
                az = z3.ToReal(az)
            if bz.sort() != R:
                bz = z3.ToReal(bz)
            if st.sort() != R:
                st = z3.ToReal(st)
            if not decide(st > 0):
                raise Unsupported('arange with a non-positive symbolic step')
            span = bz - az
            n = None
            if decide(span <= 0):
                n = 0
            else:
                for k in range(1, 33):
                    if decide(z3.And((k - 1) * st < span, span <= k * st)):
                        n = k
                        if decide(span == k * st) and decide(z3.Bool('float_arange_length_rounds_up')):
                            n = k + 1
                        break
            if n is None:
                raise Unsupported('float arange longer than 32 elements')
            return ND.fresh((n,), lambda idx: az + z3.ToReal(idx[0]) * st, 'f8')
        az, bz = _z(a), _z(b)
        n = conc(SInt(z3.simplify(z3.If(bz - az > 0, bz - az, 0))))
        return ND.fresh((n,), lambda idx: z3.ToReal(az + idx[0]), 'f8')

    @staticmethod
    def log(v):
        import numpy as _np
        if isinstance(v, _np.ndarray):
            return _np.log(v)
        return MathNP.log(v)

    @staticmethod
    def exp(v):
        import numpy as _np
        if isinstance(v, _np.ndarray) and v.dtype != object:
            return _np.exp(v)
        return MathNP.exp(v)

    @staticmethod
    def sqrt(v):
        import numpy as _np
        if isinstance(v, _np.ndarray) and v.dtype != object:
            return _np.sqrt(v)
        return MathNP.sqrt(v)

    @staticmethod
    def zeros(n, dtype=None):
        if isinstance(n, tuple):
            n = n[0]
        return ND.fresh((conc(n) if isinstance(n, SInt) else n,), lambda idx: z3.RealVal(0), dtype)


def _nd_set(self, key, val, _orig=ND.__setitem__):
    if isinstance(val, SReal):
        val = val.z
    elif isinstance(val, (int, float)) and not isinstance(val, bool):
        val = rv(val)
    _orig(self, key, val)


ND.__setitem__ = _nd_set


def _nd_get(self, key, _orig=ND.__getitem__):
    v = _orig(self, key)
    if isinstance(v, z3.ExprRef) and v.sort() == z3.RealSort():
        return SReal(v)          # scalar reads take part in python arithmetic (res[idx] += val)
    return v


ND.__getitem__ = _nd_get


def load_filters(extra=None, decimal=True):
    symex.FLOAT_AS_DECIMAL = decimal
    subs = dict(np=FNP, int=symex.int_type, float=symex.float_type, range=srange, min=smin, max=smax, len=slen)
    if extra:
        subs.update(extra)
    ns = loader.load_unit('filters', subs, name='filters_under_test')
    # Fbank instantiates MelScaling itself: it must be the scales module loaded on the same symbolic numpy
    sc = loader.load_unit('scales', dict(np=FNP, max=smax, min=smin, float=symex.float_type), name='scales_under_test')
    ns['MelScaling'] = sc['MelScaling']
    # mutable class-level state (a cache declared on the class is shared by all instances and would otherwise survive from
    # one explored path to the next): remembered as loaded, restored by reset_class_state() at the start of every path
    import copy
    snap = {}
    for name, obj in list(ns.items()):
        if isinstance(obj, type) and getattr(obj, '__module__', None) == 'filters_under_test':
            for k, v in list(vars(obj).items()):
                if isinstance(v, (dict, list, set)) and not k.startswith('__'):
                    snap[(name, k)] = copy.deepcopy(v)
    ns['__class_state__'] = snap
    return ns


def reset_class_state(ns):
    import copy
    for (name, k), v in ns.get('__class_state__', {}).items():
        setattr(ns[name], k, copy.deepcopy(v))


def stub_alias(ns):
    """nested components are handed in as instances (alias resolution is C08)"""
    real = ns['alias_factory_subclass_from_arg']

    def afs(cls, arg):
        if isinstance(arg, UScale):
            return arg
        return real(cls, arg)
    ns['alias_factory_subclass_from_arg'] = afs


def stub_newton(ns):
    """ComplexGammatoneFilterBank._calculate_temp_support runs a Newton search on floats; it is replaced by its
    post-condition: a right edge `right` (fresh real) beyond the mode at which the envelope is <= threshold"""
    G = ns['ComplexGammatoneFilterBank']
    G._newton_calls = []

    def calc(self, idx):
        alpha = self._alphas[idx]
        offset = self._offsets[idx]
        n = self._order
        right = z3.Real('newton_right_%d' % len(self._supports))
        Ctx.cur.solver.add(right * rv(alpha) >= n - 1, right > 0)
        G._newton_calls.append((right, alpha, self._cs[idx], offset))
        return (sint(sfloor(offset)) if is_sym(offset) else int(math.floor(offset)), sint(sceil(SReal(right))) + offset)
    G._calculate_temp_support = calc


BANKS = ('TriangularOverlappingFilterBank', 'Fbank', 'GaborFilterBank', 'ComplexGammatoneFilterBank')


def construct(ns, cls, low, high, rate, num_filts, **kw):
    """call the real constructor; triangular/Gabor/gammatone take a scaling function, Fbank is fixed to mel"""
    C = ns[cls]
    if cls == 'Fbank':
        return C(num_filts=num_filts, high_hz=high, low_hz=low, sampling_rate=rate, **kw)
    return C(UScale(), num_filts=num_filts, high_hz=high, low_hz=low, sampling_rate=rate, **kw)


def handbuilt(ns, cls, **fields):
    """instance with the given fields set directly (drive the unit, not the program).  It starts from an instance the
    REAL constructor built with default concrete arguments, so that any further state the constructor sets up (caches,
    flags added by a refactoring) is present and only the listed fields are overridden."""
    C = ns[cls]
    saved_afs = ns['alias_factory_subclass_from_arg']
    ns['alias_factory_subclass_from_arg'] = lambda family, arg: arg     # components are handed in as instances
    try:
        if cls == 'Fbank':
            b = C(num_filts=1, sampling_rate=8000)
        elif cls == 'ComplexGammatoneFilterBank':
            saved = C._calculate_temp_support
            C._calculate_temp_support = lambda self, idx: (0, 10)
            try:
                b = C(ns['MelScaling'](), num_filts=1, sampling_rate=8000)
            finally:
                C._calculate_temp_support = saved
        else:
            b = C(ns['MelScaling'](), num_filts=1, sampling_rate=8000)
    except Exception:
        b = C.__new__(C)
        b._rate = 8000
    finally:
        ns['alias_factory_subclass_from_arg'] = saved_afs
    for k, v in fields.items():
        setattr(b, k, v)
    return b


def real_handbuilt(C, **fields):
    """same for replays on the real library"""
    try:
        b = C(num_filts=1, sampling_rate=8000) if C.__name__ == 'Fbank' else C('mel', num_filts=1, sampling_rate=8000)
    except Exception:
        b = C.__new__(C)
    for k, v in fields.items():
        setattr(b, k, v)
    return b
