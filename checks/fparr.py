"""Floating-point object-array mode: NumPy object arrays whose elements are z3 Float64 terms (IEEE-754 binary64,
round-to-nearest-even), for the few obligations that depend on rounding (DESIGN 1.7).  Only float64 data and the
element-wise operations whose NumPy semantics are exactly one IEEE operation are supported; everything else raises
Unsupported (exit 3), never a verdict."""
import numpy as np
import z3

from vlib.symex import SBool, Unsupported
from checks.objarr import Sym

F64 = z3.Float64()
RNE = z3.RNE()
_F8 = np.dtype('f8')


def fq(v):
    if isinstance(v, z3.FPRef):
        return v
    if isinstance(v, z3.ExprRef):
        raise Unsupported('non-FP term in a floating-point array: %s' % v.sort())
    if isinstance(v, (bool, np.bool_)):
        raise Unsupported('boolean in floating-point arithmetic')
    if isinstance(v, (int, np.integer)) and abs(int(v)) > 2 ** 53:
        raise Unsupported('integer not exactly representable')
    return z3.FPVal(float(v), F64)


def _conc(v):
    return not isinstance(v, z3.ExprRef)


def _bin(fp_op, py_op):
    def f(p, q):
        if _conc(p) and _conc(q):
            return py_op(p, q)           # python ints / floats: Python's own (IEEE double) arithmetic
        return fp_op(fq(p), fq(q))
    return np.frompyfunc(f, 2, 1)


import operator as _o
_ARITH = {np.add: _bin(lambda a, b: z3.fpAdd(RNE, a, b), _o.add), np.subtract: _bin(lambda a, b: z3.fpSub(RNE, a, b), _o.sub),
          np.multiply: _bin(lambda a, b: z3.fpMul(RNE, a, b), _o.mul), np.true_divide: _bin(lambda a, b: z3.fpDiv(RNE, a, b), _o.truediv)}
_CMPF = {np.greater_equal: _bin(z3.fpGEQ, _o.ge), np.greater: _bin(z3.fpGT, _o.gt), np.less_equal: _bin(z3.fpLEQ, _o.le), np.less: _bin(z3.fpLT, _o.lt)}
_SQ = np.frompyfunc(lambda t: t * t if _conc(t) else z3.fpMul(RNE, t, t), 1, 1)
_NEG = np.frompyfunc(lambda t: -t if _conc(t) else z3.fpNeg(t), 1, 1)


class FSym(Sym):
    """object ndarray of z3 Float64 terms (and concrete python numbers); logical dtype float64 only"""

    def _w(self, r):
        if isinstance(r, np.ndarray):
            r = np.asarray(r, dtype=object).view(FSym)
            r._ld = _F8
        return r

    def astype(self, dt, copy=True, **kw):
        if np.dtype(dt) != _F8:
            raise Unsupported('FP mode supports float64 only (astype %s)' % np.dtype(dt))
        return self._w(np.ndarray.copy(self.raw()))

    def copy(self, order='C'):
        return self._w(np.ndarray.copy(self.raw()))

    def sum(self, *a, **k):
        raise Unsupported('FP mode: summation order of ndarray.sum is not modelled')

    mean = sum

    def __array_ufunc__(self, ufunc, method, *inputs, out=None, dtype=None, **kw):
        if method != '__call__':
            raise Unsupported('FP mode: ufunc method %s' % method)
        if dtype is not None and np.dtype(dtype) != _F8:
            raise Unsupported('FP mode supports float64 only (dtype=%s)' % np.dtype(dtype))
        raws = []
        for x in inputs:
            if isinstance(x, Sym):
                if x._ld != _F8:
                    raise Unsupported('FP mode supports float64 only (operand %s)' % x._ld)
                raws.append(x.raw())
            elif isinstance(x, np.ndarray):
                if x.dtype.kind not in 'iufO':
                    raise Unsupported('FP mode: operand dtype %s' % x.dtype)
                raws.append(np.asarray(x.astype(float) if x.dtype.kind in 'iuf' else x, dtype=object))
            else:
                raws.append(x)
        if ufunc is np.square or (ufunc is np.power and _conc(raws[1]) and not isinstance(raws[1], np.ndarray) and raws[1] == 2):
            res = _SQ(raws[0])          # NumPy evaluates x ** 2 of float64 arrays as x * x
        elif ufunc is np.negative:
            res = _NEG(raws[0])
        elif ufunc in _ARITH:
            res = _ARITH[ufunc](*raws)
        elif ufunc in _CMPF:
            res = _CMPF[ufunc](*raws)
            if isinstance(res, np.ndarray) and res.ndim > 0:
                return res.view(Sym)
            v = res.item() if isinstance(res, np.ndarray) else res
            return SBool(v) if isinstance(v, z3.ExprRef) else v
        else:
            raise Unsupported('FP mode: ufunc %s' % ufunc.__name__)
        if out is not None:
            o = out[0]
            if not isinstance(o, Sym) or o._ld != _F8:
                raise Unsupported('FP mode: out= of another array kind')
            o.raw()[...] = res
            return o
        return self._w(res) if isinstance(res, np.ndarray) else res

    def __array_function__(self, func, types, args, kwargs):
        raise Unsupported('FP mode: numpy.%s' % getattr(func, '__name__', func))


def fsym(n, name, lo=None, hi=None):
    """1-D array of fresh finite float64 variables with |x| <= hi; returns (array, variables, assumptions)"""
    a = np.empty(n, dtype=object)
    vs, asm = [], []
    for i in range(n):
        v = z3.FP('%s_%d' % (name, i), F64)
        a[i] = v
        vs.append(v)
        asm += [z3.Not(z3.fpIsNaN(v)), z3.Not(z3.fpIsInf(v))]
        if hi is not None:
            asm.append(z3.fpLEQ(z3.fpAbs(v), z3.FPVal(hi, F64)))
    r = a.view(FSym)
    r._ld = _F8
    return r, vs, asm


def fp_value(m, v):
    """python float of an FP variable in a model"""
    import struct
    t = m.eval(v, True)
    s = z3.simplify(z3.fpToIEEEBV(t))
    return struct.unpack('<d', struct.pack('<Q', s.as_long()))[0]
