"""Object-array mode (DESIGN 1.3): real NumPy object arrays whose elements are z3 Real terms.

Shapes are concrete per configuration; only the values are symbolic.  Real NumPy performs every reshape, transpose,
strided slice, ndindex, concatenate and stack, so index semantics are NumPy's own.  A thin ndarray subclass carries a
*logical* dtype and intercepts the few value-level operations NumPy cannot do on z3 terms."""
from fractions import Fraction

import time

import numpy as np
import z3


def rq(v):
    """exact rational of a python/numpy number as z3 Real"""
    if isinstance(v, z3.ExprRef):
        return v
    f = Fraction(float(v)) if not isinstance(v, (int, Fraction)) else Fraction(v)
    return z3.Q(f.numerator, f.denominator)


import operator
_CMP = {np.greater_equal: operator.ge, np.greater: operator.gt, np.less_equal: operator.le, np.less: operator.lt}
NARROW = {}
USQRT = z3.Function('SQRT', z3.RealSort(), z3.RealSort())


BOOL_DECIDE = [None]      # hook: how a symbolic truth value becomes a path decision (default: ask the solver)


def concretize_bools(a):
    from vlib.symex import decide, SBool
    dec = BOOL_DECIDE[0] or decide

    def one(t):
        if isinstance(t, SBool):
            t = t.z
        if isinstance(t, z3.ExprRef):
            return bool(dec(t))
        return bool(t)
    if isinstance(a, np.ndarray):
        out = np.zeros(a.shape, dtype=bool)
        for idx in np.ndindex(*a.shape):
            out[idx] = one(a[idx])
        return out
    return one(a)


def narrow_fn(ld):
    k = np.dtype(ld).str.strip('<>|=')
    if k not in NARROW:
        NARROW[k] = z3.Function('NARROW_' + k, z3.RealSort(), z3.RealSort())
    return NARROW[k]


def usqrt(t):
    if isinstance(t, (int, float, np.integer, np.floating)):
        import math
        r = math.isqrt(int(t)) if float(t).is_integer() and t >= 0 else None
        if r is not None and r * r == int(t):
            return r
    tz = z3.simplify(rq(t), som=True)   # canonical polynomial form: equal polynomials give the identical SQRT term
    if z3.is_rational_value(tz):
        import math
        f = tz.as_fraction()
        if f >= 0:
            a, b = math.isqrt(f.numerator), math.isqrt(f.denominator)
            if a * a == f.numerator and b * b == f.denominator:
                return z3.Q(a, b)
    return USQRT(tz)


def _to_obj(a):
    o = np.empty(a.shape, dtype=object)
    for idx in np.ndindex(*a.shape):
        v = a[idx]
        o[idx] = int(v) if float(v).is_integer() else rq(float(v))
    return o


def _coerce(r):
    if isinstance(r, np.ndarray):
        return r
    if isinstance(r, (float, np.floating)):
        return int(r) if float(r).is_integer() else rq(float(r))
    if isinstance(r, np.integer):
        return int(r)
    return r


class Sym(np.ndarray):
    """object ndarray of z3 Real terms with a logical dtype"""
    _ld = np.dtype('f8')

    def __array_finalize__(self, obj):
        self._ld = getattr(obj, '_ld', np.dtype('f8'))

    @property
    def dtype(self):           # the dtype the library sees
        return self._ld

    def raw(self):
        return np.ndarray.view(self, np.ndarray)

    def astype(self, dt, copy=True, **kw):
        r = self.copy() if copy else self
        r = r.view(Sym)
        r._ld = np.dtype(dt)
        return r

    def copy(self, order='C'):
        r = np.ndarray.copy(self.raw()).view(Sym)
        r._ld = self._ld
        return r

    def sum(self, axis=None, dtype=None, **kw):
        r = np.ndarray.sum(self.raw(), axis=axis, **kw)
        if isinstance(r, np.ndarray):
            r = r.view(Sym)
            r._ld = np.dtype(dtype) if dtype is not None else self._ld
        return r

    def mean(self, axis=None, **kw):
        raw = self.raw()
        s = np.ndarray.sum(raw, axis=axis)
        if axis is None:
            cnt = raw.size
        else:
            ax = (axis,) if isinstance(axis, int) else axis
            cnt = int(np.prod([raw.shape[a] for a in ax]))
        r = s / z3.RealVal(cnt) if not isinstance(s, np.ndarray) else np.vectorize(lambda t: t / z3.RealVal(cnt), otypes=[object])(s)
        if isinstance(r, np.ndarray):
            r = r.view(Sym)
            r._ld = np.dtype('f8')
        return r

    def __array_ufunc__(self, ufunc, method, *inputs, out=None, dtype=None, **kw):
        """element-wise arithmetic on terms through NumPy's object loops; the logical result dtype follows NumPy's
        promotion rules (python scalars weak, NEP 50) and any result computed in a dtype narrower than float64 is wrapped
        in an uninterpreted NARROW_<dtype>: precision lost in a narrow intermediate shows up in the terms"""
        if method != '__call__':
            return NotImplemented
        lds = []
        raws = []
        for x in inputs:
            if isinstance(x, Sym):
                lds.append(x._ld)
                raws.append(x.raw())
            elif isinstance(x, np.ndarray):
                lds.append(x.dtype if x.dtype != object else np.dtype('f8'))
                raws.append(x if x.dtype == object else _to_obj(x))
            else:
                lds.append(x)
                raws.append(x)
        if ufunc is np.square:
            res = np.vectorize(lambda t: t * t, otypes=[object])(raws[0]) if np.size(raws[0]) else np.empty(np.shape(raws[0]), dtype=object)
        elif ufunc is np.power and not isinstance(raws[1], np.ndarray) and raws[1] == 2:
            res = np.vectorize(lambda t: t * t, otypes=[object])(raws[0]) if np.size(raws[0]) else np.empty(np.shape(raws[0]), dtype=object)
        elif ufunc is np.power and not isinstance(raws[1], np.ndarray) and raws[1] == 0.5:
            res = np.vectorize(usqrt, otypes=[object])(raws[0]) if np.size(raws[0]) else np.empty(np.shape(raws[0]), dtype=object)
        elif ufunc in (np.add, np.subtract, np.multiply, np.true_divide, np.negative):
            res = ufunc(*[_coerce(r) for r in raws])
        elif ufunc in (np.bitwise_or, np.bitwise_and, np.logical_or, np.logical_and, np.logical_not, np.invert, np.bitwise_xor, np.logical_xor):
            # Boolean combination of comparison results: every symbolic truth value becomes a path decision, then NumPy's
            # own Boolean ufunc runs on concrete flags (which can also index, feed np.any / np.where, ...)
            conc_ = [concretize_bools(r) for r in raws]
            return ufunc(*conc_, **kw)
        elif ufunc in _CMP:
            op = _CMP[ufunc]
            a, b = [_coerce(r) for r in raws]
            res = np.vectorize(lambda p, q: op(rq(p) if isinstance(p, z3.ExprRef) or isinstance(q, z3.ExprRef) else p, q), otypes=[object])(a, b)
            if isinstance(res, np.ndarray) and res.ndim > 0:
                return res.view(Sym)
            v = res.item() if isinstance(res, np.ndarray) else res
            if isinstance(v, z3.ExprRef):
                from vlib.symex import SBool
                return SBool(v)         # scalar comparison: usable in `flag &= ...` and in `if`
            return v
        else:
            return NotImplemented
        if out is not None:
            o = out[0]
            ld = o._ld if isinstance(o, Sym) else np.dtype('f8')
        elif dtype is not None:
            ld = np.dtype(dtype)
        else:
            try:
                ld = np.result_type(*[l for l in lds])
            except Exception:
                ld = np.dtype('f8')
            if ufunc is np.true_divide and ld.kind in 'iu':
                ld = np.dtype('f8')
        res = np.asarray(res, dtype=object)
        if ld != np.dtype('f8') and res.size:
            fn = narrow_fn(ld)
            res = np.vectorize(lambda t: fn(rq(t)), otypes=[object])(res)
        if out is not None:
            o = out[0]
            (o.raw() if isinstance(o, Sym) else o)[...] = res
            return o
        r = res.view(Sym)
        r._ld = ld
        return r

    def __array_function__(self, func, types, args, kwargs):
        if func is np.pad:
            a = args[0]
            mode = args[2] if len(args) > 2 else kwargs.get('mode', 'constant')
            if mode in ('linear_ramp', 'mean'):
                # value-computing modes: NumPy computes the fill values in the dtype of the array it is given; for an
                # integer array they are rounded, which is kept visible as an uninterpreted PADROUND_<dtype>
                raw = a.raw() if isinstance(a, Sym) else np.asarray(a, dtype=object)
                pw = args[1]
                if raw.ndim != 1 or not (isinstance(pw, tuple) and len(pw) == 2 and all(isinstance(x, (int, np.integer)) for x in pw)):
                    raise NotImplementedError('%s padding of this shape' % mode)
                ald = a._ld if isinstance(a, Sym) else np.dtype('f8')
                if ald.kind in 'iu':
                    _rf = z3.Function('PADROUND_%s' % ald.name, z3.RealSort(), z3.RealSort())
                    rnd_ = lambda t: _rf(t)
                else:
                    rnd_ = lambda t: t
            if mode == 'mean':
                if kwargs.get('stat_length') is not None:
                    raise NotImplementedError('mean padding with stat_length')
                n = raw.shape[0]
                if n == 0:
                    raise ValueError("can't extend empty axis 0 using modes other than 'constant' or 'empty'")
                mu = z3.RealVal(0)
                for t_ in raw:
                    mu = mu + rq(t_)
                mu = rnd_(mu / z3.RealVal(n))
                out = np.empty(n + pw[0] + pw[1], dtype=object)
                out[:pw[0]] = mu
                out[pw[0]:pw[0] + n] = raw
                out[pw[0] + n:] = mu
                r = out.view(Sym)
                r._ld = ald
                return r
            if mode == 'linear_ramp':
                # NumPy: each side is linspace(end_value, edge, width, endpoint=False), reversed on the right
                ev = kwargs.get('end_values', 0)
                el, er = (ev, ev) if not isinstance(ev, (tuple, list)) else ev
                n = raw.shape[0]
                out = np.empty(n + pw[0] + pw[1], dtype=object)
                for k in range(pw[0]):
                    out[k] = rnd_(rq(el) + (rq(raw[0]) - rq(el)) * z3.Q(k, pw[0]))
                out[pw[0]:pw[0] + n] = raw
                for j in range(pw[1]):
                    out[pw[0] + n + j] = rnd_(rq(er) + (rq(raw[n - 1]) - rq(er)) * z3.Q(pw[1] - 1 - j, pw[1]))
                r = out.view(Sym)
                r._ld = a._ld if isinstance(a, Sym) else np.dtype('f8')
                return r
            r = func(a.raw() if isinstance(a, Sym) else a, *args[1:], **kwargs)
            r = r.view(Sym)
            r._ld = a._ld
            return r
        if func is np.correlate:
            a, v = args[0], args[1]
            mode = args[2] if len(args) > 2 else kwargs.get('mode', 'valid')
            n, m = len(a), len(v)
            ao = a.raw() if isinstance(a, Sym) else a
            if mode == 'valid':
                if n < m:
                    raise NotImplementedError("correlate 'valid' with the longer second operand")
                out = np.empty(n - m + 1, dtype=object)
                for k in range(n - m + 1):
                    s = z3.RealVal(0)
                    for i in range(m):          # numpy.correlate(a, v, 'valid')[k] = sum_i a[k + i] * v[i]
                        s = s + ao[k + i] * rq(v[i])
                    out[k] = s
                r = out.view(Sym)
                r._ld = np.dtype('f8')
                return r
            assert mode == 'full'
            out = np.empty(n + m - 1, dtype=object)
            for k in range(n + m - 1):
                s = z3.RealVal(0)
                for j in range(n):
                    i = j - k + m - 1     # numpy.correlate(a, v, 'full')[k] = sum_j a[j] * v[j - k + m - 1]
                    if 0 <= i < m:
                        s = s + ao[j] * rq(v[i])
                out[k] = s
            r = out.view(Sym)
            r._ld = np.dtype('f8')
            return r
        if func is np.square:
            a = args[0]
            r = np.vectorize(lambda t: t * t, otypes=[object])(a.raw()).view(Sym) if a.size else a.raw().copy().view(Sym)
            r._ld = np.dtype(kwargs.get('dtype', a._ld))
            return r
        args2 = tuple(x.raw() if isinstance(x, Sym) else ([y.raw() if isinstance(y, Sym) else y for y in x] if isinstance(x, (list, tuple)) and any(isinstance(y, Sym) for y in x) else x) for x in args)
        lds = [x._ld for x in args if isinstance(x, Sym)] + [y._ld for x in args if isinstance(x, (list, tuple)) for y in x if isinstance(y, Sym)]
        r = func(*args2, **kwargs)
        if isinstance(r, np.ndarray) and r.dtype == object:
            r = r.view(Sym)
            r._ld = np.result_type(*lds) if lds else np.dtype('f8')
        return r


def sym(shape, name='x', ld='f8'):
    a = np.empty(shape, dtype=object)
    for idx in np.ndindex(*shape):
        a[idx] = z3.Real('%s_%s' % (name, '_'.join(map(str, idx))))
    a = a.view(Sym)
    a._ld = np.dtype(ld)
    return a


class NPProxy:
    """numpy, except that freshly allocated arrays are object arrays carrying the requested logical dtype"""

    def __getattr__(self, n):
        return getattr(np, n)

    @staticmethod
    def empty(shape, dtype=None):
        r = np.empty(shape, dtype=object).view(Sym)
        r._ld = np.dtype(dtype if dtype is not None else 'f8')
        return r

    @staticmethod
    def zeros(shape, dtype=None):
        r = np.empty(shape, dtype=object)
        r[...] = 0    # python ints: concrete counters stay concrete, 0 + term = term
        r = r.view(Sym)
        r._ld = np.dtype(dtype if dtype is not None else 'f8')
        return r


STATS = {'queries': 0, 'solver_s': 0.0}


def differs(a, b, xs=None, tol=None):
    """z3: can a and b (object arrays of terms, same shape) differ?  With tol: exists x in [-1,1]^n |a-b| > tol."""
    ar = a.raw() if isinstance(a, Sym) else a
    br = b.raw() if isinstance(b, Sym) else b
    if ar.shape != br.shape:
        return 'shape'
    pairs = [(p, q) for p, q in zip(ar.ravel(), br.ravel()) if not (isinstance(p, z3.ExprRef) and isinstance(q, z3.ExprRef) and p.eq(q))]
    if not pairs:
        return 'unsat'
    s = z3.Solver()
    s.set('timeout', 60000)
    if tol is not None:
        for v in xs:
            s.add(v >= -1, v <= 1)
        t = rq(Fraction(tol))
        s.add(z3.Or([z3.Or(p - q > t, q - p > t) for p, q in pairs]))
    else:
        s.add(z3.Or([p != q for p, q in pairs]))
    t0 = time.time()
    r = str(s.check())
    STATS['queries'] += 1
    STATS['solver_s'] += time.time() - t0
    return r
