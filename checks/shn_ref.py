"""Independent reference for the shorten (v1-2) format, written from the format description (shorten 2.x / sph2pipe's
shorten_x.c semantics): bit writer (program -> bytes), bit parser (bytes -> program) and a decoder of *programs*.

The decoder is generic over the sample domain: python ints (concrete replays, shipped vectors) or z3 64-bit
bit-vectors (symbolic residuals) -- arithmetic goes through the small `ops` objects below.
A program is a list of commands:
   ('diff', order 0..3, resn, [residuals])        residual = (z, field)  uvar code = z << (resn+1) | field
   ('qlpc', resn, [quantised coefs], [residuals])
   ('zero',) ('blocksize', n) ('bitshift', k) ('quit',)
Header: dict(version, ftype, nchan, blocksize, maxnlpc, nmean, nskip).
"""
import z3

FN_DIFF0, FN_DIFF1, FN_DIFF2, FN_DIFF3, FN_QUIT, FN_BLOCKSIZE, FN_BITSHIFT, FN_QLPC, FN_ZERO = range(9)
ULONGSIZE, FNSIZE, ENERGYSIZE, BITSHIFTSIZE, LPCQSIZE, LPCQUANT, NWRAP = 2, 2, 3, 2, 2, 5, 3
TYPE_AU1, TYPE_S8, TYPE_U8, TYPE_S16HL, TYPE_U16HL, TYPE_S16LH, TYPE_U16LH, TYPE_ULAW, TYPE_AU2 = range(9)
WID = 64


# ----------------------------------------------------------------------------- bit writer

class BitWriter:
    def __init__(s):
        s.bits = []   # 0/1 ints or 1-bit z3 BitVecs

    def put(s, val, n):
        for k in range(n - 1, -1, -1):
            s.bits.append(((val >> k) & 1) if isinstance(val, int) else z3.Extract(k, k, val))

    def uvar(s, v, nbin):
        for _ in range(v >> nbin):
            s.bits.append(0)
        s.bits.append(1)
        s.put(v & ((1 << nbin) - 1), nbin)

    def uvar_field(s, z, field, nbin):
        """z leading zeros, the stop bit, then an nbin-bit field (int or BitVec(nbin))"""
        for _ in range(z):
            s.bits.append(0)
        s.bits.append(1)
        s.put(field, nbin)

    def ulong(s, v):
        nbit = v.bit_length()
        s.uvar(nbit, ULONGSIZE)
        s.uvar(v, nbit)

    def svar(s, v, nbin):
        """signed value, zig-zag: v >= 0 -> 2v ; v < 0 -> 2(~v)+1"""
        u = (v << 1) if v >= 0 else (((~v) << 1) | 1)
        s.uvar(u, nbin + 1)

    def tobytes(s, pad_words=0):
        bits = list(s.bits)
        while len(bits) % 32:
            bits.append(0)
        bits += [0] * (32 * pad_words)
        out = []
        for i in range(0, len(bits), 8):
            grp = bits[i:i + 8]
            if all(isinstance(b, int) for b in grp):
                out.append(int(''.join(map(str, grp)), 2))
            else:
                out.append(z3.simplify(z3.Concat(*[b if z3.is_bv(b) else z3.BitVecVal(b, 1) for b in grp])))
        return out


def encode(hdr, prog, pad_words=0):
    w = BitWriter()
    for k in ('ftype', 'nchan', 'blocksize', 'maxnlpc', 'nmean', 'nskip'):
        w.ulong(hdr[k])
    for c in prog:
        if c[0] == 'diff':
            _, order, resn, res = c
            w.uvar(order, FNSIZE)
            w.uvar(resn, ENERGYSIZE)
            for (z, f) in res:
                w.uvar_field(z, f, resn + 1)
        elif c[0] == 'qlpc':
            _, resn, coefs, res = c
            w.uvar(FN_QLPC, FNSIZE)
            w.uvar(resn, ENERGYSIZE)
            w.uvar(len(coefs), LPCQSIZE)
            for q in coefs:
                w.svar(q, LPCQUANT)
            for (z, f) in res:
                w.uvar_field(z, f, resn + 1)
        elif c[0] == 'zero':
            w.uvar(FN_ZERO, FNSIZE)
        elif c[0] == 'blocksize':
            w.uvar(FN_BLOCKSIZE, FNSIZE)
            w.ulong(c[1])
        elif c[0] == 'bitshift':
            w.uvar(FN_BITSHIFT, FNSIZE)
            w.uvar(c[1], BITSHIFTSIZE)
        elif c[0] == 'quit':
            w.uvar(FN_QUIT, FNSIZE)
        elif c[0] == 'rawcmd':
            w.uvar(c[1], FNSIZE)
        else:
            raise ValueError(c)
    return [ord('a'), ord('j'), ord('k'), ord('g'), hdr['version']] + w.tobytes(pad_words)


# ----------------------------------------------------------------------------- bit parser (concrete)

class BitReader:
    def __init__(s, data):
        s.data = data
        s.pos = 0

    def bit(s):
        byte = s.pos >> 3
        if byte >= len(s.data):
            raise EOFError
        b = (s.data[byte] >> (7 - (s.pos & 7))) & 1
        s.pos += 1
        return b

    def uvar(s, nbin):
        z = 0
        while not s.bit():
            z += 1
        v = 0
        for _ in range(nbin):
            v = (v << 1) | s.bit()
        return (z << nbin) | v

    def ulong(s):
        return s.uvar(s.uvar(ULONGSIZE))

    def svar(s, nbin):
        u = s.uvar(nbin + 1)
        return ~(u >> 1) if u & 1 else u >> 1


def parse(data):
    """bytes of an embedded shorten stream -> (hdr, program) with concrete residuals"""
    assert data[:4] == b'ajkg'
    hdr = {'version': data[4]}
    r = BitReader(data[5:])
    for k in ('ftype', 'nchan', 'blocksize', 'maxnlpc', 'nmean', 'nskip'):
        hdr[k] = r.ulong()
    assert hdr['nskip'] == 0
    prog = []
    bs = hdr['blocksize']
    while True:
        cmd = r.uvar(FNSIZE)
        if cmd == FN_QUIT:
            prog.append(('quit',))
            break
        if cmd in (FN_DIFF0, FN_DIFF1, FN_DIFF2, FN_DIFF3):
            resn = r.uvar(ENERGYSIZE)
            res = []
            for _ in range(bs):
                u = r.uvar(resn + 1)
                res.append((u >> (resn + 1), u & ((1 << (resn + 1)) - 1)))
            prog.append(('diff', cmd, resn, res))
        elif cmd == FN_QLPC:
            resn = r.uvar(ENERGYSIZE)
            n = r.uvar(LPCQSIZE)
            coefs = [r.svar(LPCQUANT) for _ in range(n)]
            res = []
            for _ in range(bs):
                u = r.uvar(resn + 1)
                res.append((u >> (resn + 1), u & ((1 << (resn + 1)) - 1)))
            prog.append(('qlpc', resn, coefs, res))
        elif cmd == FN_ZERO:
            prog.append(('zero',))
        elif cmd == FN_BLOCKSIZE:
            bs = r.ulong()
            prog.append(('blocksize', bs))
        elif cmd == FN_BITSHIFT:
            prog.append(('bitshift', r.uvar(BITSHIFTSIZE)))
        else:
            raise ValueError('unknown command %d' % cmd)
    return hdr, prog


# ----------------------------------------------------------------------------- program decoder (generic domain)

class IntOps:
    @staticmethod
    def const(v):
        return v

    @staticmethod
    def residual(z, f, nbits):
        u = (z << nbits) | f
        return ~(u >> 1) if u & 1 else u >> 1

    @staticmethod
    def cdiv(a, b):   # C99: truncate toward zero
        q = abs(a) // b
        return q if a >= 0 else -q

    @staticmethod
    def shr(a, k):    # arithmetic
        return a >> k

    @staticmethod
    def shl(a, k):
        return a << k


class BVOps:
    @staticmethod
    def const(v):
        return z3.BitVecVal(v, WID)

    @staticmethod
    def residual(z, f, nbits):
        fz = f if z3.is_bv(f) else z3.BitVecVal(f, nbits)
        u = z3.BitVecVal(z << nbits, WID) | z3.ZeroExt(WID - nbits, fz)
        return z3.If(u & 1 == 1, ~z3.LShR(u, 1), z3.LShR(u, 1))

    @staticmethod
    def cdiv(a, b):
        return a / z3.BitVecVal(b, WID)   # bvsdiv truncates toward zero

    @staticmethod
    def shr(a, k):
        return a >> k

    @staticmethod
    def shl(a, k):
        return a << k


def ref_decode(hdr, prog, ops=IntOps, outward=None):
    """returns list of per-frame tuples (one value per channel) in output order; `outward(bitshift, v)` models the
    mu-law table fix-up for ftype AU1 (None for the linear types)"""
    version, ftype, nchan, bs, nmean = hdr['version'], hdr['ftype'], hdr['nchan'], hdr['blocksize'], hdr['nmean']
    nwrap = max(NWRAP, hdr['maxnlpc'])
    lpcqoffset = (1 << LPCQUANT) if version > 1 else 0
    K = ops.const
    if ftype in (TYPE_U8,):
        mean0 = 0x8
    elif ftype in (TYPE_U16HL, TYPE_U16LH):
        mean0 = 0x8000
    else:
        mean0 = 0
    hist = [[K(0)] * nwrap for _ in range(nchan)]
    means = [[K(mean0)] * max(1, nmean) for _ in range(nchan)]
    bitshift = 0
    chan = 0
    pending = []
    out = []
    for c in prog:
        if c[0] == 'quit':
            break
        if c[0] == 'blocksize':
            bs = c[1]
            continue
        if c[0] == 'bitshift':
            bitshift = c[1]
            continue
        if nmean:
            sm = K(nmean // 2 if version >= 2 else 0)
            for m in means[chan][:nmean]:
                sm = sm + m
            coff = ops.cdiv(sm, nmean)
            if version >= 2:
                coff = ops.shr(coff, bitshift)
        else:
            coff = means[chan][0]
        h = list(hist[chan])
        cur = []
        if c[0] == 'zero':
            cur = [K(0)] * bs
        elif c[0] == 'diff':
            _, order, resn, res = c
            assert len(res) == bs
            for (z, f) in res:
                r = ops.residual(z, f, resn + 1)
                hh = h + cur
                if order == 0:
                    s = r + coff
                elif order == 1:
                    s = r + hh[-1]
                elif order == 2:
                    s = r + 2 * hh[-1] - hh[-2]
                else:
                    s = r + 3 * (hh[-1] - hh[-2]) + hh[-3]
                cur.append(s)
        elif c[0] == 'qlpc':
            _, resn, coefs, res = c
            assert len(res) == bs
            n = len(coefs)
            for i in range(n):
                h[-1 - i] = h[-1 - i] - coff
            for (z, f) in res:
                r = ops.residual(z, f, resn + 1)
                hh = h + cur
                sm = K(lpcqoffset)
                for j in range(n):
                    sm = sm + coefs[j] * hh[-1 - j]
                cur.append(r + ops.shr(sm, LPCQUANT))
            cur = [s + coff for s in cur]
        else:
            raise ValueError(c)
        if nmean > 0:
            sm = K(bs // 2 if version >= 2 else 0)
            for s in cur:
                sm = sm + s
            nm = ops.cdiv(sm, bs)
            if version >= 2:
                nm = ops.shl(nm, bitshift)
            means[chan] = means[chan][1:nmean] + [nm]
        hist[chan] = (h + cur)[-nwrap:]
        if outward is not None:
            o = [outward(bitshift, s) for s in cur]
        elif bitshift:
            o = [ops.shl(s, bitshift) for s in cur]
        else:
            o = cur
        pending.append(o)
        if chan == nchan - 1:
            for i in range(bs):
                out.append(tuple(pending[ch][i] for ch in range(nchan)))
            pending = []
        chan = (chan + 1) % nchan
    return out
