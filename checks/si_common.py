"""Shared symbolic harness for ShortIntegrationFrameComputer (C01, C03, C04)."""
import builtins

import z3

from vlib import loader, symex
from vlib.nd import ND, nd_sum_axis1, zi
from vlib.symex import (Ctx, SInt, _z, conc, decide, explore, scount, smax, smin, srange, Inconclusive, Unsupported, check_sat)

I = z3.IntSort()
R = z3.RealSort()
x = z3.Function('x', I, R)
W = z3.Function('w', I, I, R)
ABS = z3.Function('ABS', R, R)
SQ = z3.Function('SQ', R, R)
LOGF = z3.Function('LOGFLOOR', R, R)   # log(max(., LOG_FLOOR_VALUE)) as one uninterpreted map


class Tok:
    def __init__(s, kind, **kw):
        s.kind = kind
        s.__dict__.update(kw)
        s.dtype = kw.get('dtype', 'c16')

    def __mul__(self, o):
        if self.kind == 'spec' and isinstance(o, FiltTok):
            return Tok('conv', get=self.get, filt=z3.IntVal(o.i), dtype=self.dtype)
        raise Unsupported('Tok.__mul__')


class FiltTok:
    def __init__(s, i):
        s.i = i


class Floating:
    pass


def make_np(S, M, D, ncoef, junk_tag=''):
    F = z3.Function('F', I, *([R] * M), R)  # circular FIR of length M (filter index first)

    class FFT:
        @staticmethod
        def rfft(buf, n=None):
            g = buf.snapshot()
            ln = zi(buf.shape[0])
            if n is not None and not decide(ln <= zi(n)):
                raise Unsupported('rfft truncation')
            # NumPy >= 2: rfft of float32 gives complex64
            return Tok('spec', get=lambda i: g((i,)) if decide(z3.And(i >= 0, i < ln)) else z3.RealVal(0),
                       dtype='c16' if buf.dtype == 'f8' else 'c8')
        fft = rfft

        @staticmethod
        def irfft(tok, n=None):
            assert tok.kind == 'conv'
            g = tok.get
            fi = tok.filt
            if n is None and D % 2:
                # NumPy: without n the output has 2*(m-1) samples, m = D//2+1 bins: for an odd D that is D-1 samples of
                # a different (even-length) inverse transform -- unrelated values
                GARB = z3.Function('irfft_wrong_length', I, I, R)
                return ND.fresh((D - 1,), lambda idx: GARB(fi, idx[0]), 'f8')
            if n is not None and not (isinstance(n, int) and n == D):
                raise Unsupported('irfft with n != dft size')

            def get(idx):
                nn = idx[0]
                return F(fi, *[g((nn - m) % D) for m in range(M)])
            return ND.fresh((D,), get, 'f8' if tok.dtype == 'c16' else 'f4')

        @staticmethod
        def ifft(tok):
            return FFT.irfft(tok)

    class NP:
        float64 = 'f8'
        float32 = 'f4'
        complex128 = 'c16'
        complex64 = 'c8'
        floating = Floating
        fft = FFT

        @staticmethod
        def empty(shape, dtype=None):
            if not isinstance(shape, tuple):
                shape = (shape,)
            J = z3.Function('junk%s%d' % (junk_tag, len(shape)), *([I] * len(shape)), R)
            return ND.fresh(shape, lambda idx: J(*idx), dtype)

        @staticmethod
        def zeros(shape, dtype=None):
            if not isinstance(shape, tuple):
                shape = (shape,)
            return ND.fresh(shape, lambda idx: z3.RealVal(0), dtype)

        @staticmethod
        def issubdtype(a, b):
            return a in ('f8', 'f4', 'f2') and b is Floating

        @staticmethod
        def abs(a):
            g = a.snapshot()
            return ND.fresh(a.shape, lambda idx: ABS(g(idx)), a.dtype)

        @staticmethod
        def sum(a, axis=None):
            assert axis == 1
            return nd_sum_axis1(a, S)

        @staticmethod
        def log(a):
            return a   # always applied to np.maximum(...) below, which already is LOGFLOOR

        @staticmethod
        def maximum(a, v):
            g = a.snapshot()
            return ND.fresh(a.shape, lambda idx: LOGF(g(idx)), a.dtype)

        @staticmethod
        def concatenate(arrs, axis=0):
            a, b = arrs
            an = zi(a.shape[0])
            ag = a.snapshot()
            bg = b.snapshot()
            nc = a.shape[1]
            return ND.fresh((conc(SInt(an + zi(b.shape[0]))), nc),
                            lambda idx: ag(idx) if decide(idx[0] < an) else bg((idx[0] - an, idx[1])), a.dtype)
    return NP


def _conj(self):
    return self
ND.conj = _conj


def slen(a):
    if isinstance(a, ND):
        return a.shape[0]
    return builtins.len(a)


class Cfg:
    USE_FFTPACK = False
    LOG_FLOOR_VALUE = 1e-5


def load(NP):
    return loader.load_unit('compute', dict(np=NP, range=srange, len=slen, max=smax, min=smin, count=scount,
                                            config=Cfg), name='compute_under_test')


class _Bank:
    def __init__(self, n):
        self.num_filts = n


def _power_mul(self, o):
    # y_valid * y_valid.conj() in power mode: keep as SQ(.) so both sides build the same term
    if o is self or getattr(o, '_conj_of', None) is self:
        g = self.snapshot()
        return ND.fresh(self.shape, lambda idx: SQ(g(idx)), self.dtype)
    return None


def mk(ns, S, M, D, style, ncoef, power, log, trans=None, real=True, dtype='f8'):
    """hand-built instance; representation invariant of the real constructor:
       frame_length = M+S-1 <= D, y_blocks = ceil((D-M+2S)/S), translation = M//2 (centered) or given (causal)."""
    cls = ns['ShortIntegrationFrameComputer']
    o = cls.__new__(cls)
    NP = ns['np']
    o._rate = 1000
    o._frame_shift = S
    o._log = log
    o._power = power
    o._real = real
    o._ret_dtype = 'f8'
    o._x_rem = o._y_rem = o._skip = 0
    o._started = False
    o._frame_style = style
    o._window = ND.fresh((2, S), lambda idx: W(idx[0], idx[1]))
    o._max_support = M
    if style == 'centered':
        o._translation = M // 2
    else:
        o._translation = 1 if trans is None else trans
    o._frame_length = M + S - 1
    o._dft_size = D
    o._x_buf = NP.empty(D, 'f8')
    o._filts = [FiltTok(i) for i in range(ncoef)]
    yb = -(-(D - M + 2 * S) // S)
    o._y_buf = NP.empty((yb, 2, ncoef), 'f8')
    o._bank = _Bank(ncoef)
    o._include_energy = False
    import copy
    from vlib import loader as _loader
    for k, v in _loader.literal_init_fields('compute', 'ShortIntegrationFrameComputer').items():
        if k not in o.__dict__:
            o.__dict__[k] = copy.deepcopy(v)       # literal-initialised state the hand-built instance does not know about
    return o


def sig(off, n, dtype='f8'):
    offz = _z(off)
    return ND.fresh((n,), lambda idx: x(offz + idx[0]), dtype)


def _rows(a, ncoef):
    n = a.shape[0]
    n = n.__index__() if isinstance(n, SInt) else n
    return [[z3.simplify(a.get(z3.IntVal(r), z3.IntVal(c))) for c in range(ncoef)] for r in range(n)]


# power mode: y_valid[:] = y_valid * y_valid.conj()  -> ND * ND of identical terms; keep it uninterpreted
_orig_mul = ND.__mul__


def _nd_mul(self, o):
    if isinstance(o, ND) and o.store is self.store and o.axes == self.axes:
        g = self.snapshot()
        return ND.fresh(self.shape, lambda idx: SQ(g(idx)), self.dtype)
    return _orig_mul(self, o)


ND.__mul__ = _nd_mul


# ------------------------------------------------------------------ C01: chunked == full

def si_grid(tier):
    """(S, M, D, style, translation) of hand-built instances that satisfy the property's precondition:
    frame shift shorter than the longest filter's one-sided support -- causal: S < M - translation (support measured
    from sample 0), centered: S < M - M//2 (measured from the support's centre); frame_length = M+S-1 <= D."""
    # (2, 6, 9, causal, 3): a look-ahead (translation) longer than the frame shift, so that short signals end inside it
    g = [(2, 3, 6, 'causal', 0), (2, 4, 7, 'causal', 1), (2, 6, 9, 'causal', 3), (2, 5, 9, 'centered', None), (1, 3, 6, 'centered', None)]
    if tier == 'thorough':
        g += [(3, 5, 9, 'causal', 1), (2, 4, 6, 'causal', 1), (3, 7, 12, 'centered', None), (2, 6, 9, 'centered', None)]
    for (S, M, D, style, tr) in g:
        assert M + S - 1 <= D and (S < M - tr if style == 'causal' else S < M - M // 2)
    return g


def c01_configs(tier):
    out = []
    K, NMAX = (2, 9) if tier == 'quick' else (2, 12)
    for (S, M, D, style, tr) in si_grid(tier):
        out.append(dict(kind='si_hist', name='si_hist S%d M%d D%d %s K%d' % (S, M, D, style, K), S=S, M=M, D=D, style=style, trans=tr,
                        K=K, NMAX=NMAX, power=True, log=False))
    if tier == 'thorough':
        out.append(dict(kind='si_hist', name='si_hist S2 M5 D8 centered K3 mag+log', S=2, M=5, D=8, style='centered', trans=None, K=3,
                        NMAX=8, power=False, log=True))
    return out


def run_c01(cfg):
    S, M, D, style, K, NMAX = cfg['S'], cfg['M'], cfg['D'], cfg['style'], cfg['K'], cfg['NMAX']
    power, log = cfg.get('power', True), cfg.get('log', False)
    ncoef = 1
    symex.NONLINEAR_UF = True   # products of symbolic reals are an uninterpreted MUL (same on both sides)
    NP = make_np(S, M, D, ncoef)
    ns = load(NP)
    viol, samples = [], []
    ob = dis = 0
    reached = False
    names = ['N'] + ['c%d' % i for i in range(K)]

    def body():
        c = Ctx.cur
        N = z3.Int('N')
        cs = [z3.Int('c%d' % i) for i in range(K)]
        c.inputs = [N] + cs
        c.assume(N >= 0, N <= NMAX, *[ci >= 0 for ci in cs])
        c.assume(z3.Sum(cs) == N)
        o = mk(ns, S, M, D, style, ncoef, power, log, trans=cfg.get('trans'))
        outs = []
        off = z3.IntVal(0)
        try:
            for ci in cs:
                outs.append(o.compute_chunk(sig(off, conc(SInt(ci)))))
                off = off + ci
            outs.append(o.finalize())
        except Exception as e:
            symex.guard(e)
            return ('exc', 'streaming %s: %s' % (type(e).__name__, e))
        o2 = mk(ns, S, M, D, style, ncoef, power, log, trans=cfg.get('trans'))
        try:
            full = o2.compute_full(sig(z3.IntVal(0), conc(SInt(N))))
        except Exception as e:
            symex.guard(e)
            return ('exc', 'compute_full %s: %s' % (type(e).__name__, e))
        rc = []
        for a in outs:
            rc.extend(_rows(a, ncoef))
        return ('ok', rc, _rows(full, ncoef))

    def ints(ctx):
        m = ctx.model()
        return {n: m.eval(z3.Int(n), model_completion=True).as_long() for n in names}

    for ctx, res in explore(body):
        if res is None:
            continue
        ob += 1
        base = dict(kind='si_hist', S=S, M=M, D=D, style=style, power=power, log=log)
        if res[0] == 'exc':
            viol.append(dict(base, what='exception', detail=res[1], **ints(ctx)))
            continue
        _, rc, rf = res
        if len(rc) != len(rf):
            viol.append(dict(base, what='count', streamed=len(rc), full=len(rf), **ints(ctx)))
            continue
        reached = reached or bool(rf)
        bad = [a != b for r1, r2 in zip(rc, rf) for a, b in zip(r1, r2) if not a.eq(b)]
        if bad:
            s = ctx.solver
            s.push()
            s.add(z3.Or(bad))
            r = check_sat(s)
            if r == 'sat':
                m = s.model()
                viol.append(dict(base, what='value', **{n: m.eval(z3.Int(n), True).as_long() for n in names}))
                s.pop()
                continue
            s.pop()
            if r != 'unsat':
                raise Inconclusive('si final query %s' % r)
        dis += 1
        if len(samples) < 1 and rf:
            samples.append({'config': cfg['name'], 'path_witness': ints(ctx), 'frames': len(rf), 'coeff[0][0]': str(rf[0][0])[:300]})
    for w in viol:
        w['cuts'] = [w.pop('c%d' % i) for i in range(K)]
        w['class'] = 'si_hist/%s/%s' % (cfg['name'], w['what'])
    return dict(obligations=ob, discharged=dis, violations=viol, samples=samples, twin=reached)


def real_si(S, M_hint, style, power=True, log=False, pad=False, include_energy=False, window='hamming'):
    """a real SI computer at 1 kHz whose frame shift is S samples (bank: 2 Gabor filters; its max support is
    whatever the bank gives -- used for concrete replays, which search over real configurations)"""
    from pydrobert.speech.compute import SIFrameComputer
    from pydrobert.speech.filters import GaborFilterBank
    bank = GaborFilterBank('mel', num_filts=2, sampling_rate=1000, low_hz=100, high_hz=450)
    return SIFrameComputer(bank, frame_shift_ms=S + 0.5, frame_style=style, include_energy=include_energy,
                           pad_to_nearest_power_of_two=pad, window_function=window, use_power=power, use_log=log)


def replay_c01(w):
    """SI counterexamples are over an abstract bank (support M, DFT size D).  Confirm on real computers by
    replaying the same cut pattern scaled to a real bank's geometry, over a neighbourhood of lengths."""
    import numpy as np
    rng = np.random.RandomState(7)
    style = w['style']
    worst = (0.0, None)
    for S, pad in ((w['S'], False), (2 * w['S'] + 1, False), (5, False), (w['S'], True), (5, True)):
        try:
            c = real_si(S, w['M'], style, power=w.get('power', True), log=w.get('log', False), pad=pad)     # padded: several frames per DFT block
        except Exception as e:
            continue
        V = c._dft_size - c._max_support + 1
        for N in sorted(set([w['N']] + [k * V + d for k in (0, 1, 2) for d in (-1, 0, 1, 2)] + [c._frame_length + d for d in (-1, 0, 1)])):
            if N < 0:
                continue
            xs = rng.randn(N)
            for c0 in sorted(set([0, 1, min(N, w['cuts'][0]), N // 2, max(N - 1, 0), N])):
                try:
                    a = np.concatenate([c.compute_chunk(xs[:c0]), c.compute_chunk(xs[c0:]), c.finalize()])
                    b = c.compute_full(xs)
                except Exception as e:
                    return {'reproduced': True, 'detail': 'real SI computer raised %s: %s (S=%d N=%d c0=%d)' % (type(e).__name__, e, S, N, c0)}
                if a.shape != b.shape:
                    return {'reproduced': True, 'detail': 'real SI S=%d %s N=%d cuts=[%d,%d]: shapes %s vs %s' % (S, style, N, c0, N - c0, a.shape, b.shape)}
                d = float(np.abs(a - b).max()) if a.size else 0.0
                if d > worst[0]:
                    worst = (d, (S, N, c0))
            # many small chunks (every chunk shorter than two frame shifts) against one big one
            for cs in (1, c._frame_shift, 2 * c._frame_shift - 1):
                try:
                    parts = [c.compute_chunk(xs[i:i + cs]) for i in range(0, N, cs)] + [c.finalize()]
                    a = np.concatenate(parts)
                    b = c.compute_full(xs)
                except Exception as e:
                    return {'reproduced': True, 'detail': 'real SI computer raised %s: %s (S=%d N=%d chunk size %d)' % (type(e).__name__, e, S, N, cs)}
                if a.shape != b.shape:
                    return {'reproduced': True, 'detail': 'real SI S=%d %s N=%d chunk size %d: shapes %s vs %s' % (S, style, N, cs, a.shape, b.shape)}
                d = float(np.abs(a - b).max()) if a.size else 0.0
                if d > worst[0]:
                    worst = (d, (S, N, 'chunk size %d' % cs))
            # streamed and one-shot results can be wrong in the same way: both against the documented definition
            # (time-domain convolution with the prepared filters, window-weighted sums), inside the property's precondition
            pre = (c._frame_shift < c._max_support - c._translation) if style == 'causal' else (c._frame_shift < c._max_support - c._max_support // 2)
            if pre and N:
                from checks import c03 as _c03
                b = c.compute_full(xs)
                want = _c03._definition(c, xs)
                if b.shape != want.shape:
                    return {'reproduced': True, 'detail': 'real SI S=%d %s N=%d: compute_full shape %s, documented %s' % (S, style, N, b.shape, want.shape)}
                d = float(np.abs(b - want).max()) if b.size else 0.0
                if d > 1e-7 * max(1.0, float(np.abs(want).max()) if want.size else 1.0) and d > worst[0]:
                    worst = (d, (S, N, 'compute_full vs definition'))
    return {'reproduced': worst[0] > 1e-8, 'detail': 'max |chunked-full| over real neighbourhood = %.3g at %s' % worst}


def conformance_c01(tier, seed):
    """the abstraction F_i = circular FIR: check on real computers that irfft(rfft(buf)*filt) equals the circular
    FIR of the clamped filter (the one fact the SI encoding assumes about the FFT chain), and that the hand-built
    instance geometry (frame_length, y_blocks, translation) matches the real constructor's."""
    import numpy as np
    n = 0
    for style in ('causal', 'centered'):
        for S in (2, 3, 5):
            c = real_si(S, None, style)
            D, M = c._dft_size, c._max_support
            assert c._frame_length == M + c._frame_shift - 1, 'frame_length invariant'
            assert c._y_buf.shape[0] == -(-(D - M + 2 * c._frame_shift) // c._frame_shift), 'y_blocks invariant'
            if style == 'centered':
                assert c._translation == M // 2, 'translation invariant'
            rng = np.random.RandomState(seed + S)
            buf = rng.randn(D)
            for fi, filt in enumerate(c._filts):
                h = np.fft.ifft(filt) if not c._real else np.fft.irfft(filt, n=D)
                y = c._compute_idft(c._compute_dft(buf) * filt)
                ref = np.array([sum(h[m] * buf[(k - m) % D] for m in range(M)) for k in range(D)])
                assert np.allclose(y, ref, atol=1e-9), 'circular FIR abstraction'
                assert np.allclose(h[M:], 0, atol=1e-12), 'filter clamped to max_support'
            n += 1
    return n
