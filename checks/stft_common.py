"""Shared symbolic harness for ShortTimeFourierTransformFrameComputer (C01, C02, C04, C14)."""
import z3

from vlib import loader
from vlib.symex import (SArr, SInt, SBool, Ctx, _z, conc, decide, slen, smax, smin, srange, Unsupported)

I = z3.IntSort()
R = z3.RealSort()
x = z3.Function('x', I, R)  # the signal


class Rec:
    """stands in for the coeffs matrix: rows are tokens; shape is kept for the frame-count obligations"""

    def __init__(self, n, ncoef, dtype=None):
        self.n = n
        self.ncoef = ncoef
        self.dtype = dtype

    @property
    def shape(self):
        return (self.n, self.ncoef)

    def __getitem__(self, k):
        return ('row', k)

    def _slen(self):
        return self.n


class NP:
    """numpy stand-in for compute_chunk / finalize / compute_full (index semantics only)"""
    float64 = 'f8'
    float32 = 'f4'

    @staticmethod
    def empty(shape, dtype=None):
        if isinstance(shape, tuple):
            if len(shape) == 2:
                return Rec(shape[0], shape[1], dtype)
            shape = shape[0]
        J = z3.Function('uninit', I, R)
        return SArr(shape, lambda i: J(i), dtype)

    zeros = empty

    @staticmethod
    def concatenate(arrs, axis=0):
        if all(isinstance(a, Rec) for a in arrs):
            n = 0
            for a in arrs:
                n = n + a.n
            return Rec(conc(n), arrs[0].ncoef, arrs[0].dtype)
        out = arrs[0]
        for b in arrs[1:]:
            a = out
            an = _z(a.n)
            ag = a.snapshot()
            bg = b.snapshot()
            out = SArr(conc(SInt(z3.simplify(an + _z(b.n)))),
                       (lambda an, ag, bg: lambda i: z3.If(i < an, ag(i), bg(i - an)))(an, ag, bg), a.dtype)
        return out

    @staticmethod
    def pad(a, pw, mode='constant', **kw):
        if mode != 'symmetric':
            raise Unsupported('np.pad mode %r' % (mode,))
        l, r = pw
        n = a.n
        if isinstance(n, SInt):
            n = n.__index__()  # fork on the (small) length: NumPy's repeated reflection has period 2n
        lz, rz = _z(l), _z(r)
        if not decide(z3.And(lz >= 0, rz >= 0)):
            raise ValueError("index can't contain negative values")
        if n == 0:
            ok = SBool(z3.And(lz == 0, rz == 0))
            if not ok:
                raise ValueError("can't extend empty axis 0 using modes other than 'constant' or 'empty'")
            return SArr(0, a.snapshot(), a.dtype)
        g = a.snapshot()

        def get(i):
            p = i - lz
            q = p % (2 * n)
            q = z3.If(q >= n, 2 * n - 1 - q, q)
            return g(q)
        return SArr(conc(SInt(z3.simplify(lz + n + rz))), get, a.dtype)


def std_subs():
    return {'np': NP, 'range': srange, 'len': slen, 'max': smax, 'min': smin}


def load_compute(extra=None):
    subs = std_subs()
    if extra:
        subs.update(extra)
    return loader.load_unit('compute', subs, name='compute_under_test')


class _Bank:
    def __init__(self, nf=1):
        self.num_filts = nf


def mk_stft(ns, L, S, style, kaldi, junk_tag='', rec_frames=True):
    """Hand-built instance (drive the unit, not the program): fields as the real constructor leaves them;
    the buffer holds uninterpreted junk so that any read of stale contents shows up in the result terms."""
    cls = ns['ShortTimeFourierTransformFrameComputer']
    o = cls.__new__(cls)
    o._frame_length = L
    o._frame_shift = S
    o._frame_style = style
    o._kaldi_shift = kaldi
    o._started = False
    o._first_frame = True
    o._buf_len = 0
    o._chunk_dtype = 'f8'
    junk = z3.Function('junk' + junk_tag, I, R)
    o._buf = SArr(L, lambda i: junk(i))
    o._include_energy = False
    o._bank = _Bank(1)
    frames = []

    def cf(frame, row):
        n = frame.n
        ok = SInt(_z(n)) == L
        assert ok, 'frame length != frame_length'
        frames.append([Ctx.cur.simp(frame.get(z3.IntVal(j))) for j in range(L)])
    if rec_frames:
        o._compute_frame = cf
    import copy
    from vlib import loader as _loader
    for k, v in _loader.literal_init_fields('compute', 'ShortTimeFourierTransformFrameComputer').items():
        if k not in o.__dict__:
            o.__dict__[k] = copy.deepcopy(v)       # literal-initialised state the hand-built instance does not know about
    return o, frames


def sig(off, n, readonly=True, fn=None):
    f = x if fn is None else fn
    offz = _z(off)
    return SArr(conc(n) if isinstance(n, SInt) else n, lambda i: f(offz + i), 'f8', readonly=readonly)


def pad_left(L, S, style, kaldi):
    if style == 'causal':
        return 0
    return L // 2 - S // 2 if kaldi else (L + 1) // 2 - 1


def first_len(L, S, style, kaldi):
    if style == 'causal':
        return L
    return (L + 1) // 2 + S // 2 if kaldi else L // 2 + 1


def ext_spec(N, pl):
    """symmetric extension of x[0:N] (NumPy 'symmetric': period 2N), shifted by pad_left; N python int"""
    def e(i):
        p = i - pl
        q = p % (2 * N)
        return x(z3.If(q >= N, 2 * N - 1 - q, q))
    return e


def real_stft(L, S, style, kaldi, window='hamming', rate=1000, **kw):
    """real computer from the working tree (replay / conformance); frame lengths in samples at 1 kHz"""
    from pydrobert.speech.compute import STFTFrameComputer
    from pydrobert.speech.filters import TriangularOverlappingFilterBank
    bank = TriangularOverlappingFilterBank('mel', num_filts=3, sampling_rate=rate, low_hz=20)
    return STFTFrameComputer(bank, frame_length_ms=L, frame_shift_ms=S, frame_style=style, kaldi_shift=kaldi,
                             pad_to_nearest_power_of_two=False, window_function=window, **kw)
