from typing import Dict, Mapping, Any
import pydrobert.speech.scales as sc, pydrobert.speech.filters as fl, pydrobert.speech.compute as cp, pydrobert.speech.pre as pr, pydrobert.speech.post as po
from pydrobert.speech.alias import AliasedFactory, alias_factory_subclass_from_arg

class Probe(AliasedFactory):
    aliases = set()
    def __init__(self, **kw): self.kw = kw
class A(Probe):
    aliases = {"a", "shared"}
class B(Probe):
    aliases = {"b", "shared"}
class A2(A):
    aliases = {"a2", "a"}

def oracle(alias):
    # last registered (definition order) class having alias, searching subclasses depth-first newest first
    order = [A2, A, B]  # placeholder
    return None

def resolve(alias: str) -> str:
    """
    pre: len(alias) <= 7
    post: _ in ("A","B","A2","ERR")
    post: implies(alias == "shared", _ == "B")
    post: implies(alias == "a", _ == "A2")
    post: implies(alias not in ("a","b","a2","shared"), _ == "ERR")
    """
    try:
        return type(Probe.from_alias(alias)).__name__
    except ValueError:
        return "ERR"

def nomod(d: Dict[str, int]) -> bool:
    """
    pre: len(d) <= 3
    pre: "alias" in d or "name" in d
    post: _
    """
    before = dict(d)
    try:
        alias_factory_subclass_from_arg(Probe, d)
    except (ValueError, TypeError):
        pass
    return d == before
