from pydrobert.speech.scales import BarkScaling, LinearScaling

def bark_roundtrip(f: float) -> float:
    """
    pre: 0.0 <= f <= 100000.0
    post: abs(_ - f) <= 1e-6 * (1 + f)
    """
    s = BarkScaling()
    return s.scale_to_hertz(s.hertz_to_scale(f))

def bark_mono(f: float, g: float) -> bool:
    """
    pre: 0.0 <= f < g <= 100000.0
    post: _
    """
    s = BarkScaling()
    return s.hertz_to_scale(f) < s.hertz_to_scale(g)
