import z3, time
def h2s(h):
    bark = 26.81*h/(1960+h) - 0.53
    return z3.If(bark < 2, bark + 0.15*(2-bark), z3.If(bark > 20.1, bark+0.22*(bark-20.1), bark))
def s2h(s):
    bark = z3.If(s < 2, (20*s-6)/17, z3.If(s > 20.1, (50*s+221.1)/61, s))
    return 1960*(bark+0.53)/(26.28-bark)
f,g = z3.Reals('f g')
for name, neg in [
  ("roundtrip", z3.And(f>=0, f<=100000, s2h(h2s(f)) != f)),
  ("mono", z3.And(0<=f, f<g, g<=100000, h2s(f) >= h2s(g))),
]:
    s = z3.Solver(); s.set(timeout=60000); s.add(neg); t=time.time(); r=s.check(); print(name, r, round(time.time()-t,2)); 
    if str(r)=='sat': print(s.model())
