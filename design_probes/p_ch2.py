import io
from pydrobert.speech.util import _infer_force_as_from_rfilename
from pydrobert.speech._sphere import read_header, c99_div

def infer(name: str) -> str:
    """
    pre: len(name) <= 6
    post: implies(name.endswith(".npy"), _ == "npy")
    post: implies(name.endswith(".sph"), _ == "sph")
    post: implies(name.endswith(".wav"), _ == "wav")
    post: implies(_ == "ERR", not name.endswith(".pt"))
    """
    try:
        return _infer_force_as_from_rfilename(name)
    except IOError:
        return "ERR"

def hdr(b: bytes) -> int:
    """
    pre: len(b) <= 12
    post: _ == 0
    """
    try:
        read_header(io.BytesIO(b), IOError("bad"))
    except IOError:
        return 0
    return 1

def cdiv(a: int, b: int) -> int:
    """
    pre: -2**31 <= a < 2**31 and 1 <= b <= 4096
    post: _ * b <= abs(a) < (_ + 1) * b
    """
    return abs(c99_div(a, b))
