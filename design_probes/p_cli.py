"""Probe: run compute_feats_from_kaldi_tables body from source with stubbed environment."""
import sys, types, z3, builtins, time
from symex import *
from symex import _z, decide
SRC = '/repo/src/pydrobert/speech/command_line.py'
A = z3.DeclareSort('Arr'); R = z3.RealSort(); I = z3.IntSort()
CHAN = z3.Function('chan', A, I, A); PRE = z3.Function('pre', I, A, A); CF = z3.Function('compute_full', A, A)
POST = z3.Function('post', I, A, A); F32 = z3.Function('f32', A, A); F64 = z3.Function('f64', A, A)

class SReal:
    def __init__(s, z): s.z = z
    def __lt__(s, o): return SBool(s.z < (o.z if isinstance(o, SReal) else o))
    def __ne__(s, o): return SBool(s.z != (o.z if isinstance(o, SReal) else o))
    def __eq__(s, o): return SBool(s.z == (o.z if isinstance(o, SReal) else o))
    def __format__(s, f): return '<real>'
    def __hash__(s): return 0
class Buf:      # (channels, samples) array term
    def __init__(s, t, nchan): s.t = t; s.shape = (nchan, 'S')
    def __getitem__(s, c): return Vec(CHAN(s.t, _z(c)))
class Vec:
    def __init__(s, t): s.t = t
    def astype(s, dt, copy=True): return Vec(F64(s.t) if dt == 'f64' else F32(s.t))
class Pre:
    def __init__(s, i): s.i = i
    def apply(s, v, in_place=False): return Vec(PRE(s.i, v.t))
class Post:
    def __init__(s, i): s.i = i
    def apply(s, v, axis=-1, in_place=False): return Vec(POST(s.i, v.t))
class Bank:
    def __init__(s, rate): s.sampling_rate = rate
class Comp:
    def __init__(s, rate): s.bank = Bank(rate)
    def compute_full(s, v): return Vec(CF(v.t))
class Log:
    def __getattr__(s, n): return lambda *a, **k: None

def load(stubs):
    # fake third-party modules
    def mod(name, **kw):
        m = types.ModuleType(name); m.__dict__.update(kw); sys.modules[name] = m; return m
    ident = lambda f: f
    mod('pydrobert.kaldi'); mod('pydrobert.kaldi.logging', kaldi_vlog_level_cmd_decorator=ident, kaldi_logger_decorator=ident, register_logger_for_kaldi=lambda l: None)
    class KDT:
        class BaseMatrix: is_double = False
    mod('pydrobert.kaldi.io', open=stubs['kaldi_open']); mod('pydrobert.kaldi.io.enums', KaldiDataType=KDT)
    mod('pydrobert.kaldi.io.argparse', KaldiParser=None)
    sys.modules['torch'] = None   # ImportError path for the torch block
    src = open(SRC).read()
    ns = {'__name__': 'pydrobert.speech._cl_under_test', '__package__': 'pydrobert.speech'}
    exec(compile(src, SRC, 'exec'), ns)
    class NPx: float64 = 'f64'; float32 = 'f32'; random = types.SimpleNamespace(seed=lambda s: None)
    ns.update(np=NPx, logging=types.SimpleNamespace(getLogger=lambda n: Log(), StreamHandler=lambda: None))
    ns['_compute_feats_from_kaldi_tables_parse_args'] = stubs['parse']
    ns['alias_factory_subclass_from_arg'] = stubs['factory']
    return ns

def run(nutt, npre, npost, nchan):
    viol = []; npaths = 0; t0 = time.time()
    state = {}
    def kaldi_open(spec, dtype, mode='r', **kw):
        if mode == 'w':
            class Wr:
                def write(s, k, v): state['written'].append((k, v))
                def close(s): pass
            return Wr()
        class Rd:
            def items(s): return state['utts']
            def close(s): pass
        return Rd()
    def parse(args, logger):
        return types.SimpleNamespace(seed=None, computer_config={'c': 1}, preprocess=[('pre', i) for i in range(npre)],
            postprocess=[('post', i) for i in range(npost)], wav_rspecifier='r', feats_wspecifier='w',
            min_duration=state['mind'], channel=state['channel'])
    def factory(cls, arg):
        if isinstance(arg, dict): return Comp(state['rate'])
        return Pre(arg[1]) if arg[0] == 'pre' else Post(arg[1])
    ns = load(dict(kaldi_open=kaldi_open, parse=parse, factory=factory))
    def body():
        c = Ctx.cur
        state['written'] = []
        state['rate'] = SReal(z3.Real('rate')); state['mind'] = SReal(z3.Real('mind')); ch = z3.Int('channel'); state['channel'] = SInt(ch)
        c.solver.add(ch >= -1)
        utts = []
        for u in range(nutt):
            utts.append(('utt%d' % u, (Buf(z3.Const('buf%d' % u, A), nchan), SReal(z3.Real('sf%d' % u)), SReal(z3.Real('dur%d' % u)))))
        state['utts'] = utts
        try:
            rc = ns['compute_feats_from_kaldi_tables'](['x'])
        except Exception as e:
            return ('exc', type(e).__name__, str(e))
        # spec
        for (uid, (buf, sf, dur)) in utts:
            excluded = z3.Or(dur.z < state['mind'].z, sf.z != state['rate'].z, ch >= nchan)
            got = [v for k, v in state['written'] if k == uid]
            if decide(excluded):
                if got: return ('wrote-excluded', uid)
                continue
            if len(got) != 1: return ('missing', uid)
            cc = z3.If(ch == -1, 0, ch)
            t = F64(CHAN(buf.t, cc))
            for i in range(npre): t = PRE(z3.IntVal(i), t)
            t = CF(t)
            for i in range(npost): t = POST(z3.IntVal(i), t)
            t = F32(t)
            if decide(got[0].t != t): return ('value', uid, got[0].t)
        return ('ok',)
    for ctx, res in explore(body):
        npaths += 1
        if res is None or res[0] == 'ok': continue
        ctx.solver.check(); viol.append((res, str(ctx.solver.model())[:160]))
    return npaths, viol[:4], round(time.time() - t0, 1)
if __name__ == '__main__':
    print(run(*map(int, sys.argv[1:5])))
