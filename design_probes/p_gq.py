import z3, time
def zf(y):
    num = (((4.53642210148e-5*y + 0.0204231210245)*y + 0.342242088547)*y + 1)*y + 0.322232431088
    den = (((0.0038560700634*y + 0.10353775285)*y + 0.531103462366)*y + 0.588581570495)*y + 0.099348462606
    return y - num/den
y1,y2 = z3.Reals('y1 y2')
import math
ymin = math.sqrt(-2*math.log(0.5)); ymax = math.sqrt(-2*math.log(1e-20))
for solver in ['default','nlsat']:
    s = z3.SolverFor('QF_NRA') if solver=='nlsat' else z3.Solver()
    s.set(timeout=60000)
    s.add(y1 >= z3.RealVal(str(ymin)), y2 <= z3.RealVal(str(ymax)), y1 < y2, zf(y1) >= zf(y2))
    t=time.time(); print(solver, s.check(), round(time.time()-t,2))
# continuity at p=0.5: z(ymin) ~ 0 ?
print(ymin - ((((4.53642210148e-5*ymin + 0.0204231210245)*ymin + 0.342242088547)*ymin + 1)*ymin + 0.322232431088)/((((0.0038560700634*ymin + 0.10353775285)*ymin + 0.531103462366)*ymin + 0.588581570495)*ymin + 0.099348462606))
