"""Probe C05-S3: gammatone constructor constants in the log domain (SReal proxies, LRA)."""
import z3, math, sys, types, builtins, time
SRC = '/repo/src/pydrobert/speech/filters.py'
R = z3.RealSort()
EXP = z3.Function('EXP', R, R); LOGF = z3.Function('LOG', R, R); POW = z3.Function('POW', R, R, R)
def rz(v):
    if isinstance(v, SR): return v.z
    if isinstance(v, (int, float)): 
        from fractions import Fraction
        f = Fraction(v); return z3.RealVal(str(f))
    return v
class SR:
    def __init__(s, z, logof=None): s.z = z
    def __add__(s, o): return SR(s.z + rz(o))
    __radd__ = __add__
    def __sub__(s, o): return SR(s.z - rz(o))
    def __rsub__(s, o): return SR(rz(o) - s.z)
    def __mul__(s, o): return SR(s.z * rz(o))
    __rmul__ = __mul__
    def __truediv__(s, o): return SR(s.z / rz(o))
    def __rtruediv__(s, o): return SR(rz(o) / s.z)
    def __neg__(s): return SR(-s.z)
    def __pow__(s, p): return SR(POW(s.z, rz(p)))
    def __lt__(s, o): return False      # sign tests on supports: not under test here
    def __gt__(s, o): return False
    def __le__(s, o): return False
class NPx:
    pi = math.pi
    @staticmethod
    def log(v):
        if isinstance(v, SR): return SR(LOGF(z3.simplify(v.z)))
        return math.log(v)
    @staticmethod
    def exp(v):
        if isinstance(v, SR): return SR(EXP(z3.simplify(v.z)))
        return math.exp(v)
    sqrt = staticmethod(lambda v: math.sqrt(v))
src = open(SRC).read(); ns = {'__name__': 'filters_under_test'}
exec(compile(src, SRC, 'exec'), ns)
ns['np'] = NPx
G = ns['ComplexGammatoneFilterBank']
G._calculate_temp_support = lambda self, idx: (0, 1)      # Newton search stubbed (C07 handles it via its post-condition)
class Scale:   # uninterpreted monotone bijection: identity on symbolic edges suffices for constants
    def hertz_to_scale(s, h): return h
    def scale_to_hertz(s, v): return v
ns['ScalingFunction'] = Scale
ns['alias_factory_subclass_from_arg'] = lambda cls, a: a
# hertz_to_angular of the (symbolic) edge spacing -> free positive real bw (rad); its log is a free real
bwlog = z3.Real('log_bw')
def h2a(h, rate):
    if isinstance(h, SR): return SR(z3.Real('bw_rad'))
    return h * 2 * math.pi / rate
ns['hertz_to_angular'] = h2a
_log = NPx.log
def log2(v):
    if isinstance(v, SR) and z3.eq(v.z, z3.Real('bw_rad')): return SR(bwlog)
    return _log(v)
NPx.log = staticmethod(log2)
def check(order, erb, l2):
    lo = SR(z3.Real('low')); hi = SR(z3.Real('high'))
    b = G(Scale(), num_filts=1, high_hz=hi, low_hz=0, sampling_rate=16000, order=order, erb=erb, scale_l2_norm=l2)
    alpha = b._alphas[0]; c = b._cs[0]
    # alpha = EXP(log_alpha), c = EXP(log_c): pull the arguments out
    la = alpha.z.arg(0); lc = c.z.arg(0)
    n = order; lf = math.log(math.factorial(n - 1)); ldf = math.log(math.factorial(2 * n - 2)); l2_ = math.log(2); lpi = math.log(math.pi)
    obl = {}
    if erb:   # ERB = alpha*pi*(2n-2)!/((n-1)!^2 2^(2n-2)) == bw
        obl['erb'] = la + lpi + ldf - 2 * lf - (2 * n - 2) * l2_ - bwlog
    else:     # 3dB: (alpha^2/(alpha^2+d^2))^n = 1/2 at d = bw/2  <=>  log alpha = log bw - log 2 - 0.5 log(2^(1/n)-1)
        obl['3dB'] = la - (bwlog - l2_ - 0.5 * math.log(2 ** (1 / n) - 1))
    if l2: obl['l2norm'] = 2 * lc + ldf - (2 * n - 1) * (la + l2_)      # c^2 (2n-2)!/(2 alpha)^(2n-1) = 1
    else:  obl['peak1'] = lc + lf - n * la                                # c (n-1)!/alpha^n = 1
    out = {}
    for k, e in obl.items():
        s = z3.Solver(); tol = z3.RealVal('1/1000000000')
        s.add(bwlog >= -10, bwlog <= 2, z3.Or(e > tol, e < -tol)); r = str(s.check())
        out[k] = r if r == 'unsat' else (r, str(s.model()[bwlog]), str(z3.simplify(e)))
    return out
t0 = time.time()
for order in (1, 2, 4, 6):
    for erb in (False, True):
        for l2 in (False, True):
            print(order, erb, l2, check(order, erb, l2))
print(round(time.time() - t0, 2))
