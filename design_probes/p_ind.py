import sys, time, z3
from symex import *
from symex import _z, decide
import p_stft
from p_stft import NS, x, sig

def padl(L, S, style, kaldi):
    if style == 'causal': return 0
    return L // 2 - S // 2 if kaldi else (L + 1) // 2 - 1
def fl1(L, S, style, kaldi):
    if style == 'causal': return L
    return (L + 1) // 2 + S // 2 if kaldi else L // 2 + 1

def state(L, S, style, kaldi, tag):
    """arbitrary state satisfying Inv(T); returns (obj, frames, T, F)"""
    c = Ctx.cur
    pl = padl(L, S, style, kaldi)
    T = z3.Int('T' + tag); F = z3.Int('F' + tag); first = z3.Bool('first' + tag)
    o, frames = p_stft.mk(L, S, style, kaldi)
    ext = lambda i: x(z3.If(i < pl, pl - 1 - i, i - pl))
    junk = z3.Function('junk' + tag, z3.IntSort(), z3.RealSort())
    bl = z3.Int('bl' + tag)
    c.solver.add(T >= 0, F >= 0)
    # first-frame phase: no frame yet (centered: T < fl1 ; causal: T < L)
    c.solver.add(z3.Implies(first, z3.And(F == 0, T < fl1(L, S, style, kaldi), bl == T)))
    c.solver.add(z3.Implies(z3.Not(first), z3.And(F >= 1, bl == pl + T - F * S, bl >= L - S, bl < L, bl >= 0)))
    if style == 'causal':
        # _first_frame is cleared by the first computed frame
        pass
    isfirst = decide(first)
    o._first_frame = isfirst
    o._started = True
    o._buf_len = SInt(bl)
    if isfirst:
        o._buf = SArr(L, lambda i: z3.If(i >= L - bl, x(i - (L - bl)), junk(i)))
    else:
        o._buf = SArr(L, lambda i: z3.If(i >= L - bl, ext(F * S + i - (L - bl)), junk(i)))
    return o, frames, T, F, bl, ext, pl

def step(L, S, style, kaldi, CMAX):
    viol = []; n = 0; t0 = time.time()
    def body():
        c = Ctx.cur
        o, frames, T, F, bl, ext, pl = state(L, S, style, kaldi, '')
        cl = z3.Int('c'); c.solver.add(cl >= 0, cl <= CMAX)
        o.compute_chunk(sig(T, SInt(cl)))
        T2 = T + cl
        avail = pl + T2 - L
        F2 = z3.If(z3.And(T2 >= fl1(L, S, style, kaldi), avail >= 0), avail / S + 1, 0)
        m = len(frames)
        bad = [F2 - F != m]
        for i, fr in enumerate(frames):
            for j in range(L): bad.append(fr[j] != ext((F + i) * S + j))
        # post-state invariant
        nbl = _z(o._buf_len)
        bad.append(z3.If(F2 == 0, nbl != T2, nbl != pl + T2 - F2 * S))
        if style != 'causal': bad.append((F2 == 0) != z3.BoolVal(bool(o._first_frame)))
        k = z3.Int('k'); c.solver.add(k >= 0, k < L)
        cell = o._buf.get(k)
        want = z3.If(F2 == 0, x(k - (L - nbl)), ext(F2 * S + k - (L - nbl)))
        bad.append(z3.And(k >= L - nbl, cell != want))
        return bad
    for ctx, bad in explore(body):
        n += 1
        if bad is None: continue
        ctx.solver.push(); ctx.solver.add(z3.Or(bad)); r = str(ctx.solver.check())
        if r != 'unsat':
            m = ctx.solver.model(); viol.append((r, {str(d): m[d] for d in m.decls() if d.arity() == 0}))
        ctx.solver.pop()
    return n, viol[:3], round(time.time() - t0, 1)

if __name__ == '__main__':
    L, S, CMAX = map(int, sys.argv[1:4]); style = sys.argv[4]; kaldi = sys.argv[5] == '1'
    print(step(L, S, style, kaldi, CMAX))
