import numpy as np, z3, itertools, time, sys
from pydrobert.speech.post import Stack, Deltas, Standardize

class Sym(np.ndarray):
    """object ndarray of z3 Real terms with a logical dtype"""
    ldtype = np.dtype('f8')
    def __array_finalize__(self, obj): self.ldtype = getattr(obj, 'ldtype', np.dtype('f8'))
    def astype(self, dt, copy=True, **kw):
        r = self.copy() if copy else self
        r = r.view(Sym); r.ldtype = np.dtype(dt); return r
    def __array_function__(self, func, types, args, kwargs):
        if func is np.pad:
            r = func(np.ndarray.view(args[0], np.ndarray), *args[1:], **kwargs); return r.view(Sym)
        if func is np.correlate:
            a, v, mode = args[0], args[1], (args[2] if len(args) > 2 else kwargs.get('mode', 'valid'))
            assert mode == 'full'
            n, m = len(a), len(v); out = np.empty(n + m - 1, dtype=object)
            ao = np.ndarray.view(a, np.ndarray)
            for k in range(n + m - 1):
                # numpy.correlate(a, v, 'full')[k] = sum_j a[j] * v[j - k + m - 1]
                s = z3.RealVal(0)
                for j in range(n):
                    i = j - k + m - 1
                    if 0 <= i < m: s = s + ao[j] * z3.RealVal(repr(float(v[i])))
                out[k] = s
            return out.view(Sym)
        if func is np.empty_like or func is np.empty:
            pass
        return super().__array_function__(func, types, args, kwargs)

def sym(shape, name='x'):
    a = np.empty(shape, dtype=object)
    for idx in np.ndindex(*shape): a[idx] = z3.Real('%s_%s' % (name, '_'.join(map(str, idx))))
    return a.view(Sym)

# np.empty(shape, dtype=features.dtype) in Deltas.apply uses the logical dtype -> float array; assignment of z3 terms fails.
# so patch np.empty inside post module to give object arrays
import pydrobert.speech.post as P
class NPproxy:
    def __getattr__(s, n): return getattr(np, n)
    @staticmethod
    def empty(shape, dtype=None): return np.empty(shape, dtype=object).view(Sym)
P.np = NPproxy()

def eq_all(a, b):
    s = z3.Solver()
    assert a.shape == b.shape, (a.shape, b.shape)
    bad = [x != y for x, y in zip(np.ndarray.view(a, np.ndarray).ravel(), np.ndarray.view(b, np.ndarray).ravel())]
    if not bad: return 'unsat'
    s.add(z3.Or(bad)); return str(s.check())

def eq_tol(a, b, xs, tol='1/1000000000'):
    s = z3.Solver()
    for v in xs.ravel(): s.add(v >= -1, v <= 1)
    bad = [z3.Or(x - y > z3.RealVal(tol), y - x > z3.RealVal(tol)) for x, y in zip(np.ndarray.view(a, np.ndarray).ravel(), np.ndarray.view(b, np.ndarray).ravel())]
    s.add(z3.Or(bad)); return str(s.check())
t0 = time.time(); n = 0; res = {}
# Stack: 2-D path vs N-D path vs spec
for T, F, V, pad in itertools.product(range(0, 6), range(1, 4), range(1, 4), (None, 'edge')):
    if T == 0 and pad: continue
    x = sym((T, F))
    st = Stack(V, time_axis=0, pad_mode=pad)
    y2 = st.apply(x, axis=1)
    y3 = st.apply(x[None].view(Sym), axis=2) if False else Stack(V, time_axis=1, pad_mode=pad).apply(x[None], axis=2)[0]
    # spec
    Tp = T + ((-T) % V if pad else 0); nT = Tp // V
    spec = np.empty((nT, F * V), dtype=object)
    for t in range(nT):
        for f in range(F * V):
            src = t * V + f // F
            spec[t, f] = np.ndarray.view(x, np.ndarray)[min(src, T - 1), f % F]
    r = (eq_all(y2, spec.view(Sym)), eq_all(y3, spec.view(Sym))); res[r] = res.get(r, 0) + 1; n += 1
    # input untouched?
print('stack', n, res, round(time.time() - t0, 1))
# Deltas vs kaldi recursion spec, axis 0 of 2-D and axis 1 of 3-D
t0 = time.time(); res = {}
for T, W, ND_ in itertools.product(range(1, 6), (1, 2), (1, 2)):
    x = sym((2, T, 2))
    d = Deltas(ND_, target_axis=-1, context_window=W)
    y = d.apply(x, axis=1)
    xo = np.ndarray.view(x, np.ndarray)
    parts = [xo]
    from fractions import Fraction
    Z = sum(t * t for t in range(-W, W + 1))
    base = [Fraction(t, Z) for t in range(-W, W + 1)]
    sc = [Fraction(1)]
    for k in range(1, ND_ + 1):
        new = [Fraction(0)] * (len(sc) + 2 * W)
        for a_, va in enumerate(sc):
            for b_, vb in enumerate(base): new[a_ + b_] += va * vb
        sc = new
        nxt = np.empty(xo.shape, dtype=object)
        for a in range(2):
            for t in range(T):
                for b in range(2):
                    nxt[a, t, b] = sum((z3.RealVal(str(sc[j + k * W])) * xo[a, min(max(t + j, 0), T - 1), b] for j in range(-k * W, k * W + 1)), z3.RealVal(0))
        parts.append(nxt)
    spec = np.concatenate(parts, -1)
    r = eq_tol(y, spec.view(Sym), xo); res[r] = res.get(r, 0) + 1
print('deltas', res, round(time.time() - t0, 1))
