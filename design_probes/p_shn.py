"""Probe: shorten decoder on encoder-shaped symbolic bit streams (BV)."""
import sys, time, z3, builtins, os
from symex import Ctx, explore, decide, srange, smax, smin, SInt, _z
import nd
from nd import ND
SRC = os.environ.get('SRC', '/repo/src/pydrobert/speech/_sphere.py')
NUMPY_MASK = os.environ.get('NUMPY_MASK', '0') == '1'   # model masktab as np.uint32 scalars (current code under NumPy>=2)
WID = 64
def bv(v):
    if isinstance(v, SBV): return v.z
    if isinstance(v, bool): v = int(v)
    if isinstance(v, int): return z3.BitVecVal(v, WID)
    if z3.is_bv(v): return v
    raise TypeError(type(v))
def mk(z):
    z = z3.simplify(z)
    if z3.is_bv_value(z): return z.as_signed_long()
    return SBV(z)
class NpU32:
    def __init__(s, v): s.v = v
    def __rand__(s, o):
        if isinstance(o, int):
            if not (0 <= o < (1 << 32)): raise OverflowError('Python integer %d out of bounds for uint32' % o)
            return o & s.v
        return NotImplemented
class SBV:
    def __init__(s, z): s.z = z3.simplify(z)
    def _wrap(s, z): return mk(z)
    def __and__(s, o):
        if isinstance(o, NpU32):
            ok = z3.And(s.z >= 0, s.z < (1 << 32))
            if not decide(ok): raise OverflowError('Python integer out of bounds for uint32')
            return mk(s.z & bv(o.v))
        return mk(s.z & bv(o))
    __rand__ = __and__
    def __or__(s, o): return mk(s.z | bv(o))
    __ror__ = __or__
    def __lshift__(s, k): return mk(s.z << bv(k))
    def __rshift__(s, k): return mk(s.z >> bv(k))    # arithmetic (python semantics)
    def __invert__(s): return mk(~s.z)
    def __add__(s, o): return mk(s.z + bv(o))
    __radd__ = __add__
    def __sub__(s, o): return mk(s.z - bv(o))
    def __rsub__(s, o): return mk(bv(o) - s.z)
    def __mul__(s, o): return mk(s.z * bv(o))
    __rmul__ = __mul__
    def __neg__(s): return mk(-s.z)
    def __bool__(s): return decide(s.z != 0)
    def __eq__(s, o): return decide(s.z == bv(o))
    def __ge__(s, o): return decide(s.z >= bv(o))
    def __index__(s):
        z = z3.simplify(s.z)
        assert z3.is_bv_value(z), 'symbolic index'
        return z.as_signed_long()
class FloatTok:
    def __init__(s, a): s.a = a
    def __truediv__(s, b): return DivTok(s.a, b)
class DivTok:
    def __init__(s, a, b): s.a = a; s.b = b
def sfloat(a):
    if isinstance(a, (SBV,)) or z3.is_bv(a): return FloatTok(a)
    return builtins.float(a)
def sint(a):
    if isinstance(a, DivTok):
        # trunc toward zero == bvsdiv; exactness of the double division is a stated lemma
        return mk(bv(a.a) / bv(a.b))
    if isinstance(a, SBV): return a
    return builtins.int(a)

class SymBytes:
    def __init__(s, bs): s.bs = list(bs)     # python ints or BV8 exprs
    def __len__(s): return len(s.bs)
    def __getitem__(s, k):
        assert isinstance(k, slice); return SymBytes(s.bs[k])
    def tobytes(s): return s
    def __add__(s, o): return SymBytes(s.bs + (o.bs if isinstance(o, SymBytes) else list(o)))
    def __eq__(s, o): return all(isinstance(b, int) for b in s.bs) and bytes(s.bs) == o
class Struct:
    @staticmethod
    def unpack(fmt, b):
        if fmt == 'b': return (b.bs[0],)
        assert fmt == '>l' and len(b.bs) == 4
        w = z3.Concat(*[x if z3.is_bv(x) else z3.BitVecVal(x, 8) for x in b.bs])
        return (mk(z3.SignExt(WID - 32, w)),)
class File:
    def read(s, n): return SymBytes([])

class BitWriter:
    def __init__(s): s.bits = []
    def put(s, val, n):
        """n-bit field, msb first; val int or BV(n)"""
        for k in range(n - 1, -1, -1):
            s.bits.append(((val >> k) & 1) if isinstance(val, int) else z3.Extract(k, k, val))
    def uvar(s, v, nbin):          # concrete v
        for _ in range(v >> nbin): s.bits.append(0)
        s.bits.append(1); s.put(v & ((1 << nbin) - 1), nbin)
    def uvar_sym(s, field, nbin):  # symbolic value < 2**nbin: prefix '1' + nbin bits
        s.bits.append(1); s.put(field, nbin)
    def ulong(s, v):
        nbit = v.bit_length(); s.uvar(nbit, 2); s.uvar(v, nbit)
    def tobytes(s, pad_words=2):
        bits = list(s.bits)
        while len(bits) % 32: bits.append(0)
        bits += [0] * (32 * pad_words)
        out = []
        for i in range(0, len(bits), 8):
            grp = bits[i:i + 8]
            if all(isinstance(b, int) for b in grp):
                out.append(int(''.join(map(str, grp)), 2))
            else:
                out.append(z3.simplify(z3.Concat(*[b if z3.is_bv(b) else z3.BitVecVal(b, 1) for b in grp])))
        return out

class NPs:
    uint32 = 'u4'; int32 = 'i4'
    @staticmethod
    def empty(n, dtype=None):
        if dtype == 'u4':      # masktab
            return MaskTab(n)
        return ND.fresh((n,) if not isinstance(n, tuple) else n, lambda idx: z3.BitVecVal(0, WID), dtype)
    @staticmethod
    def zeros(shape, dtype=None): return NDB(shape)
    @staticmethod
    def full(shape, v, dtype=None): return NDB(shape, v)
class MaskTab(list):
    def __init__(s, n): super().__init__([0] * n)
    def __getitem__(s, k):
        v = list.__getitem__(s, k)
        return NpU32(v) if NUMPY_MASK else v
class NDB(ND):
    """int32 array of BV64 terms; scalar reads come back as SBV"""
    def __init__(s, shape, v=0, store=None, axes=None):
        if store is None:
            vz = bv(v)
            ND.__init__(s, nd.Store(shape, lambda idx: vz), dtype='i4')
        else:
            ND.__init__(s, store, axes, 'i4')
    def __getitem__(s, key):
        v = s._view(key)
        if v.ndim == 0: return mk(v.get())
        return NDB(None, store=v.store, axes=v.axes)
    def __setitem__(s, key, val):
        if isinstance(val, SBV): val = val.z
        elif isinstance(val, int): val = bv(val)
        ND.__setitem__(s, key, val)
    def sum(s):
        n = s.shape[0]; assert isinstance(n, int)
        g = s.snapshot(); r = z3.BitVecVal(0, WID)
        for i in range(n): r = r + g((z3.IntVal(i),))
        return mk(r)
    def __isub__(s, o):
        g = s.snapshot(); oz = bv(o)
        s[(slice(None),) * s.ndim] = NDB._mk(s.shape, lambda idx: g(idx) - oz); return s
    def __iadd__(s, o):
        g = s.snapshot(); oz = bv(o)
        s[(slice(None),) * s.ndim] = NDB._mk(s.shape, lambda idx: g(idx) + oz); return s
    def __ilshift__(s, k):
        g = s.snapshot(); kz = bv(k)
        s[(slice(None),) * s.ndim] = NDB._mk(s.shape, lambda idx: g(idx) << kz); return s
    @staticmethod
    def _mk(shape, get):
        r = NDB(shape); r.store.get = get; return r
    @property
    def T(s):
        g = s.snapshot(); a, b = s.shape
        return NDB._mk((b, a), lambda idx: g((idx[1], idx[0])))
    @property
    def flat(s):
        g = s.snapshot(); a, b = s.shape
        return NDB._mk((a * b,), lambda idx: g((idx[0] / b, idx[0] % b)))
    @property
    def dtype(s):
        class D: itemsize = 2
        return D
    @dtype.setter
    def dtype(s, v): pass

def load():
    src = open(SRC).read()
    ns = {'__name__': 'sphere_under_test'}
    exec(compile(src, SRC, 'exec'), ns)
    ns.update(np=NPs, struct=Struct, memoryview=lambda x: x, float=sfloat, int=sint, max=builtins.max, range=builtins.range)
    return ns

def zz(u):   # spec: zig-zag decode of a BV64 holding an unsigned code
    return z3.If(u & 1 == 1, ~(z3.LShR(u, 1)), z3.LShR(u, 1))

def run(cmd, resn, blocksize, nmean, version=2):
    ns = load(); viol = []; npaths = 0; t0 = time.time(); tq = 0
    FN = {'diff0': 0, 'diff1': 1, 'diff2': 2, 'diff3': 3}
    def body():
        w = BitWriter()
        for v in (3, 1, blocksize, 0, nmean, 0): w.ulong(v)     # ftype=S16HL nchan=1 blocksize maxnlpc nmean nskip
        fields = []
        for blk in range(2):
            w.uvar(FN[cmd], 2); w.uvar(resn, 3)
            for i in range(blocksize):
                f = z3.BitVec('u_%d_%d' % (blk, i), resn + 1); fields.append(f); w.uvar_sym(f, resn + 1)
        w.uvar(4, 2)   # QUIT
        inp = SymBytes([ord('a'), ord('j'), ord('k'), ord('g'), version] + w.tobytes())
        data = NDB((2 * blocksize,))
        try:
            done = ns['copy_shortened_samples'](inp, File(), data, IOError('bad'))
        except OverflowError as e:
            return ('overflow', str(e))
        # independent reference decoder (spec) on the same residual codes
        res = [zz(z3.ZeroExt(WID - (resn + 1), f)) for f in fields]
        hist = [z3.BitVecVal(0, WID)] * 3; means = [z3.BitVecVal(0, WID)] * max(1, nmean); out = []
        for blk in range(2):
            if nmean:
                sm = z3.BitVecVal(nmean // 2 if version >= 2 else 0, WID)
                for m in means[:nmean]: sm = sm + m
                coff = sm / nmean     # signed bv division truncates toward zero
            else: coff = z3.BitVecVal(0, WID)
            cur = []
            for i in range(blocksize):
                h = hist + cur
                r = res[blk * blocksize + i]
                if cmd == 'diff0': s = r + coff
                elif cmd == 'diff1': s = r + h[-1]
                elif cmd == 'diff2': s = r + 2 * h[-1] - h[-2]
                else: s = r + 3 * (h[-1] - h[-2]) + h[-3]
                cur.append(s)
            if nmean:
                sm = z3.BitVecVal(blocksize // 2 if version >= 2 else 0, WID)
                for s in cur: sm = sm + s
                means = means[1:nmean] + [sm / blocksize]
            hist = (hist + cur)[-3:]; out += cur
        bad = [z3.simplify(data.get(z3.IntVal(i))) != z3.simplify(out[i]) for i in range(2 * blocksize)]
        return ('cmp', done, bad)
    for ctx, res in explore(body):
        npaths += 1
        if res is None: continue
        if res[0] == 'overflow':
            viol.append(res); continue
        _, done, bad = res
        if done != 2 * blocksize: viol.append(('done', done)); continue
        s = ctx.solver; t1 = time.time()
        s.push(); s.add(z3.Or(bad)); r = str(s.check())
        if r == 'sat': viol.append(('value', str(s.model())[:200]))
        elif r != 'unsat': viol.append(('unknown',))
        s.pop(); tq += time.time() - t1
    return npaths, len(viol), viol[:3], round(time.time() - t0, 1), round(tq, 1)

if __name__ == '__main__':
    print(run(sys.argv[1], int(sys.argv[2]), int(sys.argv[3]), int(sys.argv[4])))
