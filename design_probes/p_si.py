import sys, time, z3, builtins, itertools
from symex import *
from symex import _z
from nd import *
from symex import decide

import os
SRC = os.environ.get('SRC', '/repo/src/pydrobert/speech/compute.py')
R = z3.RealSort(); I = z3.IntSort()
x = z3.Function('x', I, R)
W = z3.Function('w', I, I, R)

class Tok:
    def __init__(s, kind, **kw): s.kind = kind; s.__dict__.update(kw); s.dtype = kw.get('dtype', 'c16')

def make_np(S, M, D, ncoef):
    F = z3.Function('F', I, *([R] * M), R)   # FIR of length M, filter index first
    ABS = z3.Function('ABS', R, R)
    LOG = z3.Function('LOG', R, R); MAXF = z3.Function('MAXF', R, R)
    class FFT:
        @staticmethod
        def rfft(buf, n=None):
            g = buf.snapshot(); ln = zi(buf.shape[0])
            return Tok('spec', get=lambda i: g((i,)) if decide(z3.And(i >= 0, i < ln)) else z3.RealVal(0), dtype='c16' if buf.dtype == 'f8' else 'c8')
        fft = rfft
        @staticmethod
        def irfft(tok, n=None):
            assert tok.kind == 'conv'
            g = tok.get; fi = tok.filt
            def get(idx):
                nn = idx[0]
                return F(fi, *[g((nn - m) % D) for m in range(M)])
            return ND.fresh((D,), get)
        @staticmethod
        def ifft(tok): return FFT.irfft(tok)
    class NP:
        float64 = 'f8'; complex128 = 'c16'; floating = 'floating'
        fft = FFT
        @staticmethod
        def empty(shape, dtype=None):
            if not isinstance(shape, tuple): shape = (shape,)
            J = z3.Function('junk%d' % len(shape), *([I] * len(shape)), R)
            return ND.fresh(shape, lambda idx: J(*idx), dtype)
        @staticmethod
        def zeros(shape, dtype=None):
            if not isinstance(shape, tuple): shape = (shape,)
            return ND.fresh(shape, lambda idx: z3.RealVal(0), dtype)
        @staticmethod
        def issubdtype(a, b): return a in ('f8', 'f4')
        @staticmethod
        def abs(a):
            g = a.snapshot(); return ND.fresh(a.shape, lambda idx: ABS(g(idx)), a.dtype)
        @staticmethod
        def sum(a, axis=None):
            assert axis == 1
            return nd_sum_axis1(a, S)
        @staticmethod
        def log(a):
            g = a.snapshot(); return ND.fresh(a.shape, lambda idx: LOG(g(idx)), a.dtype)
        @staticmethod
        def maximum(a, v):
            g = a.snapshot(); return ND.fresh(a.shape, lambda idx: MAXF(g(idx)), a.dtype)
        @staticmethod
        def concatenate(arrs):
            a, b = arrs
            an = zi(a.shape[0]); ag = a.snapshot(); bg = b.snapshot()
            nc = a.shape[1]
            return ND.fresh((conc(SInt(an + zi(b.shape[0]))), nc), lambda idx: ag(idx) if decide(idx[0] < an) else bg((idx[0] - an, idx[1])))
    return NP

class FiltTok:
    def __init__(s, i): s.i = i
class SpecMul:
    pass
def tok_mul(self, o):
    assert self.kind == 'spec' and isinstance(o, FiltTok)
    return Tok('conv', get=self.get, filt=z3.IntVal(o.i))
Tok.__mul__ = tok_mul

def slen(a):
    if isinstance(a, ND): return a.shape[0]
    return builtins.len(a)

def scount(start):
    i = start
    while True:
        yield i
        i = i + 1

def load(NP):
    src = open(SRC).read()
    ns = {'__name__': 'compute_under_test'}
    exec(compile(src, SRC, 'exec'), ns)
    ns.update(np=NP, range=srange, len=slen, max=smax, min=smin, count=scount)
    class Cfg: USE_FFTPACK = False; LOG_FLOOR_VALUE = 1e-5
    ns['config'] = Cfg
    return ns

def mk(ns, S, M, D, style, ncoef, power, log):
    cls = ns['ShortIntegrationFrameComputer']
    o = cls.__new__(cls)
    NP = ns['np']
    o._rate = 1000; o._frame_shift = S; o._log = log; o._power = power; o._real = True
    o._ret_dtype = 'f8'; o._x_rem = o._y_rem = o._skip = 0; o._started = False
    o._frame_style = style
    o._window = ND.fresh((2, S), lambda idx: W(idx[0], idx[1]))
    o._max_support = M
    o._translation = M // 2 if style == 'centered' else 1   # causal: arbitrary translation (here 1)
    o._frame_length = M + S - 1
    o._dft_size = D
    o._x_buf = NP.empty(D, 'f8')
    o._filts = [FiltTok(i) for i in range(ncoef)]
    yb = -(-(D - M + 2 * S) // S)
    o._y_buf = NP.empty((yb, 2, ncoef), 'f8')
    class B: num_filts = ncoef
    o._bank = B(); o._include_energy = False
    return o

def sig(off, n):
    return ND.fresh((n,), lambda idx: x(_z(off) + idx[0]), 'f8')

def rows(a, k):
    """first k rows of 2-D result as list of lists of terms"""
    return a

def run(S, M, D, style, K, NMAX, power=True, log=False, ncoef=1):
    NP = make_np(S, M, D, ncoef); ns = load(NP)
    viol = []; npaths = 0; t0 = time.time(); tsolve = 0
    def body():
        c = Ctx.cur
        N = z3.Int('N'); cs = [z3.Int('c%d' % i) for i in range(K)]
        c.inputs = [N] + cs
        c.solver.add(N >= 0, N <= NMAX, *[ci >= 0 for ci in cs], z3.Sum(cs) == N)
        o = mk(ns, S, M, D, style, ncoef, power, log)
        outs = []; off = z3.IntVal(0)
        for ci in cs:
            outs.append(o.compute_chunk(sig(off, conc(SInt(ci))))); off = off + ci
        outs.append(o.finalize())
        o2 = mk(ns, S, M, D, style, ncoef, power, log)
        full = o2.compute_full(sig(z3.IntVal(0), conc(SInt(N))))
        rows_c = []
        for a in outs:
            n = a.shape[0]; n = n.__index__() if isinstance(n, SInt) else n
            for r in range(n): rows_c.append(z3.simplify(a.get(z3.IntVal(r), z3.IntVal(0))))
        nf = full.shape[0]; nf = nf.__index__() if isinstance(nf, SInt) else nf
        rows_f = [z3.simplify(full.get(z3.IntVal(r), z3.IntVal(0))) for r in range(nf)]
        return rows_c, rows_f
    for ctx, res in explore(body):
        npaths += 1
        if res is None: continue
        rc, rf = res
        s = ctx.solver; t1 = time.time()
        if len(rc) != len(rf):
            s.check(); viol.append(('count', len(rc), len(rf), str(s.model()))); continue
        if rc:
            s.push(); s.add(z3.Or([a != b for a, b in zip(rc, rf)]))
            r = str(s.check())
            if r == 'sat': viol.append(('value', str(s.model())[:200]))
            elif r != 'unsat': viol.append(('unknown',))
            s.pop()
        tsolve += time.time() - t1
    return npaths, viol, round(time.time() - t0, 1), round(tsolve, 1)

if __name__ == '__main__':
    S, M, D, K, NMAX = map(int, sys.argv[1:6]); style = sys.argv[6]
    n, v, t, ts = run(S, M, D, style, K, NMAX)
    print('paths', n, 'viol', len(v), 'time', t, 'solve', ts)
    for q in v[:8]: print(q)
