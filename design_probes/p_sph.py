import sys, time, z3, builtins, os
from symex import *
from symex import _z, decide
from nd import *
SRC = os.environ.get('SRC', '/repo/src/pydrobert/speech/_sphere.py')
I = z3.IntSort(); R = z3.RealSort()
BYTE = z3.Function('filebyte', I, I)      # data section byte at offset
SAMP = z3.Function('samp', I, I, I)       # (byte offset, sampsize) -> decoded raw sample
TAB = z3.Function('tab', I, I, I)

class DT:
    def __init__(s, name, itemsize): s.name = name; s.itemsize = itemsize
    def newbyteorder(s, o): return s
    def __eq__(s, o): return isinstance(o, DT) and o.name == s.name
    def __hash__(s): return hash(s.name)
class Buf:
    """bytes returned by file.read: offset into data section, symbolic length"""
    def __init__(s, off, n): s.off = off; s.n = n
    def __getitem__(s, k):
        assert isinstance(k, slice) and k.start is None
        return Buf(s.off, smin(s.n, k.stop))
    def __eq__(s, o):
        # comparison with b"ajkg": declare not shortened (assumption)
        return False
class File:
    def __init__(s, total): s.pos = z3.IntVal(0); s.total = total
    def read(s, n):
        k = smin(SInt(s.total - s.pos), n); k = smax(k, 0)
        b = Buf(s.pos, conc(k)); s.pos = z3.simplify(s.pos + _z(k)); return b
def slen(a):
    if isinstance(a, Buf): return a.n
    if isinstance(a, ND): return a.shape[0]
    return builtins.len(a)
class Table:
    def __init__(s, tid): s.tid = tid
    def __getitem__(s, arr):
        g = arr.snapshot(); t = s.tid
        return ND.fresh(arr.shape, lambda idx: TAB(t, g(idx)), 'i2')
class NP:
    uint8 = DT('u1', 1); int16 = DT('i2', 2); int32 = DT('i4', 4)
    @staticmethod
    def dtype(d): return d
    @staticmethod
    def empty(n, dtype=None):
        J = z3.Function('uninit', I, I)
        return ND.fresh((conc(n) if isinstance(n, SInt) else n,), lambda idx: J(idx[0]), dtype)
    @staticmethod
    def frombuffer(buf, dtype=None, count=-1):
        off = buf.off; sz = dtype.itemsize
        # numpy raises if buffer smaller than requested
        ok = SInt(_z(count) * sz) <= SInt(_z(buf.n))
        if not ok: raise ValueError('buffer is smaller than requested size')
        return ND.fresh((conc(count) if isinstance(count, SInt) else count,), lambda idx: SAMP(off + idx[0] * sz, z3.IntVal(sz)), dtype)
class W:
    log = []
    @staticmethod
    def warn(msg): W.log.append(msg)

def load():
    src = open(SRC).read()
    ns = {'__name__': 'sphere_under_test'}
    exec(compile(src, SRC, 'exec'), ns)
    ns.update(np=NP, len=slen, max=smax, min=smin, range=srange, warnings=W)
    ns['ALAW2PCM'] = Table(0); ns['ULAW2PCM'] = Table(1)
    return ns

def run(chan, sampsize, samptype, maxbytes):
    ns = load(); viol = []; npaths = 0; t0 = time.time()
    def body():
        c = Ctx.cur
        sc = z3.Int('sampcount'); present = z3.Int('present_bytes')
        c.inputs = [sc, present]
        c.solver.add(sc >= 1, sc * chan * sampsize <= maxbytes, present >= 0, present <= sc * chan * sampsize)
        W.log = []
        f = File(present)
        hdr = (samptype, sampsize, SInt(sc), 8000, chan, '10')
        try:
            data = ns['copy_samples'](f, hdr, None, IOError('x'))
        except Exception as e:
            return ('exc', repr(e), sc, present)
        # spec: frames actually present
        nfr = present / (chan * sampsize)       # z3 int division
        want_len = z3.If(nfr < sc, nfr, sc)
        shape = data.shape
        got_len = _z(shape[0])
        if not decide(got_len == (want_len if chan > 1 else want_len)):
            return ('len', sc, present, z3.simplify(got_len))
        if chan > 1:
            if not decide(_z(shape[1]) == chan): return ('shape', sc, present)
        # exists element wrong?
        i = z3.Int('i'); ch = z3.Int('ch')
        c.solver.add(i >= 0, i < want_len, ch >= 0, ch < chan)
        if not decide(want_len > 0): return ('ok-empty',)
        val = data.get(i, ch) if chan > 1 else data.get(i)
        raw = SAMP((i * chan + ch) * sampsize, z3.IntVal(sampsize))
        want = raw if samptype == 'pcm' else TAB(z3.IntVal(0 if samptype == 'alaw' else 1), raw)
        if decide(val != want): return ('value', sc, present, i, ch)
        return ('ok',)
    for ctx, res in explore(body):
        npaths += 1
        if res is None or res[0].startswith('ok'): continue
        ctx.solver.check(); m = ctx.solver.model()
        viol.append((res[0],) + tuple(str(m.eval(v)) if isinstance(v, z3.ExprRef) else v for v in res[1:]))
    return npaths, viol, round(time.time() - t0, 1)
if __name__ == '__main__':
    chan, ss = int(sys.argv[1]), int(sys.argv[2])
    n, v, t = run(chan, ss, sys.argv[3], int(sys.argv[4]))
    print('paths', n, 'viol', len(v), 'time', t)
    for q in v[:10]: print(q)
