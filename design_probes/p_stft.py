import sys, time, z3, types, builtins
from symex import *

import os
SRC = os.environ.get('SRC', '/repo/src/pydrobert/speech/compute.py')

class Rec:
    """stands in for the coeffs matrix; rows are tokens"""
    def __init__(self, n, ncoef): self.n = n; self.ncoef = ncoef
    def __getitem__(self, k): return ('row', k)

class NP:
    float64 = 'f8'
    @staticmethod
    def empty(shape, dtype=None):
        if isinstance(shape, tuple): return Rec(*shape)
        return SArr(shape, lambda i: z3.RealVal(0), dtype)
    zeros = empty
    @staticmethod
    def concatenate(arrs):
        a, b = arrs
        an = _z(a.n); ag = a.get; bg = b.get
        return SArr(SInt(z3.simplify(an + _z(b.n))), lambda i: z3.If(i < an, ag(i), bg(i - an)))
    @staticmethod
    def pad(a, pw, mode, **kw):
        assert mode == 'symmetric'
        l, r = pw
        n = a.n
        if isinstance(n, SInt): n = n.__index__()   # fork on the (small) length
        if n == 0:
            ok = (SInt(_z(l)) == 0) & (SInt(_z(r)) == 0)
            if not ok: raise ValueError("can't extend empty axis 0 using modes other than 'constant' or 'empty'")
            return SArr(0, a.get)
        lz = _z(l); g = a.get
        def get(i):
            p = i - lz
            q = p % (2 * n)
            q = z3.If(q >= n, 2 * n - 1 - q, q)
            return g(q)
        return SArr(SInt(z3.simplify(lz + n + _z(r))), get)

from symex import _z

def load():
    src = open(SRC).read()
    ns = {'__name__': 'compute_under_test'}
    exec(compile(src, SRC, 'exec'), ns)
    ns['np'] = NP; ns['range'] = srange; ns['len'] = slen; ns['max'] = smax; ns['min'] = smin
    return ns

NS = load()
x = z3.Function('x', z3.IntSort(), z3.RealSort())

def mk(L, S, style, kaldi):
    cls = NS['ShortTimeFourierTransformFrameComputer']
    o = cls.__new__(cls)
    o._frame_length = L; o._frame_shift = S; o._frame_style = style; o._kaldi_shift = kaldi
    o._started = False; o._first_frame = True; o._buf_len = 0; o._chunk_dtype = 'f8'
    junk = z3.Function('junk', z3.IntSort(), z3.RealSort())
    o._buf = SArr(L, lambda i: junk(i))
    o._include_energy = False
    class B: num_filts = 1
    o._bank = B()
    frames = []
    def cf(frame, row):
        n = frame.n
        ok = SInt(_z(n)) == L
        assert ok, 'frame length'
        frames.append([z3.simplify(frame.get(z3.IntVal(j))) for j in range(L)])
    o._compute_frame = cf
    return o, frames

class Sig:
    def __init__(self, off, n): self.arr = SArr(n, lambda i: x(_z(off) + i));
def sig(off, n):
    a = SArr(n, lambda i: x(_z(off) + i)); a.dtype = 'f8'; return a

def run(L, S, style, kaldi, K, NMAX):
    viol = []; npaths = 0; t0 = time.time()
    def body():
        c = Ctx.cur
        N = z3.Int('N'); cs = [z3.Int('c%d' % i) for i in range(K)]
        c.solver.add(N >= 0, N <= NMAX, *[ci >= 0 for ci in cs], z3.Sum(cs) == N)
        o, fr1 = mk(L, S, style, kaldi)
        off = z3.IntVal(0)
        for ci in cs:
            o.compute_chunk(sig(off, SInt(ci)))
            off = off + ci
        o.finalize()
        o2, fr2 = mk(L, S, style, kaldi)
        o2.compute_full(sig(z3.IntVal(0), SInt(N)))
        return fr1, fr2
    for ctx, res in explore(body):
        npaths += 1
        if res is None: continue
        fr1, fr2 = res
        if len(fr1) != len(fr2):
            ctx.solver.check(); m = ctx.solver.model(); viol.append(('count', len(fr1), len(fr2), str(m))); continue
        bad = z3.Or([a != b for f1, f2 in zip(fr1, fr2) for a, b in zip(f1, f2)]) if fr1 else z3.BoolVal(False)
        ctx.solver.push(); ctx.solver.add(bad)
        if str(ctx.solver.check()) == 'sat':
            m = ctx.solver.model(); viol.append(('value', {str(d): m[d] for d in m.decls() if d.name() in ('N','c0','c1','c2')}))
        ctx.solver.pop()
    return npaths, viol, time.time() - t0

if __name__ == '__main__':
    L, S, K, NMAX = map(int, sys.argv[1:5]); style = sys.argv[5]; kaldi = sys.argv[6] == '1'
    n, v, t = run(L, S, style, kaldi, K, NMAX)
    print('paths', n, 'viol', len(v), 'time', round(t, 1))
    for q in v[:8]: print(q)
