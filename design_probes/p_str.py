import z3, time, sys, builtins
from symex import Ctx, explore, SBool, decide
SRC='/repo/src/pydrobert/speech/util.py'
S = z3.StringSort()
class SStr:
    def __init__(s, z): s.z = z
    def endswith(s, suf): return SBool(z3.SuffixOf(z3.StringVal(suf), s.z))
    def rsplit(s, sep, maxsplit=-1):
        assert maxsplit == 1
        idx = z3.LastIndexOf(s.z, z3.StringVal(sep))
        last = z3.If(idx < 0, s.z, z3.SubString(s.z, idx + 1, z3.Length(s.z)))
        return [None, SStr(last)]
    def __eq__(s, o): return SBool(s.z == (o.z if isinstance(o, SStr) else z3.StringVal(o)))
    def __hash__(s): return 0
    def __format__(s, f): return '<str>'
class SymSet:
    def __init__(s, items): s.items = sorted(items)
    def __contains__(s, x):
        if isinstance(x, SStr): return bool(SBool(z3.Or([x.z == z3.StringVal(i) for i in s.items])))
        return x in s.items
def smatch(pat, s):
    assert pat == r"^(ark|scp)(,\w+)*:"
    w = z3.Union(z3.Range('a','z'), z3.Range('A','Z'), z3.Range('0','9'), z3.Re('_'))
    r = z3.Concat(z3.Union(z3.Re('ark'), z3.Re('scp')), z3.Star(z3.Concat(z3.Re(','), z3.Plus(w))), z3.Re(':'), z3.Full(z3.ReSort(S)))
    return SBool(z3.InRe(s.z, r))
src = open(SRC).read(); ns = {'__name__': 'util_under_test'}
exec(compile(src, SRC, 'exec'), ns)
import types
ns['match'] = smatch; ns['config'] = types.SimpleNamespace(SOUNDFILE_SUPPORTED_FILE_TYPES=SymSet({'wav','flac','ogg','aiff'}))
t0=time.time(); out=[]
def body():
    name = z3.String('name'); Ctx.cur.solver.add(z3.Length(name) <= 12)
    try: r = ns['_infer_force_as_from_rfilename'](SStr(name))
    except IOError: r = 'ERR'
    return r, name
for ctx, res in explore(body):
    if res is None: continue
    r, name = res
    ctx.solver.check(); m = ctx.solver.model()
    # spec check example: result 'ERR' implies no recognised suffix
    rz = r.z if isinstance(r, SStr) else z3.StringVal(r)
    spec_bad = z3.And(z3.SuffixOf(z3.StringVal('.npy'), name), z3.Not(z3.InRe(name, z3.Concat(z3.Union(z3.Re('ark'), z3.Re('scp')), z3.Full(z3.ReSort(S))))), rz != z3.StringVal('npy'))
    ctx.solver.push(); ctx.solver.add(spec_bad); v = str(ctx.solver.check()); ctx.solver.pop()
    out.append((str(m.eval(rz)), m[name], v))
print(round(time.time()-t0,1)); [print(o) for o in out]
