"""Probe C06-S1: triangular truncated vs full response placement, symbolic vertices (ceil/floor via ToInt)."""
import z3, sys, time, builtins, math
from symex import *
from symex import _z, decide
from nd import ND, conc, zi
from fractions import Fraction
SRC = '/repo/src/pydrobert/speech/filters.py'
def rz(v):
    if isinstance(v, SR): return v.z
    if isinstance(v, SInt): return z3.ToReal(v.z)
    if isinstance(v, bool): v = int(v)
    if isinstance(v, (int, float)): return z3.RealVal(str(Fraction(v)))
    if isinstance(v, z3.ExprRef): return z3.ToReal(v) if z3.is_int(v) else v
    raise TypeError(type(v))
class SR:
    def __init__(s, z): s.z = z
    def __add__(s, o): return SR(s.z + rz(o))
    __radd__ = __add__
    def __sub__(s, o): return SR(s.z - rz(o))
    def __rsub__(s, o): return SR(rz(o) - s.z)
    def __mul__(s, o): return SR(s.z * rz(o))
    __rmul__ = __mul__
    def __truediv__(s, o): return SR(s.z / rz(o))
    def __rtruediv__(s, o): return SR(rz(o) / s.z)
    def __le__(s, o): return SBool(s.z <= rz(o))
    def __lt__(s, o): return SBool(s.z < rz(o))
    def __ge__(s, o): return SBool(s.z >= rz(o))
    def __gt__(s, o): return SBool(s.z > rz(o))
for n_ in ('__mul__', '__rmul__', '__truediv__'):
    pass
# SInt * SR etc.
_oldmul = SInt.__mul__
def _imul(s, o):
    if isinstance(o, SR): return SR(z3.ToReal(s.z) * o.z)
    return _oldmul(s, o)
SInt.__mul__ = _imul; SInt.__rmul__ = _imul
SInt.__truediv__ = lambda s, o: SR(z3.ToReal(s.z) / rz(o))
class Ceil:
    def __init__(s, z): s.z = z      # integer-valued z3 Int
def sint(v):
    if isinstance(v, Ceil): return SInt(v.z)
    if isinstance(v, SR): return SInt(z3.If(v.z >= 0, z3.ToInt(v.z), -z3.ToInt(-v.z)))
    return builtins.int(v)
class NPx:
    float64 = 'f8'
    @staticmethod
    def ceil(v): return Ceil(-z3.ToInt(-v.z))
    @staticmethod
    def zeros(n, dtype=None):
        return ND.fresh((conc(n) if isinstance(n, SInt) else n,), lambda idx: z3.RealVal(0), dtype)
_set = ND.__setitem__
def _set2(self, key, val):
    if isinstance(val, SR): val = val.z
    _set(self, key, val)
ND.__setitem__ = _set2
def slen(a): return a.shape[0] if isinstance(a, ND) else builtins.len(a)
src = open(SRC).read(); ns = {'__name__': 'filters_under_test'}
exec(compile(src, SRC, 'exec'), ns)
ns.update(np=NPx, int=sint, range=srange, min=smin, max=smax, len=slen)
T = ns['TriangularOverlappingFilterBank']
def run(width, rate=8000, analytic=False):
    n = 0; viol = []; t0 = time.time()
    def body():
        c = Ctx.cur
        l, m, r = z3.Reals('l m r')
        c.solver.add(0 <= l, l < m, m < r, r <= rate / 2, (r - l) * width <= 4 * rate)   # bound: filter spans <= 4 bins
        b = T.__new__(T); b._rate = rate; b._analytic = analytic
        b._vertices = (SR(l), SR(m), SR(r))
        start, tr = b.get_truncated_response(0, width)
        full = b.get_frequency_response(0, width)
        half = b.get_frequency_response(0, width, half=True)
        k = z3.Int('k'); c.solver.add(k >= 0, k < width)
        sz = _z(start); ln = zi(tr.shape[0])
        bad = []
        if not decide(z3.And(sz >= 0, sz < width)): return ('start-range',)
        if not analytic and not decide(sz + ln <= width // 2 + 1): return ('beyond-half',)
        # rebuilt full response by the documented recipe for real filters
        inside = z3.And(k >= sz, k < sz + ln)
        mirror = z3.And(width - k >= sz, width - k < sz + ln, k != 0)
        if decide(inside): reb = tr.get(k - sz)
        elif (not analytic) and decide(mirror): reb = tr.get(width - k - sz)
        else: reb = z3.RealVal(0)
        if decide(reb != full.get(k)): return ('value', k, sz, ln)
        hl = half.shape[0]
        if hl != (width // 2 + 1 if width % 2 == 0 else (width + 1) // 2): return ('halflen',)
        if decide(z3.And(k < hl, half.get(k) != full.get(k))): return ('half',)
        return ('ok',)
    for ctx, res in explore(body):
        n += 1
        if res is None or res[0] == 'ok': continue
        ctx.solver.check(); m_ = ctx.solver.model(); viol.append((res[0], {str(d): str(m_[d]) for d in m_.decls() if d.arity() == 0}))
    return n, viol[:3], round(time.time() - t0, 1)
if __name__ == '__main__':
    for w in map(int, sys.argv[1:]): print(w, run(w))
