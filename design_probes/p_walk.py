import sys, time, z3
from symex import *
from symex import _z
import p_stft
NS = p_stft.NS

def run(D, real):
    half_len = D // 2 + 1
    class FFT:
        @staticmethod
        def rfft(x, n=None): 
            a = SArr(half_len, lambda i: i); a.dtype = NS_np.complex128; return a
    class NPx(p_stft.NP):
        complex128 = 'c16'
        fft = FFT
        @staticmethod
        def log(v): return v
    global NS_np; NS_np = NPx
    NS['np'] = NPx
    class Cfg: USE_FFTPACK = False; LOG_FLOOR_VALUE = 1e-5
    NS['config'] = Cfg
    viol = []; npaths = 0; t0 = time.time()
    def body():
        c = Ctx.cur
        start, tl = z3.Int('start'), z3.Int('tl')
        if real:
            c.solver.add(start >= 0, tl >= 1, start + tl <= half_len)
        else:
            c.solver.add(start >= 0, start < D, tl >= 1, tl <= D)
        cls = NS['ShortTimeFourierTransformFrameComputer']
        o = cls.__new__(cls)
        o._frame_length = 3; o._dft_size = D; o._log = False; o._power = True; o._real = real
        o._include_energy = False
        class B: num_filts = 1
        o._bank = B()
        o._window = 1
        o._filt_start_idxs = [SInt(start)]
        class TF(SArr): pass
        tf = SArr(SInt(tl), lambda j: j)
        o._truncated_filts = [tf]
        segs = []
        def nl(prod):
            segs.append(prod); return 0
        o._nonlin_op = nl
        class Frame:
            def __mul__(s, w): return s
        class Co:
            def __setitem__(s, k, v): pass
        NS['len'] = lambda a: (a.n if isinstance(a, SArr) else (3 if isinstance(a, Frame) else (1 if isinstance(a, Co) else len(a))))
        o._compute_frame(Frame(), Co())
        return start, tl, segs
    for ctx, res in explore(body):
        npaths += 1
        if res is None: continue
        start, tl, segs = res
        s = ctx.solver
        # spec
        tot = z3.Sum([_z(g.n) for g in segs]) if segs else z3.IntVal(0)
        t = z3.Int('t')
        bad = [tot != tl]
        pref = z3.IntVal(0)
        for g in segs:
            b, tap = g.get(t)
            k = (start + tap) % D
            m = z3.If(k < half_len, k, D - k)
            bad.append(z3.And(t >= 0, t < _z(g.n), z3.Or(tap != pref + t, b != m)))
            pref = pref + _z(g.n)
        s.push(); s.add(z3.Or(bad))
        if str(s.check()) == 'sat':
            m = s.model(); viol.append((m[start], m[tl], len(segs)))
        s.pop()
    return npaths, viol, time.time() - t0
if __name__ == '__main__':
    for D in map(int, sys.argv[2:]):
        print(D, sys.argv[1], run(D, sys.argv[1] == 'real'))
