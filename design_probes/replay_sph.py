import numpy as np, io, sys, warnings
from pydrobert.speech.util import read_signal
def mk(x, chan, order='10', coding='pcm', nbytes=2):
    n = x.shape[0]
    hdr = "NIST_1A\n   1024\nchannel_count -i %d\nsample_count -i %d\nsample_rate -i 8000\nsample_n_bytes -i %d\nsample_byte_format -s2 %s\nsample_coding -s3 %s\nend_head\n" % (chan, n, nbytes, order, coding)
    hdr = hdr.encode().ljust(1024, b' ')
    return hdr + x.astype('>i2' if order=='10' else '<i2').tobytes()
chan, n = int(sys.argv[1]), int(sys.argv[2])
x = np.random.RandomState(1).randint(-3000, 3000, size=(n, chan)).astype(np.int16)
with warnings.catch_warnings(record=True) as w:
    warnings.simplefilter('always')
    y = read_signal(io.BytesIO(mk(x, chan)), force_as='sph')
    print(y.shape, x.shape, [str(a.message) for a in w])
m = min(len(x), len(y)); bad = np.argwhere(x[:m].reshape(m,-1) != y[:m].reshape(m,-1)); print('first bad', bad[:1])
