import numpy as np, sys
from pydrobert.speech.compute import STFTFrameComputer
from pydrobert.speech.filters import TriangularOverlappingFilterBank as T
def mk(L,S,style,kaldi=False):
    bank = T('mel', num_filts=3, sampling_rate=1000, low_hz=20)
    return STFTFrameComputer(bank, frame_length_ms=L, frame_shift_ms=S, frame_style=style, kaldi_shift=kaldi, pad_to_nearest_power_of_two=False, window_function="hamming")
L,S,style,kaldi = int(sys.argv[1]),int(sys.argv[2]),sys.argv[3],sys.argv[4]=='1'
cuts = list(map(int, sys.argv[5:]))
N = sum(cuts); x = np.random.RandomState(0).randn(N)
c = mk(L,S,style,kaldi); print(c.frame_length, c.frame_shift)
out=[]; o=0
for k in cuts: out.append(c.compute_chunk(x[o:o+k])); o+=k
out.append(c.finalize()); a=np.concatenate(out); b=mk(L,S,style,kaldi).compute_full(x)
print(a.shape,b.shape, np.abs(a-b).max() if a.shape==b.shape and a.size else None)
