"""Prototype: fork-by-re-execution symbolic executor with z3 proxies (probe only)."""
import z3, builtins, time

class Abort(BaseException):
    pass

class Ctx:
    cur = None
    def __init__(self):
        self.decisions = []   # list of bools taken along this path
        self.pos = 0
        self.pc = []          # path condition
        self.solver = z3.Solver()
        self.queries = 0
        self.fresh = 0
    def feasible(self, cond):
        self.queries += 1
        self.solver.push(); self.solver.add(cond)
        r = self.solver.check(); self.solver.pop()
        if str(r) == 'unknown':
            raise RuntimeError('unknown')
        return str(r) == 'sat'
    def branch(self, cond):
        cond = z3.simplify(cond)
        if z3.is_true(cond): return True
        if z3.is_false(cond): return False
        if getattr(self, 'pinned', None) is not None:
            v = z3.simplify(z3.substitute(cond, *self.pinned))
            if z3.is_true(v): return True
            if z3.is_false(v): return False
        if self.pos < len(self.decisions):
            d = self.decisions[self.pos]
        else:
            # choose True first if feasible
            t = self.feasible(cond); f = self.feasible(z3.Not(cond))
            if t and f:
                d = True; self.decisions.append(True); self.pending.append(len(self.decisions) - 1)
                self.pos += 1
                self.solver.add(cond); self.pc.append(cond)
                self.try_pin()
                return True
            elif t:
                d = True
            elif f:
                d = False
            else:
                raise Abort()
            self.decisions.append(d)
            self.forced.add(len(self.decisions) - 1)
        self.pos += 1
        c = cond if d else z3.Not(cond)
        self.solver.add(c); self.pc.append(c)
        self.try_pin()
        return d
    def try_pin(self):
        ins = getattr(self, 'inputs', None)
        if not ins or getattr(self, 'pinned', None) is not None or self.pos < len(self.decisions): return
        if str(self.solver.check()) != 'sat': return
        m = self.solver.model()
        vals = [(v, m.eval(v, model_completion=True)) for v in ins]
        self.solver.push(); self.solver.add(z3.Or([v != c for v, c in vals]))
        r = str(self.solver.check()); self.solver.pop()
        if r == 'unsat': self.pinned = vals

def decide(cond):
    """flatten: return python bool for cond, forking only when both outcomes feasible"""
    cond = z3.simplify(cond)
    if z3.is_true(cond): return True
    if z3.is_false(cond): return False
    return Ctx.cur.branch(cond)

def explore(fn, max_paths=100000):
    """run fn() over all feasible paths. fn uses Ctx.cur. yields (ctx, result)"""
    stack = [[]]
    n = 0
    while stack:
        prefix = stack.pop()
        ctx = Ctx(); ctx.decisions = list(prefix); ctx.pending = []; ctx.forced = set()
        Ctx.cur = ctx
        try:
            res = fn()
        except Abort:
            res = None
        # schedule alternatives for newly made free decisions
        for idx in ctx.pending:
            alt = ctx.decisions[:idx] + [False]
            stack.append(alt)
        n += 1
        yield ctx, res
        if n >= max_paths:
            raise RuntimeError('too many paths')

def _z(v):
    if isinstance(v, SInt): return v.z
    if isinstance(v, bool): return z3.IntVal(int(v))
    if isinstance(v, int): return z3.IntVal(v)
    if isinstance(v, z3.ExprRef): return v
    raise TypeError(type(v))

class SBool:
    def __init__(self, z): self.z = z
    def __bool__(self): return Ctx.cur.branch(self.z)
    def __and__(self, o): return SBool(z3.And(self.z, o.z if isinstance(o, SBool) else z3.BoolVal(bool(o))))
    __rand__ = __and__
    def __or__(self, o): return SBool(z3.Or(self.z, o.z if isinstance(o, SBool) else z3.BoolVal(bool(o))))
    __ror__ = __or__
    def __invert__(self): return SBool(z3.Not(self.z))

class SInt:
    def __init__(self, z): self.z = z if not isinstance(z, int) else z3.IntVal(z)
    def __add__(s, o): return SInt(s.z + _z(o))
    __radd__ = __add__
    def __sub__(s, o): return SInt(s.z - _z(o))
    def __rsub__(s, o): return SInt(_z(o) - s.z)
    def __mul__(s, o): return SInt(s.z * _z(o))
    __rmul__ = __mul__
    def __neg__(s): return SInt(-s.z)
    def __floordiv__(s, o):
        assert isinstance(o, int) and o > 0
        return SInt(s.z / o)  # z3 int div floors for positive divisor
    def __mod__(s, o):
        assert isinstance(o, int) and o > 0
        return SInt(s.z % o)
    def __lt__(s, o): return SBool(s.z < _z(o))
    def __le__(s, o): return SBool(s.z <= _z(o))
    def __gt__(s, o): return SBool(s.z > _z(o))
    def __ge__(s, o): return SBool(s.z >= _z(o))
    def __eq__(s, o): return SBool(s.z == _z(o))
    def __ne__(s, o): return SBool(s.z != _z(o))
    def __bool__(s): return Ctx.cur.branch(s.z != 0)
    def __hash__(s): return hash(s.z)
    def __index__(s):
        # concretise by forking on value
        c = Ctx.cur
        m_lo = 0
        for v in range(-64, 4096):
            if c.branch(s.z == v): return v
        raise RuntimeError('concretise range')

def smax(*a):
    if len(a) == 1: a = tuple(a[0])
    r = a[0]
    for b in a[1:]:
        if isinstance(r, SInt) or isinstance(b, SInt):
            r = SInt(z3.If(_z(r) >= _z(b), _z(r), _z(b)))
        else:
            r = builtins.max(r, b)
    return r
def smin(*a):
    if len(a) == 1: a = tuple(a[0])
    r = a[0]
    for b in a[1:]:
        if isinstance(r, SInt) or isinstance(b, SInt):
            r = SInt(z3.If(_z(r) <= _z(b), _z(r), _z(b)))
        else:
            r = builtins.min(r, b)
    return r

def srange(*a):
    if len(a) == 1: lo, hi, st = 0, a[0], 1
    elif len(a) == 2: lo, hi, st = a[0], a[1], 1
    else: lo, hi, st = a
    if not any(isinstance(v, SInt) for v in (lo, hi, st)):
        return builtins.range(lo, hi, st)
    assert isinstance(st, int) and st > 0
    def gen():
        i = lo
        while i < hi:   # forks
            yield i
            i = i + st
    return gen()

class SArr:
    """1-D lazy array: length (int|SInt), get(i: z3 Int expr) -> z3 term"""
    def __init__(self, n, get, dtype='f8'):
        self.n = n; self.get = get; self.dtype = dtype
    def __len__(self):
        raise TypeError('use slen')
    @property
    def shape(self): return (self.n,)
    def _norm(self, sl):
        n = self.n
        assert sl.step in (None, 1), sl.step
        def fix(v, default):
            if v is None: return default
            if isinstance(v, int) and isinstance(n, int):
                if v < 0: v += n
                return builtins.min(builtins.max(v, 0), n)
            vz = _z(v); nz = _z(n)
            vz = z3.If(vz < 0, vz + nz, vz)
            vz = z3.If(vz < 0, 0, z3.If(vz > nz, nz, vz))
            return SInt(z3.simplify(vz))
        a = fix(sl.start, 0); b = fix(sl.stop, n)
        ln = smax(0, b - a)
        if isinstance(ln, SInt): ln = SInt(z3.simplify(ln.z))
        return a, ln
    def __getitem__(self, k):
        if isinstance(k, slice):
            a, ln = self._norm(k)
            az = _z(a); g = self.get
            return SArr(ln, lambda i: g(az + i), self.dtype)
        kz = _z(k); nz = _z(self.n)
        return self.get(z3.If(kz < 0, kz + nz, kz))
    def __setitem__(self, k, v):
        assert isinstance(k, slice)
        a, ln = self._norm(k)
        # shape check
        if isinstance(v, SArr):
            ok = SInt(_z(v.n)) == ln
            if not ok: raise ValueError('could not broadcast')
            vg = v.get
        else:
            vg = lambda i: v
        az = _z(a); lz = _z(ln); old = self.get
        self.get = lambda i: z3.If(z3.And(i >= az, i < az + lz), vg(i - az), old(i))

def slen(a):
    if isinstance(a, SArr): return a.n
    return builtins.len(a)

# ---- extension: negative-step slices for SArr (probe) ----
def _slice_neg(self, sl):
    n = _z(self.n)
    def fix(v, default):
        if v is None: return default
        vz = _z(v)
        vz = z3.If(vz < 0, vz + n, vz)
        return z3.If(vz < 0, z3.IntVal(-1), z3.If(vz >= n, n - 1, vz))
    a = fix(sl.start, n - 1); b = fix(sl.stop, z3.IntVal(-1))
    ln = z3.If(a - b > 0, a - b, 0)
    g = self.get
    return SArr(SInt(z3.simplify(ln)), lambda i: g(a - i), self.dtype)
_old_getitem = SArr.__getitem__
def _getitem(self, k):
    if isinstance(k, slice) and k.step == -1:
        return _slice_neg(self, k)
    return _old_getitem(self, k)
SArr.__getitem__ = _getitem
SArr.conj = lambda self: self
def _mul(self, o):
    ok = SInt(_z(self.n)) == SInt(_z(o.n))
    if not ok: raise ValueError('operands could not be broadcast together')
    ag, bg = self.get, o.get
    return SArr(self.n, lambda i: (ag(i), bg(i)))
SArr.__mul__ = _mul
