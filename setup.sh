#!/bin/bash
# Offline bootstrap of the overlay interpreter /verif/.venv = /venv (repo + numpy + torch) + z3/crosshair/cvc5
# from the pre-installed wheelhouse.  Idempotent; safe under concurrent invocation.
set -e
cd "$(dirname "$0")"
export PIP_NO_INDEX=1 PIP_DISABLE_PIP_VERSION_CHECK=1
exec 9>/verif/.setup.lock
flock 9
if [ -f .venv/.ok ] && .venv/bin/python -c "import z3, crosshair, numpy" 2>/dev/null; then exit 0; fi
rm -rf .venv
/venv/bin/python -m venv .venv
SP=$(.venv/bin/python -c "import sysconfig; print(sysconfig.get_paths()['purelib'])")
echo "import site; site.addsitedir('/venv/lib/python3.12/site-packages')" > "$SP/_overlay_venv.pth"
.venv/bin/pip install -q --no-index --find-links /opt/veriftools/wheels z3-solver crosshair-tool cvc5 jsonschema >/dev/null 2>&1 \
  || .venv/bin/pip install -q --no-index --find-links /opt/veriftools/wheels z3-solver crosshair-tool
.venv/bin/python -c "import z3, crosshair, numpy; import pydrobert.speech"
touch .venv/.ok
