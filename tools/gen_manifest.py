#!/usr/bin/env python3
"""Regenerate MANIFEST.json from the check modules (run with /verif/.venv/bin/python tools/gen_manifest.py)."""
import importlib, json, os, sys
ROOT = os.path.dirname(os.path.dirname(os.path.abspath(__file__)))
sys.path.insert(0, ROOT)
props = [json.loads(l) for l in open(os.path.join(ROOT, 'properties.jsonl'))]
NA = json.load(open(os.path.join(ROOT, 'tools', 'not_applicable.json')))
checks = []
na = []
for p in props:
    pid = p['id']
    path = os.path.join(ROOT, 'checks', pid.lower() + '.py')
    if not os.path.exists(path) or pid in NA:
        na.append({'property_id': pid, 'reason': NA.get(pid, 'check not built yet in this round (see DESIGN.md section 3/%s for the planned encoding)' % pid)})
        continue
    m = importlib.import_module('checks.' + pid.lower())
    checks.append({
        'property_id': pid,
        'quick_cmd': './vcheck %s --tier quick' % pid,
        'thorough_cmd': './vcheck %s --tier thorough' % pid,
        'evidence_file': '/verif/evidence/%s.json' % pid,
        'replay_cmd_template': './vcheck %s --replay {path}' % pid,
        'engine': getattr(m, 'ENGINE', 'pysymex'),
        'level_claimed': {'category': m.LEVEL, 'text': m.EXPLANATION, 'design_ref': 'DESIGN.md section 2 (%s) and checks/%s.py' % (pid, pid.lower())},
        'level_note': '; '.join(getattr(m, 'ASSUMPTIONS', [])) + ' | outside the claim: ' + '; '.join(getattr(m, 'OUTSIDE', [])),
        'technique': getattr(m, 'TECHNIQUE', 'bounded symbolic execution of the real Python source with z3 deciding every branch and the final assertion (counterexamples replayed on the real library)'),
    })
man = {
    'version': 1,
    'setup_cmd': './setup.sh',
    'hooks': {'guard': 'PYDROBERT_SPEECH_VERIF', 'enable': 'no source hooks are needed: the checks exec() /repo source into substituted namespaces at run time; ./vcheck exports PYDROBERT_SPEECH_VERIF=1 for uniformity',
              'baseline_off_cmd': 'cd /repo && /venv/bin/python -m pytest -ra -q -p no:cacheprovider --timeout=900 --continue-on-collection-errors',
              'source_commits': [], 'add_only': True},
    'engines': [
        {'name': 'pysymex', 'path': '/verif/vlib', 'serves_properties': [c['property_id'] for c in checks if c['engine'] == 'pysymex'],
         'kind_free_text': 'purpose-built fork-by-re-execution symbolic executor for Python over z3 proxies (SInt/SReal/SBool, lazy symbolic arrays); executes /repo source text loaded at run time'},
        {'name': 'crosshair', 'path': '/verif/.venv/bin/crosshair', 'serves_properties': [c['property_id'] for c in checks if 'crosshair' in c['engine']],
         'kind_free_text': 'CrossHair 0.0.110 (symbolic execution of Python with z3) for the pure-Python alias module'},
    ],
    'checks': checks,
    'not_applicable': na,
    'notes': 'Exit code 3 = inconclusive (never a verdict). Fix commits in /repo are listed in known_findings.json with status "fixed".',
}
json.dump(man, open(os.path.join(ROOT, 'MANIFEST.json'), 'w'), indent=1)
print('checks:', [c['property_id'] for c in checks], 'n/a:', len(na))
