#!/usr/bin/env python3
"""Regenerate the machine-derived tables of DESIGN.md (between the AUTOGEN markers) from evidence/, seeded/ and
known_findings.json.  Run with /verif/.venv/bin/python tools/gen_tables.py"""
import glob
import importlib
import json
import os
import sys

ROOT = os.path.dirname(os.path.dirname(os.path.abspath(__file__)))
sys.path.insert(0, ROOT)


def table_checks():
    rows = ['| id | level | configurations | paths (states) | obligations discharged | solver queries | quick wall (s) | encoded functions |', '|---|---|---|---|---|---|---|---|']
    for p in sorted(glob.glob(os.path.join(ROOT, 'evidence', 'C*.json'))):
        e = json.load(open(p))
        c = e['coverage']
        rows.append('| %s | %s | %d | %d | %d/%d | %d | %.0f | %d |' % (e['property_id'], e['level'], c.get('configurations', 0), c.get('states', 0), c.get('discharged', 0),
                                                                    c.get('obligations', 0), c.get('solver_queries', 0), e['wall_s'], len(c.get('functions_encoded', []))))
    return '\n'.join(rows)


def table_findings():
    d = json.load(open(os.path.join(ROOT, 'known_findings.json')))
    rows = ['| property | status | /repo commit | what failed (witness) |', '|---|---|---|---|']
    for f in d['findings']:
        what = f['what'].split(' ', 3)[-1] if f['status'] == 'fixed' else f['what']
        rows.append('| %s | %s | %s | %s |' % (f['property'], f['status'], f.get('commit', ''), what.replace('|', '\\|')))
    return '\n'.join(rows)


def table_seeds():
    rows = ['| seeded change | property | what it needs to manifest | outcome of `./vcheck <property>` (quick) | replay on the real library |', '|---|---|---|---|---|']
    for p in sorted(glob.glob(os.path.join(ROOT, 'seeded', '*', 'meta.json'))):
        m = json.load(open(p))
        n = os.path.basename(os.path.dirname(p))
        dets = m.get('detected_by') or []
        if isinstance(dets, dict):
            dets = [dets]
        outcome = '; '.join('%s: %s' % (d_['check'].split()[1], d_['outcome'].split(' (')[0]) for d_ in dets) or 'not run'
        detail = next((d_['replay_detail'] for d_ in dets if d_.get('exit_code') == 1 and d_.get('replay_detail')), '')
        note = os.path.join(os.path.dirname(p), 'note.txt')
        if os.path.exists(note):
            outcome += ' — ' + open(note).read().strip()
        rows.append('| %s | %s | %s | %s | %s |' % (n, m.get('property'), (m.get('needs_to_manifest') or '').replace('\n', ' ').replace('|', '\\|')[:260],
                                                 outcome, detail.replace('|', '\\|')[:200]))
    return '\n'.join(rows)


def main():
    path = os.path.join(ROOT, 'DESIGN.md')
    s = open(path).read()
    for name, fn in (('CHECKS', table_checks), ('FINDINGS', table_findings), ('SEEDS', table_seeds)):
        a, b = '<!-- AUTOGEN:%s -->' % name, '<!-- /AUTOGEN:%s -->' % name
        if a in s and b in s:
            i, j = s.index(a) + len(a), s.index(b)
            s = s[:i] + '\n' + fn() + '\n' + s[j:]
    open(path, 'w').write(s)


if __name__ == '__main__':
    main()
