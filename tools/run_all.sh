#!/bin/bash
# tools/run_all.sh <tier> : run every registered check serially, one summary line each
TIER=${1:-quick}
cd "$(dirname "$0")/.."
for id in ${IDS:-C01 C02 C03 C04 C05 C06 C07 C08 C09 C10 C11 C12 C13 C14 C15 C16 C17 C18 C19 C20}; do
  s=$(date +%s)
  out=$(VERIF_PROGRESS=1 ./vcheck $id --tier $TIER 2>&1 | grep -v "^LOG\|^main\|Warning")
  rc=$?
  echo "== $id exit=$(echo "$out" | grep -c '^VIOLATION')v $(( $(date +%s) - s ))s :: $(echo "$out" | grep -E "^$id tier" )"
  echo "$out" | grep -E "INCONCLUSIVE|^  [a-z].*: (Inconclusive|Unsupported|vacuous|time limit)|KNOWN-FINDING|did not reproduce" | head -5
done
