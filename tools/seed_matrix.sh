#!/bin/bash
# tools/seed_matrix.sh [names...] : run seeded changes against their property's quick check (and any further checks
# listed in seeded/<name>/checks.txt) in scratch worktrees (/repo untouched) and record the outcome in meta.json
cd "$(dirname "$0")/.."
names="$@"; [ -z "$names" ] && names=$(ls seeded)
for n in $names; do
  d=seeded/$n; p0=${n%%-*}
  props=$p0; [ -f $d/checks.txt ] && props=$(cat $d/checks.txt)
  /venv/bin/python - "$d/meta.json" <<'PY'
import json,sys
m=json.load(open(sys.argv[1])); m['detected_by']=[]; json.dump(m,open(sys.argv[1],'w'),indent=1)
PY
  for p in $props; do
    out=$(VERIF_PROCS=${VERIF_PROCS:-8} tools/seed_run.sh $n $p 2>&1 | grep -v "^LOG\|^main")
    rc=$(echo "$out" | sed -n 's/.*exit=\([0-9]*\).*/\1/p' | head -1)
    det=$(echo "$out" | grep -E "^ *replay :" | head -1 | sed 's/^ *replay : //' | cut -c1-300)
    echo "$n vs $p exit=$rc :: $det"
    /venv/bin/python - "$d/meta.json" "$rc" "$det" "$p" <<'PY'
import json,sys
p,rc,det,prop=sys.argv[1:5]
m=json.load(open(p))
m['detected_by'].append({'check':'./vcheck %s --tier quick'%prop,'exit_code':int(rc) if rc.isdigit() else None,
  'outcome':{'1':'VIOLATION reported (counterexample replayed on the real library)','0':'MISSED (check passed)','3':'INCONCLUSIVE (no verdict)'}.get(rc,'?'),'replay_detail':det})
json.dump(m,open(p,'w'),indent=1)
PY
  done
done
