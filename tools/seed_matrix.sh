#!/bin/bash
# run every seeded change against its property's quick check (scratch worktrees; /repo untouched) and record the outcome in meta.json
cd "$(dirname "$0")/.."
for d in seeded/*/; do
  n=$(basename $d); p=${n%%-*}
  out=$(VERIF_PROCS=${VERIF_PROCS:-8} tools/seed_run.sh $n $p 2>&1 | grep -v "^LOG\|^main")
  rc=$(echo "$out" | sed -n 's/.*exit=\([0-9]*\).*/\1/p' | head -1)
  det=$(echo "$out" | grep -E "replay :|detail" | head -1 | sed 's/^ *replay : //' | cut -c1-300)
  echo "$n exit=$rc :: $det"
  /venv/bin/python - "$d/meta.json" "$rc" "$det" "$p" <<'PY'
import json,sys
p,rc,det,prop=sys.argv[1:5]
m=json.load(open(p))
m['detected_by']={'check':'./vcheck %s --tier quick'%prop,'exit_code':int(rc) if rc.isdigit() else None,
  'outcome':{'1':'VIOLATION reported (counterexample replayed on the real library)','0':'MISSED (check passed)','3':'INCONCLUSIVE (no verdict)'}.get(rc,'?'),'replay_detail':det}
json.dump(m,open(p,'w'),indent=1)
PY
done
