#!/bin/bash
# tools/seed_run.sh <seeded-dir-name> [PROP]  -- run the property's quick check against a seeded change in a scratch
# worktree (parallel-safe; /repo untouched).  The official way (git -C /repo apply; ./vcheck; git checkout) is equivalent.
D=$1; P=${2:-${D%%-*}}
WT=/tmp/wt/run-$D-$P
git -C /repo worktree remove --force $WT >/dev/null 2>&1
git -C /repo worktree add --detach $WT HEAD >/dev/null 2>&1
cp /repo/src/pydrobert/speech/_version.py $WT/src/pydrobert/speech/
git -C $WT apply /verif/seeded/$D/patch.diff || { echo "apply failed"; exit 2; }
cd /verif && VERIF_REPO=$WT timeout ${TMO:-3000} ./vcheck $P --tier ${TIER:-quick} > /tmp/wt/run-$D-$P.log 2>&1; rc=$?
echo "$D vs $P: exit=$rc $(grep -c '^VIOLATION' /tmp/wt/run-$D-$P.log) violation lines; $(grep -E '^C[0-9]+ tier' /tmp/wt/run-$D-$P.log)"
grep -E "replay :|detail" /tmp/wt/run-$D-$P.log | head -2
git -C /repo worktree remove --force $WT
exit $rc
