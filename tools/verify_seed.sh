#!/bin/bash
# tools/verify_seed.sh <PROP> <mN> [srcdir]  -- confirm a seeded change in a scratch worktree of /repo HEAD:
#   demo passes on the clean tree, fails on the changed tree, test-suite outcome set unchanged.
# On success copies patch.diff, demo.py, meta.json to /verif/seeded/<PROP>-<mN>/ and appends what was run.
set -u
P=$1; M=$2; SRC=${3:-/tmp/seeds/$P/$M}
WT=/tmp/wt/verify-$P-$M
HEAD=$(git -C /repo rev-parse --short HEAD)
BASE=/tmp/wt/baseline-$HEAD.txt
run_suite() { (cd $1 && PYTHONPATH=$1/src /venv/bin/python -m pytest -q -p no:cacheprovider --timeout=900 -rA tests 2>&1 | grep -E "^(PASSED|FAILED|ERROR|XFAIL|XPASS|SKIPPED)" | sed 's/ - .*//' | sort); }
git -C /repo worktree remove --force $WT >/dev/null 2>&1
git -C /repo worktree add --detach $WT HEAD >/dev/null 2>&1 || { echo "worktree failed"; exit 2; }
cp /repo/src/pydrobert/speech/_version.py $WT/src/pydrobert/speech/
if [ ! -s $BASE ]; then (flock 9; [ -s $BASE ] || run_suite $WT > $BASE) 9>/tmp/wt/baseline.lock; fi
cd $WT
PYTHONPATH=$WT/src timeout 900 /venv/bin/python $SRC/demo.py > /tmp/wt/$P-$M.clean.log 2>&1; C=$?
git apply --3way $SRC/patch.diff > /tmp/wt/$P-$M.apply.log 2>&1 || { echo "$P $M: patch does not apply to HEAD $HEAD"; cat /tmp/wt/$P-$M.apply.log | tail -3; git -C /repo worktree remove --force $WT; exit 2; }
PYTHONPATH=$WT/src timeout 900 /venv/bin/python $SRC/demo.py > /tmp/wt/$P-$M.mut.log 2>&1; D=$?
run_suite $WT > /tmp/wt/$P-$M.suite.txt
if diff -q $BASE /tmp/wt/$P-$M.suite.txt >/dev/null; then S=same; else S=DIFFERENT; fi
git diff HEAD > /tmp/wt/$P-$M.rebased.diff
cd /; git -C /repo worktree remove --force $WT
echo "$P $M: demo clean exit=$C mutated exit=$D suite=$S (HEAD $HEAD)"
if [ $C -eq 0 ] && [ $D -ne 0 ] && [ $S = same ]; then
  mkdir -p /verif/seeded/$P-$M
  cp /tmp/wt/$P-$M.rebased.diff /verif/seeded/$P-$M/patch.diff
  cp $SRC/demo.py /verif/seeded/$P-$M/demo.py
  /venv/bin/python - "$SRC/meta.json" "/verif/seeded/$P-$M/meta.json" "$P" "$HEAD" <<'PY'
import json,sys
src,dst,p,head=sys.argv[1:5]
try: m=json.load(open(src))
except Exception: m={}
out={'property':p,'summary':m.get('summary'),'needs_to_manifest':m.get('needs_to_manifest'),
 'author':'independent sub-agent given only the property text and a scratch worktree',
 'confirmed_by_me':{'repo_head':head,'demo_on_clean_tree':'exit 0','demo_on_changed_tree':'non-zero exit','test_suite':'same per-test outcomes as unchanged HEAD (pytest -rA, sorted outcome list diffed)',
   'command':'tools/verify_seed.sh %s (scratch worktree under /tmp/wt, removed afterwards)'%p},
 'agent_ran':m.get('ran'), 'detected_by': None}
json.dump(out,open(dst,'w'),indent=1)
PY
  echo "  kept as /verif/seeded/$P-$M"
else
  echo "  NOT kept"; tail -3 /tmp/wt/$P-$M.clean.log
fi
