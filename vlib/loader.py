"""Load /repo source text at run time into a fresh namespace with substituted globals."""
import ast
import hashlib
import os
import sys
import types

REPO = os.environ.get('VERIF_REPO', '/repo')
SRC = os.path.join(REPO, 'src', 'pydrobert', 'speech')


def src_path(module):
    return os.path.join(SRC, module + '.py')


def read_source(module):
    with open(src_path(module)) as f:
        return f.read()


def load_unit(module, subs=None, transform=None, name=None, pre=None):
    """exec the current source of pydrobert/speech/<module>.py into a new namespace.

    subs: globals overwritten *after* the module body ran (functions look globals up at call time,
          so the unchanged function bodies then run on the stand-ins).
    pre:  globals provided *before* the body runs (for modules whose top level needs them).
    transform: optional callable(ast.Module) -> ast.Module applied before compilation (AST insertions only).
    """
    path = src_path(module)
    src = read_source(module)
    tree = ast.parse(src, path)
    if transform is not None:
        tree = transform(tree)
        ast.fix_missing_locations(tree)
    code = compile(tree, path, 'exec')
    modname = name or ('pydrobert.speech.' + module)
    ns = {'__name__': modname, '__file__': path, '__package__': 'pydrobert.speech'}
    if pre:
        ns.update(pre)
    exec(code, ns)
    if subs:
        ns.update(subs)
    return ns


def function_hashes(specs):
    """specs: list of 'module:Qual.name' -> list of dicts with sha256 of the current source segment."""
    out = []
    cache = {}
    for spec in specs:
        module, qual = spec.split(':')
        if module not in cache:
            src = read_source(module)
            cache[module] = (src, ast.parse(src))
        src, tree = cache[module]
        node = tree
        found = True
        for part in qual.split('.'):
            nxt = None
            for ch in ast.walk(node) if node is tree else ast.iter_child_nodes(node):
                if isinstance(ch, (ast.FunctionDef, ast.ClassDef, ast.AsyncFunctionDef)) and ch.name == part:
                    nxt = ch
                    break
            if nxt is None:
                found = False
                break
            node = nxt
        if not found:
            out.append({'function': spec, 'sha256': None, 'missing': True})
            continue
        seg = ast.get_source_segment(src, node) or ''
        out.append({'function': spec, 'lines': [node.lineno, node.end_lineno],
                    'sha256': hashlib.sha256(seg.encode()).hexdigest()[:16]})
    return out


def import_real(modname):
    """import the real module from the current /repo working tree (fresh, bypassing stale caches)."""
    import importlib
    if modname in sys.modules:
        return sys.modules[modname]
    return importlib.import_module(modname)


def literal_init_fields(module, class_name, method='__init__'):
    """attributes the current source initialises with a literal in <class>.<method> (`self._cache = None`, `= {}`, `= 0`):
    hand-built instances (drive the unit) copy those they do not set themselves, so that state introduced by a change
    to the constructor exists exactly as the constructor would leave it"""
    tree = ast.parse(read_source(module))
    out = {}
    for cls in [n for n in tree.body if isinstance(n, ast.ClassDef) and n.name == class_name]:
        for fn in [n for n in cls.body if isinstance(n, ast.FunctionDef) and n.name == method]:
            for node in ast.walk(fn):
                if isinstance(node, ast.Assign):
                    try:
                        val = ast.literal_eval(node.value)
                    except Exception:
                        continue
                    for t in node.targets:
                        targets = t.elts if isinstance(t, (ast.Tuple, ast.List)) else [t]
                        for tt in targets:
                            if isinstance(tt, ast.Attribute) and isinstance(tt.value, ast.Name) and tt.value.id == 'self' and not isinstance(t, (ast.Tuple, ast.List)):
                                out[tt.attr] = val
    return out
