"""Driver: ./vcheck <ID> [--tier quick|thorough] [--replay file]

Exit codes: 0 = property held on everything explored (possibly with KNOWN-FINDING lines),
            1 = violation not listed in known_findings.json (VIOLATION line printed),
            3 = machinery could not decide (unknown, time-out, unsupported op, vacuous harness,
                conformance mismatch, non-reproducing counterexample).  Never a verdict.
"""
import argparse
import hashlib
import importlib
import json
import multiprocessing as mp
import os
import signal
import sys
import time
import traceback

ROOT = os.path.dirname(os.path.dirname(os.path.abspath(__file__)))
EVID = os.environ.get('VERIF_EVIDENCE_DIR') or os.path.join(ROOT, 'evidence')
REPLAYS = os.path.join(os.environ['VERIF_EVIDENCE_DIR'], 'replays') if os.environ.get('VERIF_EVIDENCE_DIR') else os.path.join(ROOT, 'replays')
KNOWN = os.path.join(ROOT, 'known_findings.json')


class _Timeout(BaseException):      # not an Exception: check code catching Exception must not swallow the time limit
    pass


def _alarm(signum, frame):
    # the timer repeats (see _worker): an exception raised inside a destructor is ignored by the interpreter, the
    # next tick raises again
    raise _Timeout()


def _worker(args):
    modname, cfg, limit = args
    from vlib import symex
    symex.Stats.reset()
    sys.setrecursionlimit(max(sys.getrecursionlimit(), 20000))      # sums over hundreds of DFT bins nest deeply
    mod = importlib.import_module(modname)
    t0 = time.time()
    signal.signal(signal.SIGALRM, _alarm)
    signal.setitimer(signal.ITIMER_REAL, float(limit) + 30.0, 5.0)
    symex.DEADLINE = time.time() + float(limit)      # cooperative check at every branch / solver query; the timer is the fallback
    try:
        try:
            res = mod.run_config(cfg)
        finally:
            signal.setitimer(signal.ITIMER_REAL, 0)     # first thing on the way out: no further ticks
            symex.DEADLINE = None
        res.setdefault('inconclusive', [])
    except (_Timeout, symex.DeadlineExceeded):
        res = {'inconclusive': ['time limit %ds exceeded' % limit]}
    except symex.Inconclusive as e:
        res = {'inconclusive': ['%s: %s' % (type(e).__name__, e)]}
    except (Exception, symex.Abort) as e:  # harness error: never a verdict
        res = {'inconclusive': ['harness error %s: %s\n%s' % (type(e).__name__, e, traceback.format_exc()[-1500:])]}
    finally:
        signal.setitimer(signal.ITIMER_REAL, 0)
    st = symex.Stats.snapshot()
    res['cfg'] = cfg
    res['wall_s'] = round(time.time() - t0, 2)
    for k, v in st.items():
        res.setdefault(k, v)
    return res


def load_known():
    if not os.path.exists(KNOWN):
        return []
    with open(KNOWN) as f:
        return json.load(f).get('findings', [])


def match_known(pid, witness, known):
    """A finding entry: {"property", "status": "known"|"fixed", "id", "match": python expression over the
    witness dict (names = witness keys), "what"}.  Only status == "known" suppresses."""
    for k in known:
        if k.get('property') != pid or k.get('status') != 'known':
            continue
        try:
            env = dict(witness)
            if eval(k['match'], {'__builtins__': {'min': min, 'max': max, 'abs': abs, 'len': len, 'str': str,
                                                    'int': int, 'any': any, 'all': all, 'set': set}}, env):
                return k
        except Exception:
            continue
    return None


def jsonable(o):
    try:
        json.dumps(o)
        return o
    except TypeError:
        if isinstance(o, dict):
            return {str(k): jsonable(v) for k, v in o.items()}
        if isinstance(o, (list, tuple, set)):
            return [jsonable(v) for v in o]
        return repr(o)


def main(argv=None):
    ap = argparse.ArgumentParser()
    ap.add_argument('pid')
    ap.add_argument('--tier', default=os.environ.get('VERIF_TIER', 'quick'), choices=['quick', 'thorough'])
    ap.add_argument('--replay', default=None)
    ap.add_argument('--procs', type=int, default=int(os.environ.get('VERIF_PROCS', '16')))
    ap.add_argument('--only', default=None, help='substring filter on config name (debugging; evidence marked partial)')
    args = ap.parse_args(argv)
    pid = args.pid.upper()
    seed = int(os.environ.get('VERIF_SEED', '0'))
    modname = 'checks.' + pid.lower()
    mod = importlib.import_module(modname)

    if args.replay:
        with open(args.replay) as f:
            w = json.load(f)
        r = mod.replay(w['witness'])
        print(json.dumps(jsonable(r), indent=1))
        if r.get('reproduced'):
            print('VIOLATION property=%s replay=%s' % (pid, args.replay))
            return 1
        return 0

    t0 = time.time()
    cfgs = mod.configs(args.tier, seed)
    if args.only:
        cfgs = [c for c in cfgs if args.only in c.get('name', '')]
    limit = int(os.environ.get('VERIF_CONFIG_LIMIT', getattr(mod, 'CONFIG_TIME_LIMIT', {}).get(args.tier, 600)))
    jobs = [(modname, c, limit) for c in cfgs]
    results = []
    if args.procs > 1 and len(jobs) > 1:
        from concurrent.futures import ProcessPoolExecutor, as_completed
        ctx = mp.get_context('fork')
        done_cfgs = set()
        with ProcessPoolExecutor(min(args.procs, len(jobs)), mp_context=ctx) as ex:
            futs = {ex.submit(_worker, j): j for j in jobs}
            try:
                for fu in as_completed(futs, timeout=limit * 4 + 600):
                    j = futs[fu]
                    try:
                        results.append(fu.result())
                    except Exception as e:  # worker died (BrokenProcessPool) -- never a verdict
                        results.append({'cfg': j[1], 'inconclusive': ['worker failed: %s: %s' % (type(e).__name__, e)]})
                    done_cfgs.add(id(j))
                    if os.environ.get('VERIF_PROGRESS'):
                        print('  [%4.0fs] %d/%d done: %s' % (time.time() - t0, len(done_cfgs), len(jobs), j[1].get('name', '')), file=sys.stderr, flush=True)
            except Exception as e:
                for fu, j in futs.items():
                    if id(j) not in done_cfgs:
                        results.append({'cfg': j[1], 'inconclusive': ['not finished: %s' % type(e).__name__]})
                        fu.cancel()
    else:
        for j in jobs:
            results.append(_worker(j))
    results.sort(key=lambda r: json.dumps(jsonable(r['cfg']), sort_keys=True))

    known = load_known()
    inconclusive = []
    viol_lines = []
    known_lines = []
    n_viol = 0
    tot = dict(paths=0, branches=0, queries=0, solver_s=0.0, obligations=0, discharged=0, twin_reached=0,
               twin_expected=0)
    samples = []
    notes = []
    for r in results:
        for k in ('paths', 'branches', 'queries', 'solver_s', 'obligations', 'discharged'):
            tot[k] += r.get(k, 0)
        for msg in r.get('inconclusive', []):
            inconclusive.append('%s: %s' % (r['cfg'].get('name', r['cfg']), msg))
        if 'twin' in r:
            tot['twin_expected'] += 1
            tot['twin_reached'] += 1 if r['twin'] else 0
            if not r['twin']:
                inconclusive.append('%s: vacuous harness (reachability twin not violated)' % r['cfg'].get('name'))
        if r.get('samples'):
            samples.extend(r['samples'][:2])
        notes.extend(r.get('notes', []))

    # counterexamples: replay on the real library before anything is reported
    os.makedirs(REPLAYS, exist_ok=True)
    seen_classes = set()
    replayed = 0
    n_dups = 0
    failed_classes = {}
    for r in results:
        for w in r.get('violations', []):
            key = w.get('class', json.dumps(jsonable(w), sort_keys=True))
            if key in seen_classes:
                n_dups += 1
                continue
            if failed_classes.get(key, 0) >= 2:
                if failed_classes[key] == 2:
                    inconclusive.append('further counterexamples of class %s not replayed (2 did not reproduce)' % key)
                failed_classes[key] += 1
                continue
            try:
                rp = mod.replay(w)
            except Exception as e:
                rp = {'reproduced': False, 'detail': 'replay harness error %s: %s' % (type(e).__name__, e)}
            replayed += 1
            if not rp.get('reproduced'):
                failed_classes[key] = failed_classes.get(key, 0) + 1
                inconclusive.append('counterexample did not reproduce on the real library: %s -- %s'
                                    % (json.dumps(jsonable(w))[:400], str(rp.get('detail'))[:300]))
                continue
            seen_classes.add(key)
            wj = jsonable(w)
            k = match_known(pid, w, known)
            if k is not None:
                line = 'KNOWN-FINDING: property=%s %s [%s]' % (pid, k['what'], k['id'])
                if line not in known_lines:
                    known_lines.append(line)
                continue
            n_viol += 1
            h = hashlib.sha256(json.dumps(wj, sort_keys=True).encode()).hexdigest()[:10]
            path = os.path.join(REPLAYS, '%s-%s.json' % (pid, h))
            with open(path, 'w') as f:
                json.dump({'property': pid, 'witness': wj, 'replay_result': jsonable(rp)}, f, indent=1)
            if len(viol_lines) < 20:
                viol_lines.append('VIOLATION property=%s replay=%s' % (pid, path))
                print('  witness: %s' % json.dumps(wj)[:600])
                print('  replay : %s' % str(rp.get('detail'))[:600])

    # conformance (encoding validation against the real library)
    conf = 0
    if hasattr(mod, 'conformance') and not inconclusive:
        try:
            conf = mod.conformance(args.tier, seed, results)
        except AssertionError as e:
            inconclusive.append('conformance mismatch: %s' % e)
        except Exception as e:
            inconclusive.append('conformance harness error %s: %s' % (type(e).__name__, e))

    from vlib.loader import function_hashes
    wall = round(time.time() - t0, 2)
    level = getattr(mod, 'LEVEL', 'model_checking')
    cov = {
        'states': max(tot['paths'], 0),
        'transitions': tot['branches'] + tot['obligations'],   # solver-decided branch points + final obligations
        'traces_validated_against_impl': conf,
        'obligations': tot['obligations'],
        'discharged': tot['discharged'],
        'samples': jsonable(samples[:12]) or ['(no samples: run was inconclusive)'],
        'explanation': getattr(mod, 'EXPLANATION', ''),
        'configurations': len(cfgs),
        'functions_encoded': function_hashes(getattr(mod, 'FUNCTIONS', [])),
        'bounds': getattr(mod, 'BOUNDS', {}).get(args.tier, ''),
        'outside_claim': getattr(mod, 'OUTSIDE', []),
        'solver_queries': tot['queries'],
        'solver_time_s': round(tot['solver_s'], 2),
        'reachability_twins': '%d/%d violated as required' % (tot['twin_reached'], tot['twin_expected']),
        'known_findings_reported': known_lines,
        'further_counterexamples_in_reported_classes': n_dups,
        'inconclusive': inconclusive[:20],
        'notes': notes[:20],
        'solver': 'z3 %s' % __import__('z3').get_version_string(),
        'partial_run_filter': args.only,
        'per_config': [{'name': r['cfg'].get('name'), 'paths': r.get('paths'), 'obligations': r.get('obligations'),
                        'wall_s': r.get('wall_s')} for r in results][:400],
    }
    ev = {
        'property_id': pid, 'tier': args.tier, 'seed': seed, 'level': level, 'coverage': cov,
        'assumptions': getattr(mod, 'ASSUMPTIONS', []), 'wall_s': wall, 'violations': n_viol,
    }
    os.makedirs(EVID, exist_ok=True)
    evpath = os.path.join(EVID, '%s.json' % pid)
    with open(evpath, 'w') as f:
        json.dump(ev, f, indent=1)
    try:
        import jsonschema
        sch = '/root/.vp/EVIDENCE.schema.json'
        if os.path.exists(sch):
            with open(sch) as f:
                jsonschema.validate(ev, json.load(f))
    except ImportError:
        pass
    except Exception as e:
        print('evidence does not validate: %s' % str(e)[:300])
        for m in inconclusive[:10]:
            print('  ' + m[:1500])
        return 3

    print('%s tier=%s configs=%d paths=%d branches=%d obligations=%d/%d queries=%d solver=%.1fs conformance=%d wall=%.1fs'
          % (pid, args.tier, len(cfgs), tot['paths'], tot['branches'], tot['discharged'], tot['obligations'],
             tot['queries'], tot['solver_s'], conf, wall))
    for line in known_lines:
        print(line)
    for line in viol_lines:
        print(line)
    if n_viol:
        return 1
    if inconclusive:
        print('INCONCLUSIVE (%d):' % len(inconclusive))
        for m in inconclusive[:10]:
            print('  ' + m[:1200])
        return 3
    return 0


if __name__ == '__main__':
    sys.exit(main())
