"""Scalar math stand-ins over SReal: transcendental functions as uninterpreted functions whose defining axioms
(inverse pair, strict monotonicity, positivity) are instantiated on the terms that occur (per path)."""
import math

import z3

from .symex import (Ctx, SReal, SInt, SBool, rv, is_sym, sceil, sfloor, ssqrt, SNaN, smax, smin, decide, Unsupported)

R = z3.RealSort()


class InvPair:
    """f : D -> R strictly increasing bijection with inverse g (e.g. f = LOG on (0,inf), g = EXP)."""

    def __init__(self, fname, gname, f_domain_pos=True):
        self.f = z3.Function(fname, R, R)
        self.g = z3.Function(gname, R, R)
        self.fname, self.gname = fname, gname
        self.pos = f_domain_pos

    def _reg(self):
        c = Ctx.cur
        key = 'invpair_' + self.fname
        if key not in c.notes:
            c.notes[key] = {'f': [], 'g': []}
        return c.notes[key]

    def apply_f(self, u):
        """f(u); requires u > 0 when the domain is positive (otherwise numpy would give nan/-inf: exception path)"""
        uz = rv(u)
        c = Ctx.cur
        reg = self._reg()
        if self.pos and not decide(uz > 0):
            raise ValueError('%s of a non-positive number' % self.fname)
        t = self.f(uz)
        seen = reg.setdefault('f_ids', set())
        if uz.get_id() in seen:
            return SReal(t)         # same argument term as before: the axioms are already instantiated
        seen.add(uz.get_id())
        s = c.solver
        # inverse: g(f(u)) = u
        s.add(self.g(t) == uz)
        for (u2, t2) in reg['f']:
            s.add(z3.Implies(uz < u2, t < t2), z3.Implies(uz > u2, t > t2), z3.Implies(uz == u2, t == t2))
        for (v2, w2) in reg['g']:   # w2 = g(v2): if u == w2 then f(u) = v2 ; monotone link
            s.add(z3.Implies(uz == w2, t == v2), z3.Implies(uz < w2, t < v2), z3.Implies(uz > w2, t > v2))
        reg['f'].append((uz, t))
        return SReal(t)

    def apply_g(self, v):
        vz = rv(v)
        c = Ctx.cur
        reg = self._reg()
        w = self.g(vz)
        seen = reg.setdefault('g_ids', set())
        if vz.get_id() in seen:
            return SReal(w)
        seen.add(vz.get_id())
        s = c.solver
        if self.pos:
            s.add(w > 0)
        s.add(self.f(w) == vz)
        for (v2, w2) in reg['g']:
            s.add(z3.Implies(vz < v2, w < w2), z3.Implies(vz > v2, w > w2), z3.Implies(vz == v2, w == w2))
        for (u2, t2) in reg['f']:   # t2 = f(u2): if v == t2 then g(v) = u2
            s.add(z3.Implies(vz == t2, w == u2), z3.Implies(vz < t2, w < u2), z3.Implies(vz > t2, w > u2))
        reg['g'].append((vz, w))
        return SReal(w)


LOGEXP = InvPair('LOG', 'EXP')
LOG2POW2 = InvPair('LOG2', 'POW2')


def _anchor(pair, u_val, t_val):
    """known exact points, e.g. LOG(1) = 0"""
    c = Ctx.cur
    key = 'anchor_%s_%s' % (pair.fname, u_val)
    if key in c.notes:
        return
    c.notes[key] = True
    uz, tz = rv(u_val), rv(t_val)
    c.solver.add(pair.f(uz) == tz, pair.g(tz) == uz)
    reg = pair._reg()
    reg['f'].append((uz, tz))
    reg['g'].append((tz, uz))


class MathNP:
    """numpy stand-in for scalar closed-form code"""
    pi = math.pi
    float64 = 'f8'
    inf = math.inf
    nan = math.nan

    @staticmethod
    def isfinite(v):
        # symbolic values range over the reals (and integers): always finite, never NaN
        return True if is_sym(v) else math.isfinite(v)

    @staticmethod
    def isnan(v):
        return False if is_sym(v) else math.isnan(v)

    @staticmethod
    def isinf(v):
        return False if is_sym(v) else math.isinf(v)

    @staticmethod
    def log(v):
        if isinstance(v, SNaN):
            return v
        if not is_sym(v):
            return math.log(v)
        _anchor(LOGEXP, 1, 0)
        return LOGEXP.apply_f(v)

    @staticmethod
    def exp(v):
        if isinstance(v, SNaN):
            return v
        if not is_sym(v):
            return math.exp(v)
        _anchor(LOGEXP, 1, 0)
        return LOGEXP.apply_g(v)

    @staticmethod
    def asarray(v, dtype=None):
        if dtype is not None:
            raise Unsupported('np.asarray with dtype on a scalar proxy')
        return v

    @staticmethod
    def piecewise(x, condlist, funclist, *a, **kw):
        """scalar np.piecewise: the last true condition selects the function (extra function = default, else 0); the
        result has the dtype of x -- an integer-typed x truncates the selected value toward zero (C cast)"""
        from .symex import sint_trunc
        if not isinstance(condlist, (list, tuple)):
            condlist = [condlist]
        funcs = list(funclist)
        default = funcs[len(condlist)] if len(funcs) == len(condlist) + 1 else 0
        chosen = default
        for cnd, fn in zip(condlist, funcs):
            if bool(cnd):
                chosen = fn
        val = chosen(x, *a, **kw) if callable(chosen) else chosen
        if isinstance(x, (SInt, int)) and not isinstance(x, bool):
            return sint_trunc(val) if is_sym(val) else int(val)
        return val

    @staticmethod
    def log2(v):
        if not is_sym(v):
            return math.log2(v)
        _anchor(LOG2POW2, 1, 0)
        _anchor(LOG2POW2, 2, 1)
        return LOG2POW2.apply_f(v)

    @staticmethod
    def sqrt(v):
        if isinstance(v, SNaN):
            return v
        if not is_sym(v):
            return math.sqrt(v)
        return ssqrt(v)

    @staticmethod
    def ceil(v):
        if isinstance(v, SNaN):
            return v
        if not is_sym(v):
            return math.ceil(v)
        return sceil(v)

    @staticmethod
    def floor(v):
        if isinstance(v, SNaN):
            return v
        if not is_sym(v):
            return math.floor(v)
        return sfloor(v)

    @staticmethod
    def abs(v):
        return abs(v)


def pow2(v):
    _anchor(LOG2POW2, 1, 0)
    _anchor(LOG2POW2, 2, 1)
    return LOG2POW2.apply_g(v)


def _rpow(self, base):
    if base == 2:
        return pow2(self)
    raise Unsupported('%r ** SReal' % (base,))


SReal.__rpow__ = _rpow
SInt.__rpow__ = lambda self, base: _rpow(SReal(z3.ToReal(self.z)), base)      # 2 ** <integer-typed scale value>
