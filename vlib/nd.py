"""numpy-lite: N-D lazy symbolic arrays with write-through views (see DESIGN 1.3)."""
import z3, builtins
from .symex import SInt, SBool, Ctx, _z, smax, smin, decide, conc, rmul, rv

def zi(v):
    return _z(v)


FLOATS = ('f2', 'f4', 'f8')
_RANK = {'i1': 1, 'u1': 1, 'i2': 2, 'i4': 3, 'i8': 4, 'f2': 5, 'f4': 6, 'f8': 7}
RND = {d: z3.Function('RND_' + d, z3.RealSort(), z3.RealSort()) for d in ('f2', 'f4')}
DTYPE_AWARE = False   # checks that reason about working precision switch this on


def promote(a, b):
    if not DTYPE_AWARE or a not in _RANK or b not in _RANK:
        return a
    if (a in FLOATS) != (b in FLOATS):
        # int array with float array: float64 unless the int fits (int16 + float32 -> float32; int32+ -> float64)
        fl, it = (a, b) if a in FLOATS else (b, a)
        if it in ('i4', 'i8') or (it == 'i2' and fl == 'f2'):
            return 'f8'
        return fl
    return a if _RANK[a] >= _RANK[b] else b


def promote_scalar(a, o):
    """NEP 50: python scalars are weak; a python float with an integer array gives float64"""
    if not DTYPE_AWARE or a not in _RANK:
        return a
    from .symex import SReal as _SR
    is_float = isinstance(o, (float, _SR)) or (isinstance(o, z3.ExprRef) and o.sort() == z3.RealSort() and not z3.is_int_value(o))
    if a in FLOATS:
        return a
    return 'f8' if is_float else a


def rounder(dt):
    if DTYPE_AWARE and dt in RND:
        return RND[dt]
    return None


class Store:
    def __init__(self, shape, get):
        self.shape = tuple(shape); self.get = get   # get(tuple of z3 ints)->term
        self.readonly = False; self.writes = 0

class ND:
    """view onto a Store. axes: list per *base* axis: ('fix', z) | ('sl', start_z, step(+-1), len, viewaxis)"""
    def __init__(self, store, axes=None, dtype='f8'):
        self.store = store; self.dtype = dtype
        if axes is None:
            axes = [('sl', z3.IntVal(0), 1, n, k) for k, n in enumerate(store.shape)]
        self.axes = axes
    @staticmethod
    def fresh(shape, get, dtype='f8'):
        if not isinstance(shape, tuple): shape = (shape,)
        return ND(Store(shape, get), dtype=dtype)
    @property
    def shape(self):
        d = {}
        for a in self.axes:
            if a[0] == 'sl': d[a[4]] = a[3]
        return tuple(d[k] for k in range(len(d)))
    @property
    def ndim(self): return len(self.shape)
    @property
    def size(self):
        n = 1
        for d in self.shape:
            n = n * d          # int or SInt
        return n

    def __iter__(self):
        """rows along the first axis (Python would otherwise probe __getitem__ with 0, 1, 2, ... forever)"""
        n = self.shape[0]
        if not isinstance(n, int):
            n = conc(n).__index__() if hasattr(conc(n), '__index__') else int(n)
        for i in range(n):
            yield self[i]
    @property
    def n(self): return self.shape[0]
    def _base_idx(self, vidx):
        out = []
        for a in self.axes:
            if a[0] == 'fix': out.append(a[1])
            else: out.append(a[1] + a[2] * vidx[a[4]])
        return tuple(out)
    def get(self, *vidx):
        if len(vidx) == 1 and isinstance(vidx[0], tuple): vidx = vidx[0]
        return self.store.get(self._base_idx(tuple(zi(v) for v in vidx)))
    # ---- indexing
    def _view(self, key):
        if not isinstance(key, tuple): key = (key,)
        shape = self.shape
        if any(k is Ellipsis for k in key):
            i = [j for j, k in enumerate(key) if k is Ellipsis][0]
            key = tuple(key[:i]) + (slice(None),) * (len(shape) - (len(key) - 1)) + tuple(key[i + 1:])
        key = list(key) + [slice(None)] * (len(shape) - len(key))
        assert len(key) == len(shape), (key, shape)
        # per view axis: new spec
        newspec = {}; newaxis = 0
        for k, (kk, n) in enumerate(zip(key, shape)):
            if isinstance(kk, slice):
                st, step, ln = norm_slice(kk, n)
                newspec[k] = ('sl', st, step, ln, newaxis); newaxis += 1
            else:
                kz = zi(kk); nz = zi(n)
                newspec[k] = ('fix', z3.If(kz < 0, kz + nz, kz))
        axes = []
        for a in self.axes:
            if a[0] == 'fix': axes.append(a)
            else:
                s = newspec[a[4]]
                if s[0] == 'fix': axes.append(('fix', z3.simplify(a[1] + a[2] * s[1])))
                else: axes.append(('sl', z3.simplify(a[1] + a[2] * s[1]), a[2] * s[2], s[3], s[4]))
        return ND(self.store, axes, self.dtype)
    def __getitem__(self, key):
        v = self._view(key)
        if v.ndim == 0: return v.get()
        return v
    def __setitem__(self, key, val):
        if self.store.readonly:
            raise ValueError('assignment destination is read-only')
        self.store.writes += 1
        v = self._view(key)
        vshape = v.shape
        if isinstance(val, ND):
            # broadcast check (right-aligned, equal dims only + size-1)
            vs = val.shape
            assert len(vs) <= len(vshape)
            off = len(vshape) - len(vs)
            for k, n in enumerate(vs):
                ok = SInt(zi(n)) == SInt(zi(vshape[off + k]))
                if not ok:
                    raise ValueError('could not broadcast input array')
            snap = val.snapshot()
            vg = lambda idx: snap(idx[off:])
        else:
            vg = lambda idx: val
        old = self.store.get; axes = v.axes
        def new(bidx):
            conds = []; vidx = {}
            for a, b in zip(axes, bidx):
                if a[0] == 'fix': conds.append(b == a[1])
                else:
                    i = (b - a[1]) if a[2] == 1 else (a[1] - b)
                    conds.append(z3.And(i >= 0, i < zi(a[3]))); vidx[a[4]] = i
            if decide(z3.And(conds)): return vg(tuple(vidx[k] for k in range(len(vidx))))
            return old(bidx)
        self.store.get = new
    def snapshot(self):
        g = self.store.get; me = self
        return lambda vidx: g(me._base_idx(tuple(vidx)))
    def copy(self):
        s = self.snapshot()
        return ND.fresh(self.shape, s, self.dtype)
    def fill(self, v): self[(slice(None),) * self.ndim] = rv(v)
    # ---- arithmetic (elementwise with simple broadcasting)
    def _bin(self, o, f):
        if isinstance(o, ND):
            a, b = self, o
            sa, sb = a.shape, b.shape
            nd = builtins.max(len(sa), len(sb))
            pa = (1,) * (nd - len(sa)) + sa; pb = (1,) * (nd - len(sb)) + sb
            shape = []
            for x, y in zip(pa, pb):
                if isinstance(x, int) and x == 1: shape.append(y)
                elif isinstance(y, int) and y == 1: shape.append(x)
                else:
                    ok = SInt(zi(x)) == SInt(zi(y))
                    if not ok: raise ValueError('operands could not be broadcast together')
                    shape.append(x)
            ga, gb = a.snapshot(), b.snapshot()
            def get(idx):
                ia = tuple(z3.IntVal(0) if (isinstance(x, int) and x == 1) else i for i, x in zip(idx, pa))[nd - len(sa):]
                ib = tuple(z3.IntVal(0) if (isinstance(y, int) and y == 1) else i for i, y in zip(idx, pb))[nd - len(sb):]
                return f(ga(ia), gb(ib))
            dt = promote(a.dtype, b.dtype)
            rnd = rounder(dt)
            return ND.fresh(tuple(shape), (lambda idx: rnd(get(idx))) if rnd is not None else get, dt)
        g = self.snapshot()
        oz = o if isinstance(o, z3.ExprRef) else rv(o)
        dt = promote_scalar(self.dtype, o)
        rnd = rounder(dt)
        if getattr(self, '_swap', False):
            return ND.fresh(self.shape, (lambda idx: rnd(f(oz, g(idx)))) if rnd is not None else (lambda idx: f(oz, g(idx))), dt)
        return ND.fresh(self.shape, (lambda idx: rnd(f(g(idx), oz))) if rnd is not None else (lambda idx: f(g(idx), oz)), dt)
    def __mul__(self, o): return self._bin(o, rmul)
    __rmul__ = __mul__
    def __add__(self, o): return self._bin(o, lambda a, b: a + b)
    __radd__ = __add__
    def __iadd__(self, o):
        r = self + o
        self[(slice(None),) * self.ndim] = r
        return self
    def conj(self): return self
    @property
    def real(self): return self

def norm_slice(sl, n):
    nz = zi(n)
    step = 1 if sl.step is None else sl.step
    assert step in (1, -1)
    def fixp(v, default):
        if v is None: return default
        vz = zi(v); vz = z3.If(vz < 0, vz + nz, vz)
        return z3.If(vz < 0, z3.IntVal(0), z3.If(vz > nz, nz, vz))
    def fixn(v, default):
        if v is None: return default
        vz = zi(v); vz = z3.If(vz < 0, vz + nz, vz)
        return z3.If(vz < 0, z3.IntVal(-1), z3.If(vz >= nz, nz - 1, vz))
    if step == 1:
        a = fixp(sl.start, z3.IntVal(0)); b = fixp(sl.stop, nz)
        ln = z3.If(b - a > 0, b - a, 0)
    else:
        a = fixn(sl.start, nz - 1); b = fixn(sl.stop, z3.IntVal(-1))
        ln = z3.If(a - b > 0, a - b, 0)
    ln = conc(SInt(z3.simplify(ln)))
    return z3.simplify(a), step, ln

def nd_sum_axis1(a, maxn):
    """sum over axis 1 of a 2-D array whose axis-1 length is symbolic but <= maxn"""
    r, n = a.shape
    g = a.snapshot(); nz = zi(n)
    def get(idx):
        return z3.Sum([g((idx[0], z3.IntVal(j))) for j in range(maxn) if decide(z3.IntVal(j) < nz)] + [z3.RealVal(0)])
    return ND.fresh((r,), get)

def _reshape(self, shape, order='C'):
    assert self.ndim == 1 and len(shape) == 2 and isinstance(shape[1], int)
    g = self.snapshot(); c = shape[1]
    # numpy checks size
    ok = SInt(zi(self.shape[0])) == SInt(zi(shape[0]) * c)
    if not ok: raise ValueError('cannot reshape array')
    return ND.fresh((conc(shape[0]) if isinstance(shape[0], SInt) else shape[0], c), lambda idx: g((idx[0] * c + idx[1],)), self.dtype)
ND.reshape = _reshape


def _nd_slen(self):
    return self.shape[0]
ND._slen = _nd_slen


def _sub(self, o): return self._bin(o, lambda a, b: a - b)
ND.__sub__ = _sub


def nd_rows(a):
    """concrete list of rows (lists of simplified terms) of a 2-D array whose shape is decided by forking"""
    n, m = a.shape
    n = n.__index__() if isinstance(n, SInt) else n
    m = m.__index__() if isinstance(m, SInt) else m
    return [[z3.simplify(a.get(z3.IntVal(r), z3.IntVal(c))) for c in range(m)] for r in range(n)]


def _isub(self, o):
    r = self - o
    if DTYPE_AWARE and isinstance(r, ND) and r.dtype != self.dtype and self.dtype in FLOATS:
        rnd = rounder(self.dtype)
        if rnd is not None:
            g = r.snapshot()
            r = ND.fresh(r.shape, lambda idx: rnd(g(idx)), self.dtype)
    self[(slice(None),) * self.ndim] = r
    return self
ND.__isub__ = _isub


def _rsub(self, o):
    self._swap = True
    try:
        return self._bin(o, lambda a, b: a - b)
    finally:
        self._swap = False
ND.__rsub__ = _rsub

CAST = {}


def cast_fn(dt):
    if dt not in CAST:
        CAST[dt] = z3.Function('CAST_' + dt, z3.RealSort(), z3.RealSort())
    return CAST[dt]


def _astype(self, dt, copy=True):
    """value model: widening to float64 is exact (identity); any other change of dtype is an uninterpreted cast"""
    dt = getattr(dt, 'name', dt)
    if dt == self.dtype:
        if not copy:
            return self
        return ND.fresh(self.shape, self.snapshot(), dt)
    g = self.snapshot()
    if dt == 'f8' or not DTYPE_AWARE:
        return ND.fresh(self.shape, g, dt)
    c = cast_fn(dt)
    return ND.fresh(self.shape, lambda idx: c(g(idx)), dt)
ND.astype = _astype


def _reshape_general(self, *shape, order='C'):
    """1-D -> 2-D reshape; one extent may be -1 (inferred); ValueError when the size does not divide"""
    if len(shape) == 1 and isinstance(shape[0], (tuple, list)):
        shape = tuple(shape[0])
    if not (self.ndim == 1 and len(shape) == 2 and order == 'C'):
        from .symex import Unsupported
        raise Unsupported('reshape %r of a %d-d array' % (shape, self.ndim))
    n = zi(self.shape[0])
    r, c = shape
    if isinstance(r, int) and r == -1:
        cz = zi(c)
        if not decide(cz > 0) or not decide(n % cz == 0):
            raise ValueError('cannot reshape array')
        r = conc(SInt(z3.simplify(n / cz)))
    elif isinstance(c, int) and c == -1:
        rz = zi(r)
        if not decide(rz > 0) or not decide(n % rz == 0):
            raise ValueError('cannot reshape array')
        c = conc(SInt(z3.simplify(n / rz)))
    else:
        ok = SInt(n) == SInt(zi(r) * zi(c))
        if not ok:
            raise ValueError('cannot reshape array')
    g = self.snapshot()
    cz = zi(c)
    return ND.fresh((conc(r) if isinstance(r, SInt) else r, conc(c) if isinstance(c, SInt) else c), lambda idx: g((idx[0] * cz + idx[1],)), self.dtype)
ND.reshape = _reshape_general


def _squeeze(self):
    shape = self.shape
    keep = [k for k, n in enumerate(shape) if not decide(zi(n) == 1)]
    g = self.snapshot()
    nd_ = len(shape)

    def get(idx):
        full = [z3.IntVal(0)] * nd_
        for j, k in enumerate(keep):
            full[k] = idx[j]
        return g(tuple(full))
    return ND.fresh(tuple(shape[k] for k in keep), get, self.dtype)
ND.squeeze = _squeeze


def _nd_pow(self, k):
    g = self.snapshot()
    if isinstance(k, int) and k >= 0:
        def f(idx):
            r = z3.RealVal(1)
            for _ in range(k):
                r = r * g(idx)
            return r
        return ND.fresh(self.shape, f, self.dtype)
    if k == 0.5:
        from .symex import SQRT
        return ND.fresh(self.shape, lambda idx: SQRT(g(idx)), self.dtype)
    from .symex import Unsupported
    raise Unsupported('ND ** %r' % (k,))
ND.__pow__ = _nd_pow


def _nd_truediv(self, o):
    return self._bin(o, lambda a, b: a / b)
ND.__truediv__ = _nd_truediv
