"""Exact rational-function normalisation of z3 real terms (+, -, *, /, integer powers, numerals, constants, applications of
uninterpreted functions as opaque variables).  Used to clear symbolic denominators before a query is handed to z3: the
solver then decides a division-free polynomial statement (nlsat does not finish on the rational form)."""
from fractions import Fraction

import z3


class Poly:
    __slots__ = ('t',)

    def __init__(self, t=None):
        self.t = {k: v for k, v in (t or {}).items() if v != 0}

    @staticmethod
    def const(c):
        return Poly({(): Fraction(c)})

    @staticmethod
    def var(name):
        return Poly({((name, 1),): Fraction(1)})

    def __add__(self, o):
        r = dict(self.t)
        for k, v in o.t.items():
            r[k] = r.get(k, 0) + v
        return Poly(r)

    def __neg__(self):
        return Poly({k: -v for k, v in self.t.items()})

    def __sub__(self, o):
        return self + (-o)

    def __mul__(self, o):
        r = {}
        for k1, v1 in self.t.items():
            for k2, v2 in o.t.items():
                d = dict(k1)
                for n, e in k2:
                    d[n] = d.get(n, 0) + e
                k = tuple(sorted(d.items()))
                r[k] = r.get(k, 0) + v1 * v2
        return Poly(r)

    def is_zero(self):
        return not self.t

    def key(self):
        return tuple(sorted((k, (v.numerator, v.denominator)) for k, v in self.t.items()))

    def to_z3(self, env):
        s = z3.RealVal(0)
        for k, v in sorted(self.t.items()):
            m = z3.Q(v.numerator, v.denominator)
            for n, e in k:
                for _ in range(e):
                    m = m * env[n]
            s = s + m
        return s


class Rat:
    """num / den"""

    def __init__(self, num, den=None):
        self.n, self.d = num, den if den is not None else Poly.const(1)

    def __add__(self, o):
        if self.d.key() == o.d.key():
            return Rat(self.n + o.n, self.d)
        return Rat(self.n * o.d + o.n * self.d, self.d * o.d)

    def __neg__(self):
        return Rat(-self.n, self.d)

    def __sub__(self, o):
        return self + (-o)

    def __mul__(self, o):
        return Rat(self.n * o.n, self.d * o.d)

    def __truediv__(self, o):
        return Rat(self.n * o.d, self.d * o.n)


def normalise(term, env):
    """z3 real term -> Rat; env collects name -> z3 term for every variable (constants and opaque applications)"""
    term = z3.simplify(term) if False else term
    if z3.is_rational_value(term) or z3.is_int_value(term):
        f = term.as_fraction() if z3.is_rational_value(term) else Fraction(term.as_long())
        return Rat(Poly.const(f))
    if z3.is_algebraic_value(term):
        raise ValueError('algebraic number')
    k = term.decl().kind()
    ch = term.children()
    if k == z3.Z3_OP_ADD:
        r = normalise(ch[0], env)
        for c in ch[1:]:
            r = r + normalise(c, env)
        return r
    if k == z3.Z3_OP_SUB:
        r = normalise(ch[0], env)
        for c in ch[1:]:
            r = r - normalise(c, env)
        return r
    if k == z3.Z3_OP_UMINUS:
        return -normalise(ch[0], env)
    if k == z3.Z3_OP_MUL:
        r = normalise(ch[0], env)
        for c in ch[1:]:
            r = r * normalise(c, env)
        return r
    if k == z3.Z3_OP_DIV:
        return normalise(ch[0], env) / normalise(ch[1], env)
    if k == z3.Z3_OP_TO_REAL:
        return normalise(ch[0], env)
    if k == z3.Z3_OP_POWER:
        e = z3.simplify(ch[1])
        if (z3.is_rational_value(e) or z3.is_int_value(e)) and e.as_fraction().denominator == 1 and e.as_fraction() >= 0:
            b = normalise(ch[0], env)
            r = Rat(Poly.const(1))
            for _ in range(int(e.as_fraction())):
                r = r * b
            return r
        raise ValueError('power with a non-constant exponent')
    if k == z3.Z3_OP_UNINTERPRETED:
        if not ch:
            name = term.decl().name()
            env[name] = term
            return Rat(Poly.var(name))
        # opaque application: its arguments are normalised too, so that equal arguments give the same variable
        keys = []
        for c in ch:
            a = normalise(c, env)
            keys.append((a.n.key(), a.d.key()))
        name = '%s%r' % (term.decl().name(), tuple(keys))
        env[name] = term
        return Rat(Poly.var(name))
    raise ValueError('unsupported operator in a rational term: %s' % term.decl().name())


def _first_ite(t, seen):
    if t.get_id() in seen:
        return None
    seen.add(t.get_id())
    if z3.is_app(t):
        if t.decl().kind() == z3.Z3_OP_ITE:
            return t
        for c in t.children():
            r = _first_ite(c, seen)
            if r is not None:
                return r
    return None


def ite_cases(terms, pc, conds=()):
    """case split over the if-then-else subterms (max / min / abs of symbolic values): yields (terms without ite, conditions)
    for every combination that is feasible together with the path condition pc"""
    ite = None
    for t in terms:
        ite = _first_ite(t, set())
        if ite is not None:
            break
    if ite is None:
        yield list(terms), list(conds)
        return
    c, a, b = ite.children()
    for cond, val in ((c, a), (z3.Not(c), b)):
        s = z3.Solver()
        s.set('timeout', 30000)
        s.add(*pc)
        s.add(*conds)
        s.add(cond)
        if str(s.check()) == 'unsat':
            continue
        yield from ite_cases([z3.substitute(t, (ite, val)) for t in terms], pc, tuple(conds) + (cond,))
