"""pysymex core: fork-by-re-execution symbolic executor over z3-backed proxies.

A *path* is a list of branch decisions.  Proxies (SBool/SInt/SReal) ask the
current context (``Ctx.cur``) whenever Python needs a concrete truth value; the
context answers from the recorded prefix or, at a new decision point, asks z3
which outcomes are feasible and schedules the alternative.  The function under
analysis is re-run from the start for every path (EXE/CrossHair scheme).

Anything the solver cannot decide raises ``Inconclusive`` -- it is never counted
as a pass nor as a violation (exit code 3 at the top level).
"""
import builtins
import time
from fractions import Fraction

import z3


class Abort(BaseException):
    """Infeasible path (path condition unsatisfiable)."""


class Inconclusive(Exception):
    """The machinery could not decide (unknown / unsupported / budget)."""


class Unsupported(Inconclusive):
    pass


def guard(e):
    """call first in every `except Exception as e` that classifies exceptions of the code under test:
    exceptions of the machinery itself (z3 API misuse, unsupported operation) must never become a verdict"""
    if isinstance(e, (z3.Z3Exception, Inconclusive)):
        raise e
    if isinstance(e, RecursionError) or 'RecursionError' in str(e) or 'maximum recursion depth' in str(e):
        raise Inconclusive('term too deep for the Python / z3 binding recursion limit: %s' % str(e)[:80])
    if isinstance(e, (TypeError, AttributeError)) and any(n in str(e) for n in ('SReal', 'SInt', 'SBool', 'SArr', "'ND'", 'SBV', 'Tok', 'Sym')):
        raise Unsupported('operation not supported by a proxy: %s' % e)


QUERY_TIMEOUT_MS = 120000
FRESH_SOLVER = False    # decide every branch with a fresh one-shot solver over the path condition (set by FP configurations)
FLOAT_AS_DECIMAL = False


class Stats:
    queries = 0
    solver_s = 0.0
    paths = 0
    branches = 0

    @classmethod
    def snapshot(cls):
        return dict(queries=cls.queries, solver_s=round(cls.solver_s, 3), paths=cls.paths,
                    branches=cls.branches)

    @classmethod
    def reset(cls):
        cls.queries = 0
        cls.solver_s = 0.0
        cls.paths = 0
        cls.branches = 0


DEADLINE = None      # wall-clock deadline of the current configuration (set by the driver); checked cooperatively


class DeadlineExceeded(BaseException):
    pass


def _deadline():
    if DEADLINE is not None and time.time() > DEADLINE:
        raise DeadlineExceeded()


def _check(solver, *extra):
    _deadline()
    Stats.queries += 1
    t0 = time.time()
    r = solver.check(*extra)
    Stats.solver_s += time.time() - t0
    r = str(r)
    if r == 'unknown':
        raise Inconclusive('solver returned unknown: %s' % solver.reason_unknown())
    return r


def check_sat(solver, *extra):
    """counted, timed check; 'unknown' raises Inconclusive"""
    return _check(solver, *extra)


def nra_check(assertions, timeout_ms=100000):
    """decide a conjunction with nlsat: applications of uninterpreted functions are replaced by fresh reals
    (functional consistency must already be stated by explicit axioms on the occurring instances)"""
    apps = {}

    def walk(t):
        if z3.is_app(t):
            d = t.decl()
            if d.kind() == z3.Z3_OP_UNINTERPRETED and t.num_args() > 0:
                if t.get_id() not in apps:
                    apps[t.get_id()] = (t, z3.Real('uf!%s!%d' % (d.name(), len(apps))))
            for a in t.children():
                walk(a)
    for a in assertions:
        walk(a)
    subs = [(t, v) for t, v in apps.values()]
    s = z3.Tactic('qfnra-nlsat').solver()
    s.set('timeout', timeout_ms)

    def sub(a):
        # repeat until no application is left (nested applications)
        for _ in range(8):
            b = z3.substitute(a, *subs) if subs else a
            if b.eq(a):
                break
            a = b
        return a
    for a in assertions:
        s.add(sub(a))
    # functional consistency (Ackermann): equal arguments => equal values
    items = list(apps.values())
    for i in range(len(items)):
        for j in range(i + 1, len(items)):
            (t1, v1), (t2, v2) = items[i], items[j]
            if t1.decl().eq(t2.decl()):
                s.add(z3.Implies(z3.And([sub(x) == sub(y) for x, y in zip(t1.children(), t2.children())]), v1 == v2))
    Stats.queries += 1
    t0 = time.time()
    r = str(s.check())
    Stats.solver_s += time.time() - t0
    return r, s


class Ctx:
    cur = None

    def __init__(self, prefix=()):
        self.decisions = list(prefix)
        self.pos = 0
        self.pc = []
        self.solver = z3.Solver()
        self.solver.set('timeout', QUERY_TIMEOUT_MS)
        self.pending = []
        self.inputs = None
        self.pinned = None
        self.notes = {}

    # -- solver helpers
    def feasible(self, cond):
        if FRESH_SOLVER:
            # floating-point configurations: z3's incremental core is far slower on QF_FP than the one-shot tactic solver
            s = z3.Solver()
            s.set('timeout', QUERY_TIMEOUT_MS)
            s.add(*self.pc)
            s.add(cond)
            return _check(s) == 'sat'
        self.solver.push()
        self.solver.add(cond)
        try:
            r = _check(self.solver)
        finally:
            self.solver.pop()
        return r == 'sat'

    def assume(self, *conds):
        for c in conds:
            if isinstance(c, SBool):
                c = c.z
            self.solver.add(c)
            self.pc.append(c)

    def valid(self, cond):
        """Is cond implied by the path condition?  (unsat of the negation)"""
        return not self.feasible(z3.Not(cond))

    def simp(self, term):
        """simplify a term; when the integer inputs are pinned, evaluate them by substitution first"""
        if self.pinned is not None:
            term = z3.substitute(term, *self.pinned)
        return z3.simplify(term)

    def model(self):
        if _check(self.solver) != 'sat':
            raise Abort()
        return self.solver.model()

    def branch(self, cond):
        _deadline()
        cond = z3.simplify(cond)
        if z3.is_true(cond):
            return True
        if z3.is_false(cond):
            return False
        if self.pinned is not None:
            v = z3.simplify(z3.substitute(cond, *self.pinned))
            if z3.is_true(v):
                return True
            if z3.is_false(v):
                return False
        Stats.branches += 1
        if self.pos < len(self.decisions):
            d = self.decisions[self.pos]
        else:
            t = self.feasible(cond)
            f = self.feasible(z3.Not(cond))
            if t and f:
                self.decisions.append(True)
                self.pending.append(len(self.decisions) - 1)
                d = True
            elif t:
                d = True
                self.decisions.append(d)
            elif f:
                d = False
                self.decisions.append(d)
            else:
                raise Abort()
        self.pos += 1
        c = cond if d else z3.Not(cond)
        self.solver.add(c)
        self.pc.append(c)
        self._try_pin()
        return d

    def _try_pin(self):
        ins = self.inputs
        if not ins or self.pinned is not None or self.pos < len(self.decisions):
            return
        if _check(self.solver) != 'sat':
            return
        m = self.solver.model()
        vals = [(v, m.eval(v, model_completion=True)) for v in ins]
        self.solver.push()
        self.solver.add(z3.Or([v != c for v, c in vals]))
        try:
            r = _check(self.solver)
        finally:
            self.solver.pop()
        if r == 'unsat':
            self.pinned = vals


def decide(cond):
    """Python bool for a z3 Bool under the current path; forks only if both outcomes feasible."""
    if isinstance(cond, SBool):
        cond = cond.z
    if isinstance(cond, bool):
        return cond
    cond = z3.simplify(cond)
    if z3.is_true(cond):
        return True
    if z3.is_false(cond):
        return False
    return Ctx.cur.branch(cond)


def assume(*conds):
    Ctx.cur.assume(*conds)


def explore(fn, max_paths=20000, budget_s=None):
    """Run fn() over all feasible paths; yields (ctx, result).  result is None for aborted paths."""
    stack = [[]]
    n = 0
    t0 = time.time()
    while stack:
        prefix = stack.pop()
        ctx = Ctx(prefix)
        Ctx.cur = ctx
        try:
            res = fn()
            ctx.aborted = False
        except Abort:
            res = None
            ctx.aborted = True
        for idx in ctx.pending:
            stack.append(ctx.decisions[:idx] + [False])
        if res is not None and not FRESH_SOLVER and _check(ctx.solver) != 'sat':
            res = None           # assumptions added after the last branch made the path infeasible
            ctx.aborted = True
        n += 1
        Stats.paths += 1
        yield ctx, res
        if n >= max_paths:
            raise Inconclusive('path budget exceeded (%d)' % max_paths)
        if budget_s is not None and time.time() - t0 > budget_s:
            raise Inconclusive('time budget exceeded (%.0fs)' % budget_s)
    Ctx.cur = None


# ---------------------------------------------------------------- scalars

def rv(v):
    """z3 Real term from a python number (floats are taken as their exact rational value)."""
    if isinstance(v, SReal):
        return v.z
    if isinstance(v, SInt):
        return z3.ToReal(v.z)
    if isinstance(v, bool):
        return z3.RealVal(int(v))
    if isinstance(v, int):
        return z3.RealVal(v)
    if isinstance(v, float):
        # FLOAT_AS_DECIMAL: read a float as its shortest decimal literal (26.81 -> 2681/100), i.e. the constant the
        # source text states, instead of the exact value of the nearest double (closed-form checks over the reals)
        v = float.__float__(v) if type(v) is not float else v      # np.float64 is a float subclass with another repr
        f = Fraction(repr(v)) if FLOAT_AS_DECIMAL else Fraction(v)
        return z3.RealVal(f.numerator) / z3.RealVal(f.denominator) if f.denominator != 1 else z3.RealVal(f.numerator)
    if isinstance(v, Fraction):
        return z3.Q(v.numerator, v.denominator)
    if isinstance(v, z3.ExprRef):
        if v.sort() == z3.IntSort():
            return z3.ToReal(v)
        return v
    try:
        import numpy as _np
        if isinstance(v, _np.floating):
            return rv(float(v))
        if isinstance(v, _np.integer):
            return rv(int(v))
    except ImportError:
        pass
    raise TypeError('rv: %r' % type(v))


def _z(v):
    if isinstance(v, SInt):
        return v.z
    if isinstance(v, bool):
        return z3.IntVal(int(v))
    if isinstance(v, int):
        return z3.IntVal(v)
    if isinstance(v, z3.ExprRef):
        return v
    try:
        import numpy as _np
        if isinstance(v, _np.integer):
            return z3.IntVal(int(v))
    except ImportError:
        pass
    raise TypeError('_z: %r' % type(v))


class SBool:
    def __init__(self, z):
        self.z = z

    def __bool__(self):
        return Ctx.cur.branch(self.z)

    @staticmethod
    def _b(o):
        return o.z if isinstance(o, SBool) else z3.BoolVal(bool(o))

    def __and__(self, o):
        return SBool(z3.And(self.z, self._b(o)))

    __rand__ = __and__

    def __or__(self, o):
        return SBool(z3.Or(self.z, self._b(o)))

    __ror__ = __or__

    def __invert__(self):
        return SBool(z3.Not(self.z))

    def __eq__(self, o):
        return SBool(self.z == self._b(o))

    def __hash__(self):
        return hash(self.z)


class SInt:
    def __getitem__(self, key):
        # a NumPy scalar / 0-d array indexed with () or ... is the scalar itself
        if key == () or key is Ellipsis:
            return self
        raise Unsupported('scalar proxy indexed with %r' % (key,))

    def __init__(self, z):
        self.z = z3.IntVal(z) if isinstance(z, int) else z

    def __add__(s, o):
        if isinstance(o, (SReal, float)):
            return SReal(rv(s) + rv(o))
        return SInt(s.z + _z(o))

    __radd__ = __add__

    def __sub__(s, o):
        if isinstance(o, (SReal, float)):
            return SReal(rv(s) - rv(o))
        return SInt(s.z - _z(o))

    def __rsub__(s, o):
        if isinstance(o, (SReal, float)):
            return SReal(rv(o) - rv(s))
        return SInt(_z(o) - s.z)

    def __mul__(s, o):
        if isinstance(o, (SReal, float)):
            return SReal(rv(s)) * o
        return SInt(s.z * _z(o))

    __rmul__ = __mul__

    def __neg__(s):
        return SInt(-s.z)

    def __pos__(s):
        return s

    def __truediv__(s, o):
        return SReal(rv(s)) / o

    def __rtruediv__(s, o):
        return SReal(rv(o)) / s

    def __floordiv__(s, o):
        if isinstance(o, int) and o > 0:
            return SInt(s.z / o)  # z3 int div floors for positive divisor
        oz = _z(o)
        if decide(oz > 0):
            return SInt(s.z / oz)
        if decide(oz < 0):
            return SInt((-s.z) / (-oz))
        raise ZeroDivisionError('integer division or modulo by zero')

    def __rfloordiv__(s, o):
        return SInt(_z(o)).__floordiv__(s)

    def __mod__(s, o):
        if isinstance(o, int) and o > 0:
            return SInt(s.z % o)
        oz = _z(o)
        if decide(oz > 0):
            return SInt(s.z % oz)
        if decide(oz < 0):
            return SInt(-((-s.z) % (-oz)))
        raise ZeroDivisionError('integer division or modulo by zero')

    def __rmod__(s, o):
        return SInt(_z(o)).__mod__(s)

    def _cmp(s, o, f):
        if isinstance(o, (SReal, float)):
            return SBool(f(rv(s), rv(o)))
        return SBool(f(s.z, _z(o)))

    def __lt__(s, o):
        return s._cmp(o, lambda a, b: a < b)

    def __le__(s, o):
        return s._cmp(o, lambda a, b: a <= b)

    def __gt__(s, o):
        return s._cmp(o, lambda a, b: a > b)

    def __ge__(s, o):
        return s._cmp(o, lambda a, b: a >= b)

    def __eq__(s, o):
        if o is None:
            return False
        return s._cmp(o, lambda a, b: a == b)

    def __ne__(s, o):
        if o is None:
            return True
        return s._cmp(o, lambda a, b: a != b)

    def __bool__(s):
        return Ctx.cur.branch(s.z != 0)

    def __hash__(s):
        return hash(s.z)

    def __abs__(s):
        return SInt(z3.If(s.z >= 0, s.z, -s.z))

    def __int__(s):
        return s.__index__()

    def __format__(s, spec):
        return '<int>'

    def __float__(s):
        raise Unsupported('float() of symbolic int')

    def __index__(s):
        """Concretise by forking on the value (small ranges only)."""
        sz = z3.simplify(s.z)
        if z3.is_int_value(sz):
            return sz.as_long()
        c = Ctx.cur
        if c.pinned is not None:
            v = z3.simplify(z3.substitute(sz, *c.pinned))
            if z3.is_int_value(v):
                return v.as_long()
        m = c.model()
        v0 = m.eval(sz, model_completion=True).as_long()
        if c.branch(sz == v0):
            return v0
        # enumerate upward/downward from there
        for _ in range(100000):
            m = c.model()
            v = m.eval(sz, model_completion=True).as_long()
            if c.branch(sz == v):
                return v
        raise Inconclusive('concretise range')

    def __repr__(s):
        return 'SInt(%s)' % s.z


def conc(v):
    """Return a python int when a possibly-symbolic int simplifies to a constant."""
    if isinstance(v, SInt):
        s = z3.simplify(v.z)
        if z3.is_int_value(s):
            return s.as_long()
        return SInt(s)
    if isinstance(v, z3.ExprRef):
        s = z3.simplify(v)
        if z3.is_int_value(s):
            return s.as_long()
        return SInt(s)
    return v


# non-linear products: either handed to z3 (NRA) or abstracted by an uninterpreted MUL
MUL = z3.Function('MUL', z3.RealSort(), z3.RealSort(), z3.RealSort())
NONLINEAR_UF = False


def rmul(a, b):
    a = z3.simplify(a) if not z3.is_rational_value(a) else a
    b = z3.simplify(b) if not z3.is_rational_value(b) else b
    if z3.is_rational_value(a) or z3.is_rational_value(b) or not NONLINEAR_UF:
        return a * b
    return umul(a, b)


def umul(a, b):
    """uninterpreted commutative product: arguments in a canonical order"""
    ka = (a.decl().name() if z3.is_app(a) else '', a.get_id())
    kb = (b.decl().name() if z3.is_app(b) else '', b.get_id())
    if ka > kb:        # by head symbol first (stable across syntactically different arguments), then by term id
        a, b = b, a
    return MUL(a, b)


def _defer(o):
    return hasattr(o, 'store') or hasattr(o, '_get') or isinstance(o, SNaN)   # symbolic arrays (and NaN) handle mixed arithmetic themselves


class SReal:
    def __getitem__(self, key):
        # a NumPy scalar / 0-d array indexed with () or ... is the scalar itself
        if key == () or key is Ellipsis:
            return self
        raise Unsupported('scalar proxy indexed with %r' % (key,))

    def __init__(self, z):
        self.z = rv(z) if not isinstance(z, z3.ExprRef) else (z3.ToReal(z) if z.sort() == z3.IntSort() else z)

    def __add__(s, o):
        if _defer(o):
            return NotImplemented
        return SReal(s.z + rv(o))

    __radd__ = __add__

    def __sub__(s, o):
        if _defer(o):
            return NotImplemented
        return SReal(s.z - rv(o))

    def __rsub__(s, o):
        if isinstance(o, SNaN):
            return o
        return SReal(rv(o) - s.z)

    def __mul__(s, o):
        if _defer(o):
            return NotImplemented
        return SReal(rmul(s.z, rv(o)))

    __rmul__ = __mul__

    def __truediv__(s, o):
        if isinstance(o, SNaN):
            return o
        oz = rv(o)
        if not z3.is_rational_value(z3.simplify(oz)) and DIV_GUARD:
            if not decide(oz != 0):
                raise ZeroDivisionError('float division by zero')
        return SReal(s.z / oz)

    def __rtruediv__(s, o):
        return SReal(rv(o)).__truediv__(s)

    def __mod__(s, o):
        oz = rv(o)
        if not z3.is_rational_value(z3.simplify(oz)):
            raise Unsupported('SReal % symbolic')
        if not decide(oz > 0):
            raise Unsupported('SReal % non-positive')
        return SReal(s.z - oz * z3.ToReal(z3.ToInt(s.z / oz)))   # python: result has the sign of the divisor

    def __neg__(s):
        return SReal(-s.z)

    def __pos__(s):
        return s

    def __abs__(s):
        return SReal(z3.If(s.z >= 0, s.z, -s.z))

    def __pow__(s, k):
        if isinstance(k, int) and k >= 0:
            r = z3.RealVal(1)
            for _ in range(k):
                r = rmul(r, s.z)
            return SReal(r)
        if isinstance(k, int) and k < 0:
            return SReal(1) / (s ** (-k))
        if k == 0.5:
            return ssqrt(s)
        raise Unsupported('SReal ** %r' % (k,))

    def _cmp(s, o, f):
        return SBool(f(s.z, rv(o)))

    def __lt__(s, o):
        return s._cmp(o, lambda a, b: a < b)

    def __le__(s, o):
        return s._cmp(o, lambda a, b: a <= b)

    def __gt__(s, o):
        return s._cmp(o, lambda a, b: a > b)

    def __ge__(s, o):
        return s._cmp(o, lambda a, b: a >= b)

    def __eq__(s, o):
        if o is None:
            return False
        return s._cmp(o, lambda a, b: a == b)

    def __ne__(s, o):
        if o is None:
            return True
        return s._cmp(o, lambda a, b: a != b)

    def __bool__(s):
        return Ctx.cur.branch(s.z != 0)

    def __hash__(s):
        return hash(s.z)

    def __format__(s, spec):
        return '<real>'

    def __round__(s, ndigits=None):
        if ndigits is not None:
            raise Unsupported('round(x, ndigits)')
        h = s.z + z3.RealVal('1/2')
        f = z3.ToInt(h)
        tie = z3.ToReal(f) == h
        return SInt(z3.If(z3.And(tie, f % 2 == 1), f - 1, f))     # round half to even, as Python does

    def __float__(s):
        raise Unsupported('float() of symbolic real')

    def __int__(s):
        # int() truncates toward zero
        return sint_trunc(s)

    def __repr__(s):
        return 'SReal(%s)' % s.z


DIV_GUARD = True

SQRT = z3.Function('SQRT', z3.RealSort(), z3.RealSort())


SQRT_DOMAIN = False     # when set, sqrt of an argument that can be negative forks: the negative branch yields NaN


class SNaN:
    """IEEE NaN as NumPy's real-valued functions produce it outside their domain (sqrt / log of a negative number):
    arithmetic propagates it, every ordered comparison is False, conversion to int raises ValueError"""

    def _same(s, *a, **k):
        return s
    __add__ = __radd__ = __sub__ = __rsub__ = __mul__ = __rmul__ = __truediv__ = __rtruediv__ = _same
    __pow__ = __rpow__ = __neg__ = __pos__ = __abs__ = __floordiv__ = __rfloordiv__ = __mod__ = __rmod__ = _same

    def __lt__(s, o):
        return False
    __le__ = __gt__ = __ge__ = __eq__ = __lt__

    def __ne__(s, o):
        return True

    def __hash__(s):
        return 0

    def __bool__(s):
        return True

    def __float__(s):
        return float('nan')

    def __int__(s):
        raise ValueError('cannot convert float NaN to integer')

    __index__ = __int__

    def __repr__(s):
        return 'nan'


def ssqrt(v):
    """sqrt as an uninterpreted function with its defining axioms instantiated on the argument."""
    if isinstance(v, SNaN):
        return v
    vz = rv(v)
    if SQRT_DOMAIN and Ctx.cur is not None and not decide(vz >= 0):
        return SNaN()
    r = SQRT(vz)
    c = Ctx.cur
    if c is not None:
        c.solver.add(z3.Implies(vz >= 0, z3.And(r >= 0, r * r == vz)))
    return SReal(r)


def sint_trunc(v):
    vz = rv(v)
    fl = z3.ToInt(vz)
    return SInt(z3.If(vz >= 0, fl, -z3.ToInt(-vz)))


def sfloor(v):
    if isinstance(v, (int, SInt, SNaN)):
        return v
    return SInt(z3.ToInt(rv(v)))


def sceil(v):
    if isinstance(v, (int, SInt, SNaN)):
        return v
    return SInt(-z3.ToInt(-rv(v)))


def is_sym(v):
    return isinstance(v, (SInt, SReal, SBool))


def smax(*a, **kw):
    if len(a) == 1:
        a = tuple(a[0])
    if not any(is_sym(v) for v in a):
        return builtins.max(*a, **kw) if len(a) > 1 else a[0]
    r = a[0]
    for b in a[1:]:
        if isinstance(r, (SReal, float)) or isinstance(b, (SReal, float)):
            # python's max returns the first maximal element; value-wise identical
            r = SReal(z3.If(rv(r) >= rv(b), rv(r), rv(b)))
        elif isinstance(r, SInt) or isinstance(b, SInt):
            r = SInt(z3.If(_z(r) >= _z(b), _z(r), _z(b)))
        else:
            r = builtins.max(r, b)
    return r


def smin(*a, **kw):
    if len(a) == 1:
        a = tuple(a[0])
    if not any(is_sym(v) for v in a):
        return builtins.min(*a, **kw) if len(a) > 1 else a[0]
    r = a[0]
    for b in a[1:]:
        if isinstance(r, (SReal, float)) or isinstance(b, (SReal, float)):
            r = SReal(z3.If(rv(r) <= rv(b), rv(r), rv(b)))
        elif isinstance(r, SInt) or isinstance(b, SInt):
            r = SInt(z3.If(_z(r) <= _z(b), _z(r), _z(b)))
        else:
            r = builtins.min(r, b)
    return r


def sabs(v):
    if is_sym(v):
        return abs(v)
    return builtins.abs(v)


def srange(*a):
    if len(a) == 1:
        lo, hi, st = 0, a[0], 1
    elif len(a) == 2:
        lo, hi, st = a[0], a[1], 1
    else:
        lo, hi, st = a
    if not any(isinstance(v, SInt) for v in (lo, hi, st)):
        return builtins.range(lo, hi, st)
    if not isinstance(st, int):
        st = st.__index__()
    assert st != 0

    def gen():
        i = lo
        if st > 0:
            while i < hi:  # forks
                yield conc(i)
                i = i + st
        else:
            while i > hi:
                yield conc(i)
                i = i + st
    return gen()


def scount(start=0, step=1):
    i = start
    while True:
        yield i
        i = i + step


def sint(v, *a):
    """stand-in for builtins.int"""
    if isinstance(v, SInt):
        return v
    if isinstance(v, SNaN):
        raise ValueError('cannot convert float NaN to integer')
    if isinstance(v, SReal):
        return sint_trunc(v)
    if isinstance(v, SBool):
        return SInt(z3.If(v.z, 1, 0))
    return builtins.int(v, *a)


class _IntMeta(type):
    def __instancecheck__(cls, obj):
        return isinstance(obj, (builtins.int, SInt))


class int_type(builtins.int, metaclass=_IntMeta):
    """stand-in for the builtin `int` that still works in isinstance(x, int)"""

    def __new__(cls, v=0, *a):
        return sint(v, *a)


def sfloat(v=0.0):
    """stand-in for builtins.float: exact on symbolic values (reals model the float64 computation, see DESIGN 1.3)"""
    if isinstance(v, (SReal, SNaN)):
        return v
    if isinstance(v, SInt):
        return SReal(z3.ToReal(v.z))
    if isinstance(v, SBool):
        return SReal(z3.If(v.z, z3.RealVal(1), z3.RealVal(0)))
    return builtins.float(v)


class _FloatMeta(type):
    def __instancecheck__(cls, obj):
        return isinstance(obj, (builtins.float, SReal))


class float_type(builtins.float, metaclass=_FloatMeta):
    """stand-in for the builtin `float` that still works in isinstance(x, float)"""

    def __new__(cls, v=0.0):
        return sfloat(v)


def sbool(v):
    if isinstance(v, SBool):
        return v
    return builtins.bool(v)


# ---------------------------------------------------------------- 1-D lazy arrays (fast path for the STFT harness)

class SArr:
    """1-D lazy array: length (int|SInt) and element function i (z3 Int) -> z3 term.

    Base arrays own their element function (writes replace it); slices are *live views*
    (reads go to the base at read time, writes go through to the base), as in NumPy.
    ``snapshot()`` gives the element function frozen at call time (copy semantics).
    """

    def __init__(self, n, get=None, dtype='f8', readonly=False, base=None, off=None):
        self.n = n
        self._get = get
        self.dtype = dtype
        self.readonly = readonly
        self.base = base
        self.off = off
        self.writes = 0

    def get(self, i):
        if self.base is None:
            return self._get(i)
        return self.base.get(self.off + i)

    def snapshot(self):
        if self.base is None:
            return self._get
        g = self.base.snapshot()
        off = self.off
        return lambda i: g(off + i)

    def __len__(self):
        raise TypeError('len() of symbolic array: namespace must use slen')

    def _slen(self):
        return self.n

    @property
    def shape(self):
        return (self.n,)

    @property
    def ndim(self):
        return 1

    def _norm(self, sl):
        n = self.n
        assert sl.step in (None, 1), sl.step

        def fix(v, default):
            if v is None:
                return default
            if isinstance(v, int) and isinstance(n, int):
                if v < 0:
                    v += n
                return builtins.min(builtins.max(v, 0), n)
            vz = _z(v)
            nz = _z(n)
            vz = z3.If(vz < 0, vz + nz, vz)
            vz = z3.If(vz < 0, 0, z3.If(vz > nz, nz, vz))
            return conc(SInt(z3.simplify(vz)))
        a = fix(sl.start, 0)
        b = fix(sl.stop, n)
        ln = smax(0, b - a)
        return a, conc(ln)

    def _slice_neg(self, sl):
        n = _z(self.n)

        def fix(v, default):
            if v is None:
                return default
            vz = _z(v)
            vz = z3.If(vz < 0, vz + n, vz)
            return z3.If(vz < 0, z3.IntVal(-1), z3.If(vz >= n, n - 1, vz))
        a = fix(sl.start, n - 1)
        b = fix(sl.stop, z3.IntVal(-1))
        ln = z3.If(a - b > 0, a - b, 0)
        g = self.snapshot()
        return SArr(conc(SInt(z3.simplify(ln))), lambda i: g(a - i), self.dtype)

    def __getitem__(self, k):
        if isinstance(k, slice):
            if k.step == -1:
                return self._slice_neg(k)
            a, ln = self._norm(k)
            return SArr(ln, None, self.dtype, self.readonly, base=self, off=_z(a))
        kz = _z(k)
        nz = _z(self.n)
        if not decide(z3.And(kz >= -nz, kz < nz)):
            raise IndexError('index out of bounds')
        return self.get(z3.If(kz < 0, kz + nz, kz))

    def _write(self, az, lz, vg):
        """elements [az, az+lz) := vg(i - az)"""
        if self.readonly:
            raise ValueError('assignment destination is read-only')
        self.writes += 1
        if self.base is not None:
            self.base._write(self.off + az, lz, vg)
            return
        old = self._get
        self._get = lambda i: z3.If(z3.And(i >= az, i < az + lz), vg(i - az), old(i))

    def __setitem__(self, k, v):
        if self.readonly:
            raise ValueError('assignment destination is read-only')
        if isinstance(k, slice):
            a, ln = self._norm(k)
            if isinstance(v, SArr):
                ok = SInt(_z(v.n)) == ln
                if not ok:
                    raise ValueError('could not broadcast input array')
                vg = v.snapshot()
                wd, ws = _FLOAT_WIDTH.get(self.dtype), _FLOAT_WIDTH.get(v.dtype)
                if wd is not None and ws is not None and wd < ws:
                    # storing into a narrower float array rounds: visible as an uninterpreted CAST_<dtype> of the value
                    cf, vg0 = _store_cast(self.dtype), vg
                    vg = (lambda i: (lambda t: cf(t) if z3.is_expr(t) and t.sort() == z3.RealSort() else t)(vg0(i)))
            else:
                vg = (lambda i: v)
            self._write(_z(a), _z(ln), vg)
        else:
            kz = _z(k)
            nz = _z(self.n)
            if not decide(z3.And(kz >= -nz, kz < nz)):
                raise IndexError('index out of bounds')
            self._write(z3.If(kz < 0, kz + nz, kz), z3.IntVal(1), lambda i: v)

    def conj(self):
        return self

    def copy(self):
        return SArr(self.n, self.snapshot(), self.dtype)

    def astype(self, dt, copy=True):
        return SArr(self.n, self.snapshot(), dt)

    def __mul__(self, o):
        if isinstance(o, SArr):
            ok = SInt(_z(self.n)) == SInt(_z(o.n))
            if not ok:
                raise ValueError('operands could not be broadcast together')
            ag, bg = self.snapshot(), o.snapshot()
            return SArr(self.n, lambda i: (ag(i), bg(i)), self.dtype)
        ag = self.snapshot()
        return SArr(self.n, lambda i: (ag(i), o), self.dtype)


_FLOAT_WIDTH = {'f2': 2, 'f4': 4, 'f8': 8}
_STORE_CASTS = {}


def _store_cast(dt):
    if dt not in _STORE_CASTS:
        _STORE_CASTS[dt] = z3.Function('CAST_' + dt, z3.RealSort(), z3.RealSort())
    return _STORE_CASTS[dt]


def slen(a):
    if isinstance(a, SArr):
        return a.n
    if hasattr(a, '_slen'):
        return a._slen()
    return builtins.len(a)
